#!/bin/sh
# usage: runall.sh [tier]  — run every claimed check on /repo (8 at a time), print one line each
cd "$(dirname "$0")" || exit 2
T=${1:-quick}
jq -r '.checks[].property_id' MANIFEST.json | xargs -P 8 -I{} sh -c "./check {} --tier $T 2>&1 | grep -E '^(OK|VIOLATION|ANALYSIS-ERROR|KNOWN-FINDING)' | head -3"
