#!/bin/sh
# usage: seedtest.sh <ID> <patch.diff> [tier]  — run check <ID> on a scratch copy of /repo/src with the patch applied
ID=$1; P=$2
S=$(mktemp -d /var/tmp/seed.XXXXXX)
mkdir -p $S/src && cp -r /repo/src/fdtdx $S/src/
if ! patch -s -p1 -F0 -d $S < "$P" >/dev/null 2>&1; then echo "SEED: patch does not apply"; rm -rf $S; exit 3; fi
cd /verif && VERIF_EVIDENCE_DIR=$S/ev ./check $ID --repo $S ${3:+--tier $3} | grep -E "^(VIOLATION|OK|ANALYSIS-ERROR|KNOWN)|^  rule" | cut -c1-260 | head -${LINES_OUT:-8}
rm -rf $S
