import sys, traceback
import jax, jax.numpy as jnp, numpy as np
import fdtdx
from fdtdx.core.switch import OnOffSwitch

def run(switch, label):
    config = fdtdx.SimulationConfig(grid=fdtdx.UniformGrid(spacing=50e-9), time=2e-15, dtype=jnp.float32)
    volume = fdtdx.SimulationVolume(partial_grid_shape=(6, 6, 6))
    bcfg = fdtdx.BoundaryConfig.from_uniform_bound(thickness=1, override_types={f"{m}_{n}": "periodic" for m in ("min","max") for n in "xyz"})
    bdict, clist = fdtdx.boundary_objects_from_config(bcfg, volume)
    det = fdtdx.FieldDetector(name="det", partial_grid_shape=(2, 2, 2), switch=switch, reduce_volume=False)
    cons = list(clist) + [det.place_at_center(volume)]
    key = jax.random.PRNGKey(0)
    objs, arrays, params, config, _ = fdtdx.place_objects(object_list=[volume, det, *bdict.values()], config=config, constraints=cons, key=key)
    arrays, objs, _ = fdtdx.apply_params(arrays, objs, params, key)
    try:
        _, arrays = fdtdx.run_fdtd(arrays=arrays, objects=objs, config=config, key=key)
        st = arrays.detector_states["det"]
        print(f"{label}: ran {config.time_steps_total} steps; records stored: {{k: v.shape for k, v in st.items()}} = { {k: tuple(v.shape) for k, v in st.items()} }")
        return True
    except Exception as e:
        print(f"{label}: run_fdtd raises {type(e).__name__}: {str(e)[:200]}")
        return False
a = run(OnOffSwitch(), "default switch")
b = run(OnOffSwitch(is_always_off=True), "always-off detector")
print("PASS" if a and b else "FAIL"); sys.exit(0 if a and b else 1)
