import sys
import jax, jax.numpy as jnp, numpy as np
jax.config.update("jax_enable_x64", True)
import fdtdx
from fdtdx.fdtd.update import update_E, update_H
from fdtdx.core.grid import RectilinearGrid

def build(widths_xyz, btypes):
    edges = [np.concatenate([[0.0], np.cumsum(w)]) for w in widths_xyz]
    grid = RectilinearGrid.custom(x_edges=jnp.asarray(edges[0]), y_edges=jnp.asarray(edges[1]), z_edges=jnp.asarray(edges[2])) 
    shape = tuple(len(w) for w in widths_xyz)
    config = fdtdx.SimulationConfig(grid=grid, time=100e-15, dtype=jnp.float64)
    volume = fdtdx.SimulationVolume(partial_grid_shape=shape)
    override = {}
    for ax, name in enumerate("xyz"):
        override[f"min_{name}"] = btypes[ax]; override[f"max_{name}"] = btypes[ax]
    bcfg = fdtdx.BoundaryConfig.from_uniform_bound(thickness=4, override_types=override)
    bdict, clist = fdtdx.boundary_objects_from_config(bcfg, volume)
    key = jax.random.PRNGKey(0)
    objs, arrays, params, config, _ = fdtdx.place_objects(object_list=[volume, *bdict.values()], config=config, constraints=list(clist), key=key)
    arrays, objs, _ = fdtdx.apply_params(arrays, objs, params, key)
    return objs, arrays, config

def run(wx, label, eps_kind="iso"):
    rng = np.random.default_rng(0)
    wy = np.full(3, 50e-9); wz = np.full(3, 50e-9)
    N = len(wx); shape = (N, 3, 3)
    E0 = rng.normal(size=(3, *shape)); H0 = rng.normal(size=(3, *shape))
    res = []
    for m in (1, 2):
        objs, arrays, config = build([np.tile(wx, m), wy, wz], ("periodic",) * 3)
        dt = config.time_step_duration
        if eps_kind == "full":
            r2 = np.random.default_rng(5)
            def spd():
                n = int(np.prod(shape)); A = r2.normal(size=(n,3,3))*0.25
                M = (np.eye(3)[None]*r2.uniform(0.25,0.9,size=(n,1,1)) + A @ np.transpose(A,(0,2,1)))/2
                return np.transpose(M.reshape(*shape,9),(3,0,1,2))
            arrays = arrays.aset("inv_permittivities", jnp.asarray(np.tile(spd(), (1, m, 1, 1))))
            arrays = arrays.aset("inv_permeabilities", jnp.asarray(np.tile(spd(), (1, m, 1, 1))))
        arrays = arrays.aset("fields->E", jnp.asarray(np.tile(E0, (1, m, 1, 1))))
        arrays = arrays.aset("fields->H", jnp.asarray(np.tile(H0, (1, m, 1, 1))))
        for t in range(3):
            arrays = update_E(jnp.asarray(t), arrays, objs, config, simulate_boundaries=True)
            arrays = update_H(jnp.asarray(t), arrays, objs, config, simulate_boundaries=True)
        res.append((np.asarray(arrays.fields.E), np.asarray(arrays.fields.H), dt))
    (Es, Hs, dts), (Eb, Hb, dtb) = res
    d = max(np.max(np.abs(np.tile(Es, (1, 2, 1, 1)) - Eb)), np.max(np.abs(np.tile(Hs, (1, 2, 1, 1)) - Hb)))
    print(f"{label}: dt small={dts:.6e} big={dtb:.6e}  max abs deviation N-cell vs 2N-cell supercell = {d:.3e}")
    return d

a = run(np.array([50e-9, 60e-9, 70e-9, 60e-9, 50e-9]), "x widths 50,60,70,60,50 nm (first == last)")
b = run(np.array([40e-9, 50e-9, 60e-9, 70e-9, 80e-9]), "x widths 40,50,60,70,80 nm (first != last)")
c = run(np.array([40e-9, 50e-9, 60e-9, 70e-9, 80e-9]), "same, full eps/mu tensors", eps_kind="full")
ok = a < 1e-9 and b < 1e-9 and c < 1e-9
print("PASS" if ok else "FAIL")
sys.exit(0 if ok else 1)
