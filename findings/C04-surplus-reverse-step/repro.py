"""C04 demo (variant a): time-reversal gradients must equal exact checkpointed-autodiff gradients.

A small lossless, non-dispersive scene is built twice (GradientConfig method "reversible" with a
lossless Recorder, and method "checkpointed").  The loss is a random linear functional of ALL detector
outputs (random cotangents), the differentiated inputs are a random inverse-permittivity array.
Gradients are compared on every cell that is at least two cells away from an absorbing layer
(the first cell next to a PML is excluded on purpose: the unmodified code already runs one surplus
reverse step at t = -1 there, which is unrelated to this demo).

Two scenes are checked:
  * "closed":  periodic / PEC / PMC walls only (no absorbing layer)
  * "pml-z":   periodic in x, y and a CPML (default grading) on both z faces

Exit code 0 + "PASS" if both agree to round-off (float64), exit code 1 + "FAIL" otherwise.
"""

import sys
import time

import jax

jax.config.update("jax_enable_x64", True)

import jax.numpy as jnp  # noqa: E402
import numpy as np  # noqa: E402

import fdtdx  # noqa: E402
from fdtdx.config import GradientConfig, SimulationConfig  # noqa: E402
from fdtdx.constants import c as c0  # noqa: E402
from fdtdx.core.grid import UniformGrid  # noqa: E402
from fdtdx.fdtd.wrapper import run_fdtd  # noqa: E402
from fdtdx.interfaces.recorder import Recorder  # noqa: E402

RES = 50e-9
PML_CELLS = 3
SHAPE = (10, 10, 16)
SIM_TIME = 22e-15
TOL = 1e-8


def build(method, btypes):
    if method == "reversible":
        gc = GradientConfig(method="reversible", recorder=Recorder(modules=[]))
    else:
        gc = GradientConfig(method="checkpointed", num_checkpoints=10)
    config = SimulationConfig(
        time=SIM_TIME,
        grid=UniformGrid(spacing=RES),
        backend="cpu",
        dtype=jnp.float64,
        courant_factor=0.99,
        gradient_config=gc,
    )
    objects, constraints = [], []
    volume = fdtdx.SimulationVolume(partial_grid_shape=SHAPE)
    objects.append(volume)
    bound_cfg = fdtdx.BoundaryConfig.from_uniform_bound(thickness=PML_CELLS, override_types=btypes)
    bound_dict, c_list = fdtdx.boundary_objects_from_config(bound_cfg, volume)
    objects.extend(bound_dict.values())
    constraints.extend(c_list)

    source = fdtdx.PointDipoleSource(
        name="dip",
        partial_grid_shape=(1, 1, 1),
        wave_character=fdtdx.WaveCharacter(frequency=c0 / 800e-9),
        polarization=0,
        amplitude=1.0,
    )
    constraints.append(
        source.set_grid_coordinates(axes=(0, 1, 2), sides=("-", "-", "-"), coordinates=(5, 4, 6))
    )
    objects.append(source)

    det = fdtdx.FieldDetector(name="fd", partial_grid_shape=(4, 4, 2), plot=False, dtype=jnp.float64)
    constraints.append(det.set_grid_coordinates(axes=(0, 1, 2), sides=("-", "-", "-"), coordinates=(3, 3, 8)))
    objects.append(det)
    en = fdtdx.EnergyDetector(name="en", partial_grid_shape=(3, 3, 2), plot=False, dtype=jnp.float64)
    constraints.append(en.set_grid_coordinates(axes=(0, 1, 2), sides=("-", "-", "-"), coordinates=(2, 5, 5)))
    objects.append(en)

    key = jax.random.PRNGKey(0)
    obj, arrays, params, config, _ = fdtdx.place_objects(
        object_list=objects, config=config, constraints=constraints, key=key
    )
    arrays, obj, _ = fdtdx.apply_params(arrays, obj, params, key)
    return obj, arrays, config


def gradient(method, btypes, seed):
    obj, arrays, config = build(method, btypes)
    rng = np.random.default_rng(seed)
    inv_eps = jnp.asarray(rng.uniform(0.35, 1.0, size=arrays.inv_permittivities.shape))
    cots = {
        name: {k: jnp.asarray(rng.normal(size=v.shape)) for k, v in st.items()}
        for name, st in sorted(arrays.detector_states.items())
    }

    def loss(ie):
        arr = arrays.aset("inv_permittivities", ie)
        _, out = run_fdtd(arr, obj, config, jax.random.PRNGKey(1), show_progress=False)
        tot = 0.0
        for name, st in out.detector_states.items():
            for k, v in st.items():
                tot = tot + jnp.sum(jnp.real(v) * cots[name][k])
        return tot

    val, g = jax.jit(jax.value_and_grad(loss))(inv_eps)
    return float(val), np.asarray(g), obj, config


def compare_mask(obj, shape):
    """True on cells at least two cells away from every absorbing layer."""
    m = np.ones(shape, dtype=bool)
    for p in obj.pml_objects:
        sl = list(p.grid_slice)
        a = p.axis
        lo, hi = sl[a].start, sl[a].stop
        sl[a] = slice(lo, hi)
        m[tuple(sl)] = False
    return m


def check(label, btypes, seed):
    t0 = time.time()
    l_rev, g_rev, obj, config = gradient("reversible", btypes, seed)
    l_chk, g_chk, _, _ = gradient("checkpointed", btypes, seed)
    m = compare_mask(obj, g_rev.shape[1:])
    a, b = g_rev[:, m], g_chk[:, m]
    scale = float(np.max(np.abs(b)))
    err = float(np.max(np.abs(a - b)))
    rel = err / (scale + 1e-300)
    ok = np.isfinite(rel) and rel < TOL and abs(l_rev - l_chk) <= 1e-9 * (abs(l_chk) + 1e-300)
    print(
        f"[{label}] steps={config.time_steps_total} cells compared={int(m.sum())} "
        f"loss rev={l_rev:.12e} chk={l_chk:.12e}  max|grad_chk|={scale:.3e} "
        f"max|grad_rev-grad_chk|={err:.3e} rel={rel:.3e}  -> {'ok' if ok else 'MISMATCH'} "
        f"({time.time() - t0:.1f}s)"
    )
    return ok


def main():
    print("fdtdx imported from", fdtdx.__file__)
    per = {f: "periodic" for f in ("min_x", "max_x", "min_y", "max_y", "min_z", "max_z")}
    closed = {**per, "min_y": "pec", "max_y": "pec", "min_z": "pmc", "max_z": "pmc"}
    pml_z = {**per, "min_z": "pml", "max_z": "pml"}
    ok1 = check("closed", closed, seed=1)
    ok2 = check("pml-z", pml_z, seed=2)
    if ok1 and ok2:
        print("PASS: reversible gradients equal checkpointed-autodiff gradients to round-off")
        return 0
    print("FAIL: reversible gradient differs from exact checkpointed-autodiff gradient")
    return 1


if __name__ == "__main__":
    sys.exit(main())
