import sys
import jax, jax.numpy as jnp, numpy as np
jax.config.update("jax_enable_x64", True)
import fdtdx
from fdtdx.core.physics.curl import interpolate_fields
from fdtdx.fdtd.update import pad_fields_for_boundaries
from fdtdx.core.grid import RectilinearGrid

def build(widths_xyz):
    edges = [np.concatenate([[0.0], np.cumsum(w)]) for w in widths_xyz]
    grid = RectilinearGrid.custom(x_edges=jnp.asarray(edges[0]), y_edges=jnp.asarray(edges[1]), z_edges=jnp.asarray(edges[2]))
    shape = tuple(len(w) for w in widths_xyz)
    config = fdtdx.SimulationConfig(grid=grid, time=100e-15, dtype=jnp.float64)
    volume = fdtdx.SimulationVolume(partial_grid_shape=shape)
    override = {f"{m}_{n}": "periodic" for m in ("min", "max") for n in "xyz"}
    bcfg = fdtdx.BoundaryConfig.from_uniform_bound(thickness=4, override_types=override)
    bdict, clist = fdtdx.boundary_objects_from_config(bcfg, volume)
    key = jax.random.PRNGKey(0)
    objs, arrays, params, config, _ = fdtdx.place_objects(object_list=[volume, *bdict.values()], config=config, constraints=list(clist), key=key)
    return objs, arrays, config

def run(wx, label):
    rng = np.random.default_rng(0)
    wy = np.full(3, 50e-9); wz = np.full(3, 50e-9)
    N = len(wx); shape = (N, 3, 3)
    E0 = rng.normal(size=(3, *shape)); H0 = rng.normal(size=(3, *shape))
    out = []
    for m in (1, 2):
        objs, arrays, config = build([np.tile(wx, m), wy, wz])
        E = jnp.asarray(np.tile(E0, (1, m, 1, 1))); H = jnp.asarray(np.tile(H0, (1, m, 1, 1)))
        kw = {}
        try:
            from fdtdx.fdtd.update import get_wrap_padding_axes
            import inspect
            if "periodic_axes" in inspect.signature(interpolate_fields).parameters:
                kw["periodic_axes"] = get_wrap_padding_axes(objs)
        except Exception:
            pass
        Ei, Hi = interpolate_fields(pad_fields_for_boundaries(E, objs, config), pad_fields_for_boundaries(H, objs, config), config=config, **kw)
        out.append((np.asarray(Ei), np.asarray(Hi)))
    (Es, Hs), (Eb, Hb) = out
    d = max(np.max(np.abs(np.tile(Es, (1, 2, 1, 1)) - Eb)), np.max(np.abs(np.tile(Hs, (1, 2, 1, 1)) - Hb)))
    print(f"{label}: co-located fields of the N-cell periodic domain vs its 2N supercell: max deviation {d:.3e}")
    return d
a = run(np.array([50e-9, 60e-9, 70e-9, 60e-9, 50e-9]), "x widths 50,60,70,60,50 nm")
b = run(np.array([40e-9, 50e-9, 60e-9, 70e-9, 80e-9]), "x widths 40,50,60,70,80 nm")
ok = a < 1e-12 and b < 1e-12
print("PASS" if ok else "FAIL"); sys.exit(0 if ok else 1)
