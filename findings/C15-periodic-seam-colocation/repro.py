# end-to-end: the real update_detector_states with an exact FieldDetector over the whole periodic domain
import sys
import jax, jax.numpy as jnp, numpy as np
jax.config.update("jax_enable_x64", True)
import fdtdx
from fdtdx.fdtd.update import update_detector_states
from fdtdx.core.grid import RectilinearGrid

def build(widths_xyz):
    edges = [np.concatenate([[0.0], np.cumsum(w)]) for w in widths_xyz]
    grid = RectilinearGrid.custom(x_edges=jnp.asarray(edges[0]), y_edges=jnp.asarray(edges[1]), z_edges=jnp.asarray(edges[2]))
    shape = tuple(len(w) for w in widths_xyz)
    config = fdtdx.SimulationConfig(grid=grid, time=100e-15, dtype=jnp.float64)
    volume = fdtdx.SimulationVolume(partial_grid_shape=shape)
    override = {f"{m}_{n}": "periodic" for m in ("min", "max") for n in "xyz"}
    bcfg = fdtdx.BoundaryConfig.from_uniform_bound(thickness=4, override_types=override)
    bdict, clist = fdtdx.boundary_objects_from_config(bcfg, volume)
    det = fdtdx.FieldDetector(name="det", reduce_volume=False, exact_interpolation=True, dtype=jnp.float64)
    cons = list(clist) + list(det.same_position_and_size(volume)) if hasattr(det, "same_position_and_size") else list(clist)
    key = jax.random.PRNGKey(0)
    objs, arrays, params, config, _ = fdtdx.place_objects(object_list=[volume, det, *bdict.values()], config=config, constraints=cons, key=key)
    return objs, arrays, config

def run(wx, label):
    rng = np.random.default_rng(0)
    wy = np.full(3, 50e-9); wz = np.full(3, 50e-9)
    N = len(wx); shape = (N, 3, 3)
    E0 = rng.normal(size=(3, *shape)); H0 = rng.normal(size=(3, *shape)); Hp = rng.normal(size=(3, *shape))
    out = []
    for m in (1, 2):
        objs, arrays, config = build([np.tile(wx, m), wy, wz])
        arrays = arrays.aset("fields->E", jnp.asarray(np.tile(E0, (1, m, 1, 1)))).aset("fields->H", jnp.asarray(np.tile(H0, (1, m, 1, 1))))
        arrays = update_detector_states(jnp.asarray(0), arrays, objs, config, jnp.asarray(np.tile(Hp, (1, m, 1, 1))), False)
        out.append(np.asarray(arrays.detector_states["det"]["fields"][0]))
    s, b = out
    d = np.max(np.abs(np.tile(s, (1, 2, 1, 1)) - b))
    print(f"{label}: exact FieldDetector, N-cell periodic domain vs 2N supercell: max deviation {d:.3e}")
    return d
a = run(np.array([50e-9, 60e-9, 70e-9, 60e-9, 50e-9]), "x widths 50,60,70,60,50 nm")
b = run(np.array([40e-9, 50e-9, 60e-9, 70e-9, 80e-9]), "x widths 40,50,60,70,80 nm")
ok = a < 1e-12 and b < 1e-12
print("PASS" if ok else "FAIL"); sys.exit(0 if ok else 1)
