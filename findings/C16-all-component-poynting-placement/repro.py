import sys
import jax, jax.numpy as jnp, numpy as np
import fdtdx
from fdtdx.core.grid import RectilinearGrid

def place(grid, keep_all, phasor=False):
    config = fdtdx.SimulationConfig(grid=grid, time=2e-15, dtype=jnp.float32)
    volume = fdtdx.SimulationVolume(partial_grid_shape=(6, 6, 6))
    bcfg = fdtdx.BoundaryConfig.from_uniform_bound(thickness=1, override_types={f"{m}_{n}": "periodic" for m in ("min", "max") for n in "xyz"})
    bdict, clist = fdtdx.boundary_objects_from_config(bcfg, volume)
    if phasor:
        det = fdtdx.PhasorPoyntingFluxDetector(name="flux", partial_grid_shape=(3, 4, 1), keep_all_components=keep_all, wave_characters=(fdtdx.WaveCharacter(wavelength=1e-6),))
    else:
        det = fdtdx.PoyntingFluxDetector(name="flux", partial_grid_shape=(3, 4, 1), direction="+", keep_all_components=keep_all, reduce_volume=True)
    key = jax.random.PRNGKey(0)
    try:
        fdtdx.place_objects(object_list=[volume, det, *bdict.values()], config=config, constraints=list(clist) + [det.place_at_center(volume)], key=key)
        return "placed"
    except Exception as e:
        return f"raises {type(e).__name__}: {str(e)[:120]}"
e = jnp.asarray(np.arange(7) * 50e-9)
grids = {"UniformGrid": fdtdx.UniformGrid(spacing=50e-9), "RectilinearGrid (equal widths)": RectilinearGrid.custom(x_edges=e, y_edges=e, z_edges=e), "RectilinearGrid (stretched)": RectilinearGrid.custom(x_edges=jnp.asarray(np.cumsum([0, 40, 50, 60, 50, 40, 60]) * 1e-9), y_edges=e, z_edges=e)}
ok = True
for gname, g in grids.items():
    for keep in (False, True):
        for phasor in (False, True):
            r = place(g, keep, phasor)
            print(f"{gname}, {'PhasorPoyntingFluxDetector' if phasor else 'PoyntingFluxDetector'}, keep_all_components={keep}: {r}")
            ok = ok and r == "placed"
print("PASS" if ok else "FAIL"); sys.exit(0 if ok else 1)
