"""C30 reproduction: Recorder([LinearReconstructEveryK(k, start_recording_after=s)]) must return, for every
t >= s, the recorded value at saved steps and the linear interpolation between the two enclosing saved steps
otherwise.  Exhaustive over T <= TMAX, k <= KMAX and all start steps; the value history is random.
Exit 0 / PASS when it holds everywhere, exit 1 / FAIL (first failing cases printed) otherwise."""
import sys

import jax

jax.config.update("jax_enable_x64", True)
import jax.numpy as jnp  # noqa: E402
import numpy as np  # noqa: E402

from fdtdx.interfaces.recorder import Recorder  # noqa: E402
from fdtdx.interfaces.time_filter import LinearReconstructEveryK  # noqa: E402

TMAX, KMAX = (int(sys.argv[1]), int(sys.argv[2])) if len(sys.argv) > 2 else (14, 5)
rng = np.random.default_rng(0)
bad, n = [], 0
key = jax.random.PRNGKey(0)
for T in range(2, TMAX + 1):
    hist = rng.normal(size=(T, 2))
    for k in range(1, KMAX + 1):
        for s in range(0, T - 1):
            rec = Recorder(modules=[LinearReconstructEveryK(k=k, start_recording_after=s)])
            rec, state = rec.init_state({"v": jax.ShapeDtypeStruct((2,), jnp.float64)}, max_time_steps=T, backend="cpu")
            saved = sorted(set(list(range(s, T, k)) + [T - 1]))
            for t in range(T):
                state = rec.compress({"v": jnp.asarray(hist[t])}, state, jnp.asarray(t, dtype=jnp.int32), key)
            for t in range(s, T):
                got, _ = rec.decompress(state, jnp.asarray(t, dtype=jnp.int32), key)
                if t in saved:
                    want = hist[t]
                else:
                    p = max(x for x in saved if x < t)
                    q = min(x for x in saved if x > t)
                    want = hist[p] + (t - p) / (q - p) * (hist[q] - hist[p])
                n += 1
                if not np.allclose(np.asarray(got["v"]), want, rtol=1e-5, atol=1e-6):
                    bad.append((T, k, s, t, float(np.asarray(got["v"])[0]), float(want[0])))
print(f"checked {n} (T, k, start, t) cases")
if bad:
    print(f"FAIL: {len(bad)} cases differ; first: " + "; ".join(f"T={a} k={b} start={c} t={d}: got {e:.4f} want {f:.4f}" for a, b, c, d, e, f in bad[:6]))
    big = [b for b in bad if b[0] > b[1]]
    print(f"of these, {len(big)} have T > k; first: " + "; ".join(f"T={a} k={b} start={c} t={d}: got {e:.4f} want {f:.4f}" for a, b, c, d, e, f in big[:6]))
    print("T > k and start == 0:", len([b for b in big if b[2] == 0]))
    starts = sorted({b[2] for b in bad})
    print("failing start steps:", starts[:10], "... all > 0" if starts and starts[0] > 0 else "")
    sys.exit(1)
print("PASS")
