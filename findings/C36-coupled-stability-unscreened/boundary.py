"""C36 demo (variant a): dispersive cells follow their recurrence / zero-pole cells
behave like non-dispersive cells / accepted passive media stay bounded.

The scenes combine a Lorentz (and Drude) medium with *electric conductivity*,
i.e. they run the dispersive branch of ``update_E`` together with the lossy
(Schneider 3.12) update.

Checks, all against the real fdtdx kernels (place_objects + forward):
  1. A lossy, non-dispersive scene is stepped twice: once as placed (no ADE
     arrays) and once with all-zero pole coefficient arrays attached.  Both must
     evolve identically.
  2. In a placed Lorentz+Drude scene with conductivity, the stored polarization
     must satisfy  P^{n+1} = c1 P^n + c2 P^{n-1} + c3 E^n  every step.
  3. Closed (fully periodic) domain, random initial fields, passive media that
     placement accepts without error or warning: the field energy must stay
     within a factor 10 of the initial value for 10^4 steps.

Exit code 0 + "PASS" if everything holds, exit code 1 + "FAIL" otherwise.
"""

import sys
import warnings

import jax

jax.config.update("jax_enable_x64", True)

import jax.numpy as jnp  # noqa: E402
import numpy as np  # noqa: E402

import fdtdx  # noqa: E402
from fdtdx.fdtd.container import ArrayContainer, FieldState  # noqa: E402
from fdtdx.fdtd.forward import forward  # noqa: E402
from fdtdx.fdtd.initialization import place_objects  # noqa: E402

SHAPE = (8, 8, 8)
SPACING = 50e-9
N_STEPS = 10_000
CHUNK = 50
BOUND = 10.0


def build(make_objects, courant):
    """Fully periodic (closed) box; returns placed containers and placement warnings."""
    config = fdtdx.SimulationConfig(
        grid=fdtdx.UniformGrid(spacing=SPACING),
        time=1e-13,
        dtype=jnp.float64,
        courant_factor=courant,
        backend="cpu",
    )
    volume = fdtdx.SimulationVolume(partial_grid_shape=SHAPE)
    objects, constraints = [volume], []
    bc = fdtdx.BoundaryConfig.from_uniform_bound(
        thickness=1,
        override_types={k: "periodic" for k in ("min_x", "max_x", "min_y", "max_y", "min_z", "max_z")},
    )
    bdict, clist = fdtdx.boundary_objects_from_config(bc, volume)
    objects.extend(bdict.values())
    constraints.extend(clist)
    objs, cons = make_objects(volume, config)
    objects.extend(objs)
    constraints.extend(cons)
    with warnings.catch_warnings(record=True) as caught:
        warnings.simplefilter("always")
        oc, arrays, _, config, _ = place_objects(objects, config, constraints, jax.random.PRNGKey(0))
    return oc, arrays, config, [str(w.message) for w in caught]


def random_fields(arrays, seed):
    rng = np.random.default_rng(seed)
    dtype = arrays.fields.E.dtype
    E0 = jnp.asarray(rng.standard_normal(arrays.fields.E.shape), dtype=dtype)
    H0 = jnp.asarray(rng.standard_normal(arrays.fields.H.shape), dtype=dtype)
    return arrays.aset("fields->E", E0).aset("fields->H", H0)


def field_energy(arrays):
    inv_eps = arrays.inv_permittivities
    return float(jnp.sum(arrays.fields.E**2 / inv_eps) + jnp.sum(arrays.fields.H**2 / arrays.inv_permeabilities))


def make_stepper(oc, config, n):
    key = jax.random.PRNGKey(1)

    def body(i, a):
        _, a = forward((i, a), config, oc, key, False, False, True)
        return a

    @jax.jit
    def go(a, start):
        return jax.lax.fori_loop(start, start + n, body, a)

    return go


def slab_scene(material, slab_shape=(4, 8, 8), extra=None):
    def make(volume, config):
        objs, cons = [], []
        mat = material(config.time_step_duration)
        slab = fdtdx.UniformMaterialObject(name="slab", partial_grid_shape=slab_shape, material=mat)
        objs.append(slab)
        cons.append(slab.place_at_center(volume))
        if extra is not None:
            block = fdtdx.UniformMaterialObject(
                name="block", partial_grid_shape=(2, 3, 4), material=extra(config.time_step_duration)
            )
            objs.append(block)
            cons.append(
                fdtdx.GridCoordinateConstraint(object="block", axes=[0, 1, 2], sides=["-", "-", "-"], coordinates=[0, 1, 2])
            )
        return objs, cons

    return make



failures = []
def drude(wp, g, eps=1.0):
    return lambda dt: fdtdx.Material(permittivity=eps, dispersion=fdtdx.DispersionModel(poles=(fdtdx.DrudePole(plasma_frequency=wp / dt, damping=g / dt),)))
def lorentz(w0, g, de, eps=1.0):
    return lambda dt: fdtdx.Material(permittivity=eps, dispersion=fdtdx.DispersionModel(poles=(fdtdx.LorentzPole(resonance_frequency=w0 / dt, damping=g / dt, delta_epsilon=de),)))
cases = []
full=(8,8,8)
for S, wp in ((0.9, 0.85), (0.9, 0.9), (0.99, 0.27), (0.99, 0.30)):
    cases.append((f"Drude full box wp*dt={wp} S={S} (bound {2*(1-S*S)**0.5:.3f})", slab_scene(drude(wp, 0.01), slab_shape=full), S, 1))
for S, w0, de in ((0.9, 1.0, 0.55), (0.9, 1.0, 0.60), (0.5, 1.9, 0.075), (0.5, 1.9, 0.09)):
    cases.append((f"Lorentz full box w0*dt={w0} de={de} S={S} (bound de<={(4-w0*w0)*(1-S*S)/(w0*w0):.4f})", slab_scene(lorentz(w0, 0.01, de), slab_shape=full), S, 2))
# eps_inf = 2
for S, wp in ((0.99, 2.0), (0.99, 2.05)):
    cases.append((f"Drude eps_inf=2 full box wp*dt={wp} S={S} (bound {2*(2-S*S)**0.5:.3f})", slab_scene(drude(wp, 0.01, eps=2.0), slab_shape=full), S, 1))
for label, scene, courant, seed in cases:
    try:
        oc, arrays, config, warns = build(scene, courant=courant)
    except Exception as exc:
        print(f"{label}: rejected at placement ({type(exc).__name__}: {str(exc)[:80]})"); continue
    if warns:
        print(f"{label}: placement warned: {warns[0][:100]}"); continue
    arrays = random_fields(arrays, seed=seed)
    e0 = field_energy(arrays)
    go = make_stepper(oc, config, CHUNK)
    worst_ratio, first_bad = 0.0, None
    for start in range(0, N_STEPS, CHUNK):
        arrays = go(arrays, jnp.asarray(start))
        ratio = field_energy(arrays) / e0
        if not np.isfinite(ratio): ratio = float("inf")
        worst_ratio = max(worst_ratio, ratio)
        if ratio > BOUND:
            first_bad = start + CHUNK; break
    print(f"{label}: ACCEPTED silently; max energy ratio = {worst_ratio:.3e} " + ("ok" if first_bad is None else f"EXCEEDED at step {first_bad}"))
