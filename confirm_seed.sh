#!/bin/sh
# usage: confirm_seed.sh <ID> <variant> [tag] [stored-variant]  — confirm a sub-agent seed in a scratch worktree,
# store under /verif/seeded/<ID>-<stored-variant>/  (tag selects /tmp/seed<tag>-<ID>)
ID=$1; V=$2; TAG=$3; SV=${4:-$2}
SRC=/tmp/seed$TAG-$ID/$V
DST=/verif/seeded/$ID-$SV
WT=/tmp/cwt-$ID-$V
[ -f $SRC/patch.diff ] || { echo "no seed $SRC"; exit 2; }
git -C /repo worktree add -q --detach $WT HEAD || exit 2
cd $WT
run() { PYTHONPATH=$WT/src JAX_PLATFORMS=cpu timeout 900 /venv/bin/python $SRC/demo.py > /tmp/cs-$ID-$V.$1.log 2>&1; echo $?; }
U=$(run unpatched)
if ! git apply $SRC/patch.diff 2>/tmp/cs-$ID-$V.apply.log; then A=noapply; P=-1; I=-1; else
A=ok
I=$(PYTHONPATH=$WT/src JAX_PLATFORMS=cpu timeout 300 /venv/bin/python -c "import fdtdx" >/dev/null 2>&1; echo $?)
P=$(run patched)
fi
cd /; git -C /repo worktree remove --force $WT
echo "$ID-$V unpatched_exit=$U apply=$A import_exit=$I patched_exit=$P"
if [ "$U" = "0" ] && [ "$A" = "ok" ] && [ "$I" = "0" ] && [ "$P" = "1" ]; then
  mkdir -p $DST && cp $SRC/patch.diff $SRC/demo.py $DST/
  /venv/bin/python - $SRC/meta.json $DST/meta.json $ID $SV <<'PY'
import json,sys,subprocess
src,dst,pid,v=sys.argv[1:5]
try: m=json.load(open(src))
except Exception: m={}
m['property']=pid
m['confirmed_by_main']={'repo_head':subprocess.check_output(['git','-C','/repo','rev-parse','--short','HEAD']).decode().strip(),'ran':'scratch worktree of /repo HEAD: demo.py unpatched -> exit 0 (PASS); git apply patch.diff; python -c "import fdtdx" ok; demo.py patched -> exit 1 (FAIL); worktree removed. The pinned suite imports the stale site-packages copy of fdtdx, so it passes unchanged with any source patch; the sub-agent additionally ran the related test files against its patched source (see tests_run).'}
json.dump(m,open(dst,'w'),indent=1)
PY
  echo "KEPT $DST"
else echo "REJECTED $ID-$V"; fi
