#!/usr/bin/env python3
"""print the prompt for a seeding sub-agent: only the property text and its scratch worktree (nothing from /verif)."""
import json, sys
pid = sys.argv[1]
for l in open('/verif/properties.jsonl'):
    p = json.loads(l)
    if p['id'] == pid:
        break
else:
    sys.exit("no such property")
tag = sys.argv[2] if len(sys.argv) > 2 else ""
wt = f"/tmp/wt{tag}-{pid}"
out = f"/tmp/seed{tag}-{pid}"
known = ""
if tag:
    import glob, os
    prev = []
    for d in sorted(glob.glob(f"/verif/seeded/{pid}-*")):
        try:
            prev.append(json.load(open(os.path.join(d, "meta.json"))).get("summary", "")[:400])
        except Exception:
            pass
    if prev:
        known = "\n\nALREADY KNOWN CHANGES (found by earlier helpers — do NOT reuse these code sites or mechanisms; find different ones):\n" + "\n".join(f" - {x}" for x in prev)
print(f"""You are helping to evaluate a verification effort for the open-source Python project ymahlau/fdtdx (a JAX-based differentiable 3D FDTD electromagnetic solver). Your job: produce TWO independent, realistic, subtle code changes ("variant a" and "variant b") to the fdtdx source that each BREAK the semantic property below, while the package still imports and the existing test-suite still passes. This is authorised mutation testing in a sealed sandbox; nothing leaves this machine.

THE PROPERTY ({pid}): {p['title']}
Statement: {p['statement']}
Quantifier: {p['quantifier']['text']}
Where it lives (files): {', '.join(p['anchors'].get('files', []))}
Mechanism: {'; '.join((m.get('name','')+' @ '+m.get('where','')) if isinstance(m,dict) else str(m) for m in p['anchors'].get('mechanism',[]))}{known}

YOUR WORKSPACE: a scratch git worktree of the repository at {wt} (already created, detached HEAD). Work ONLY there and under {out}/ . Never touch /repo or /verif and do not read anything under /verif. Source is in {wt}/src/fdtdx, tests in {wt}/tests.

HOW TO RUN THINGS (no network; do not install anything):
  cd {wt} && PYTHONPATH={wt}/src JAX_PLATFORMS=cpu /venv/bin/python your_script.py
  cd {wt} && PYTHONPATH={wt}/src JAX_PLATFORMS=cpu /venv/bin/python -m pytest -q -p no:cacheprovider -x tests/unit/<relevant files>
NEVER use `git stash` (the stash is shared between all worktrees of this repository and other people use it concurrently): to go back to a clean tree save your diff with `git diff > file` and run `git checkout -- .`; re-apply with `git apply file`.
NOTE: without PYTHONPATH the interpreter imports a stale installed copy of fdtdx from site-packages, so ALWAYS set PYTHONPATH={wt}/src (check with: python -c "import fdtdx; print(fdtdx.__file__)"). Some test modules that touch the time loop fail to collect in this environment regardless of your change; that is expected — compare against the unpatched tree.

WHAT EACH VARIANT MUST BE:
 1. A small, plausible edit a developer could make by mistake or as a 'simplification/refactor/optimisation' (typically 1-10 changed lines in src/fdtdx): a wrong sign / index / axis / operand / comparator / missing factor / missing guard / swapped argument in ONE of several near-identical branches, or two cooperating sites that each look fine alone. Do NOT just delete functionality wholesale, do NOT raise exceptions, do NOT add special-casing of magic input values, do NOT touch tests.
 2. It must need something SPECIFIC to manifest — an unusual but legitimate input (particular axis, direction, shape, option combination, ordering, boundary combination, multi-step sequence) — not something that ordinary use or the existing tests expose at once. The two variants should break the property through DIFFERENT code sites / mechanisms.
 3. The package must still import, and the existing tests relevant to the touched files must give the same pass/fail results as on the unpatched tree (run them before and after and record what you ran).
 4. A demonstration program demo.py (standalone, uses only fdtdx + numpy/jax as installed; runtime < 3 minutes on CPU) that exercises the REAL fdtdx code and checks the property: it must exit 0 and print PASS on the unpatched tree, and exit 1 and print FAIL (with the numbers that show the violation) on the patched tree. It must not depend on the current directory; it imports fdtdx through PYTHONPATH.

DELIVERABLES — for each variant v in (a, b) create the directory {out}/v/ containing:
   patch.diff   — produced with `git -C {wt} diff` (must apply with `git apply` to a clean checkout of the same commit; only files under src/fdtdx)
   demo.py      — the demonstration
   meta.json    — {{"summary": "<file, function, what was changed and why it breaks the property>", "needs_to_manifest": "<the specific input/sequence needed>", "tests_run": ["<test file: N passed unmodified, N passed with change>"], "demo_unpatched": "PASS", "demo_patched": "FAIL"}}
 After finishing variant a, run `git -C {wt} checkout -- .` to return to a clean tree before starting variant b; leave the worktree clean at the end (git -C {wt} status --short must be empty; delete any scratch files you created inside it). Verify for each variant: clean tree -> demo exits 0; `git apply patch.diff` -> demo exits 1; `git checkout -- .`.

Report back briefly: for each variant the one-line summary, what it needs to manifest, and confirmation of the demo exit codes. If you truly cannot find a second variant, deliver one.""")
