"""Axis relabelling x->y->z->x acting on extracted normal forms (used by the equivariance rules).

sigma acts on every *positional* ingredient of an atom: vector-component suffixes (E0 -> E1, tensor
entry 3i+j -> 3s(i)+s(j)), stencil shifts, dependency sets, metric-scale axes, region descriptors
(per-axis tuples are re-ordered), and names that carry an axis letter (`pml_xmin` -> `pml_ymin`,
`Nx` -> `Ny`, `k0` -> `k1`).  An atom whose head is not one of the known kinds raises AnalysisError:
the relabelling is never guessed."""

from __future__ import annotations

import re

from .index import AnalysisError
from .ndarr import Dim, NdArr
from .poly import Rat
from .values import SymBool

S = {0: 1, 1: 2, 2: 0}
_LET = {"x": "y", "y": "z", "z": "x"}
_AXNAME = re.compile(r"_(x|y|z)(min|max)")
_SIZE = re.compile(r"\bN(x|y|z)\b")
_KVEC = re.compile(r"\bk([012])\b")


class Sigma:
    def __init__(self, vectors: dict[str, int]):
        """vectors: name prefix -> number of components (1: scalar, 3: vector, 9: row-major tensor)."""
        self.vectors = dict(vectors)
        self._vec_re = re.compile(r"^(" + "|".join(sorted(map(re.escape, self.vectors), key=len, reverse=True)) + r")(\d)$") if vectors else None

    # ------------------------------------------------------------------ names
    def comp(self, prefix, k):
        n = self.vectors[prefix]
        if n == 1:
            return k
        if n == 3:
            return S[k]
        if n == 9:
            return 3 * S[k // 3] + S[k % 3]
        raise AnalysisError(f"sigma: {prefix} with {n} components")

    def name(self, s: str) -> str:
        if self._vec_re is not None:
            m = self._vec_re.match(s)
            if m:
                return f"{m.group(1)}{self.comp(m.group(1), int(m.group(2)))}"
        s = _AXNAME.sub(lambda m: f"_{_LET[m.group(1)]}{m.group(2)}", s)
        s = _SIZE.sub(lambda m: f"N{_LET[m.group(1)]}", s)
        s = _KVEC.sub(lambda m: f"k{S[int(m.group(1))]}", s)
        return s

    # ------------------------------------------------------------------ values
    def rat(self, r):
        if isinstance(r, SymBool):
            return SymBool(self.key(r.key), r.negated)
        if not isinstance(r, Rat):
            return r
        mp = {}
        for a in r.atoms():
            na = self.atom(a)
            if na != a:
                mp[a] = Rat.atom(na)
        return r.subs(mp) if mp else r

    def perm3(self, t):
        """a per-axis 3-tuple: entry of axis a moves to position sigma(a)"""
        out = [None, None, None]
        for a in range(3):
            out[S[a]] = t[a]
        return tuple(out)

    def atom(self, a):
        if isinstance(a, str):
            return self.name(a)
        if isinstance(a, tuple) and a:
            h = a[0]
            if h == "at":
                _, nm, sh, deps = a
                nm2 = self.name(nm) if isinstance(nm, str) else self.key(nm)
                return ("at", nm2, self.perm3(sh), tuple(sorted(S[d] for d in deps)))
            if h == "scale":
                return ("scale", S[a[1]]) + tuple(a[2:])
            if h == "J":
                return ("J", a[1], a[2], S[a[3]], self.rat(a[4]))
            if h == "ind":
                return ("ind",) + tuple(self.key(x) for x in a[1:])
            if h == "call":
                return ("call", a[1]) + tuple(self.rat(x) if isinstance(x, (Rat, SymBool)) else self.key(x) for x in a[2:])
            if h in ("idx", "adj", "amp", "on"):
                return (h,) + tuple(self.rat(x) if isinstance(x, (Rat, SymBool)) else self.key(x) for x in a[1:])
        raise AnalysisError(f"sigma: no relabelling rule for atom {a!r}")

    def key(self, k):
        """structures inside indicator / region keys"""
        if isinstance(k, str):
            return self.name(k)
        if isinstance(k, (Rat, SymBool)):
            return self.rat(k)
        if k is None or isinstance(k, (bool, int)) or hasattr(k, "numerator"):
            return k
        if isinstance(k, tuple) and k:
            h = k[0]
            if h == "region" and len(k) == 2 and isinstance(k[1], tuple) and len(k[1]) == 3:
                return ("region", self.perm3(tuple(self.key(x) for x in k[1])))
            if h == "pad" and len(k) == 3:
                return ("pad", self.key(k[1]), tuple(sorted((S[e[0]],) + tuple(e[1:]) for e in k[2])))
            if h in ("slice", "fixed", "tail", "flip", "and", "or", "not", "lt0", "eq0", "beq", "edge-shift", "on", "adj"):
                return (h,) + tuple(self.key(x) for x in k[1:])
            if h in ("at", "scale", "J", "ind", "call"):
                return self.atom(k)
            if all(isinstance(x, tuple) for x in k):  # polynomial keys etc.: structural
                return tuple(self.key(x) for x in k)
        raise AnalysisError(f"sigma: no relabelling rule for key {k!r}")

    def arr(self, a: NdArr) -> NdArr:
        """relabel an array over the spatial block: data only (the caller permutes components)"""
        return a.map(lambda v: self.rat(v) if isinstance(v, (Rat, SymBool)) else v)
