"""Symbolic harness for the run drivers of fdtdx.fdtd (shared by C03, C04, C05, C06).

The repo's own driver functions (run_fdtd, checkpointed_fdtd, reversible_fdtd with its custom-VJP closures,
custom_fdtd_forward, full_backward) are interpreted with a *symbolic* number of time steps.  The single-step
functions `forward` / `backward` are replaced by stubs that turn the dynamic state into opaque history tokens,
and `eqxi.while_loop` is replaced by a counting-loop summary:

    the body is interpreted once at a symbolic step tau (it must move the step counter by exactly +1 or -1), the
    condition once (it must be one comparison between tau and a loop-invariant bound); the loop then runs from
    t0 to the bound unless `max_steps` (when given) cannot be shown to cover the distance.

A run of identical steps from a to b on top of history h is the token ("run", flags, a, b, h); adjacent runs with
the same flags fuse, so "0 -> s1 -> s2 -> T in three loops" and "0 -> T in one loop" denote the same token exactly
when every segment really ends where the next one starts.  All decisions are polynomial identities / linear
inequalities over the symbolic step counts, under the stated ordering assumptions."""

from __future__ import annotations

import itertools
from fractions import Fraction

from . import absint
from .harness import stub_repo_calls
from .index import AnalysisError
from .poly import Rat
from .values import AbsVal, Builtin, Obj, Partial, Raised, SymBool, to_rat

DYN_FIELDS = ("E", "H", "psi_E", "psi_H", "dispersive_P_curr", "dispersive_P_prev")


def atom(*key):
    return Rat.atom(tuple(key))


def integer_atom(name):
    absint.INTEGER_ATOMS.add(name)
    return Rat.atom(name)


# ------------------------------------------------------------------ linear inequalities
class Facts:
    """Assumptions g_j >= 0 (linear forms over integer atoms); proves `e >= 0` when e = sum lambda_j g_j + c with
    small non-negative integer lambda_j and constant c >= 0."""

    def __init__(self, nonneg=()):
        self.g = [to_rat(x) for x in nonneg]
        self._memo = {}

    def add(self, e):
        self.g.append(to_rat(e))
        self._memo = {}

    def nonneg(self, e) -> bool:
        e = to_rat(e)
        if e.is_const():
            return e.const_value() >= 0
        n = len(self.g)
        key = e.key()
        hit = self._memo.get(key)
        if hit is not None:
            return hit
        ok = False
        # (i) every subset with unit multipliers, (ii) small combinations with multipliers up to 2
        spaces = [itertools.product((0, 1), repeat=n)] if n <= 14 else []
        spaces.append(lam for lam in itertools.product((0, 1, 2), repeat=min(n, 8)) if 2 in lam and sum(lam) <= 4)
        for space in spaces:
            for lam in space:
                if not any(lam):
                    continue
                r = e
                for l_, g in zip(lam, self.g):
                    if l_:
                        r = r - g * l_
                if r.is_const() and r.const_value() >= 0:
                    ok = True
                    break
            if ok:
                break
        self._memo[key] = ok
        return ok

    def positive(self, e) -> bool:
        return self.nonneg(to_rat(e) - 1)  # integer-valued forms

    def equal(self, a, b) -> bool:
        return to_rat(a).equals(to_rat(b))


# ------------------------------------------------------------------ state tokens
def _leaves(v, path=()):
    """(path, value) for every leaf of a nested dict / tuple / list / record."""
    if isinstance(v, dict):
        for k in sorted(v, key=str):
            yield from _leaves(v[k], path + (str(k),))
    elif isinstance(v, (tuple, list)):
        for i, x in enumerate(v):
            yield from _leaves(x, path + (i,))
    elif isinstance(v, Obj):
        for k in sorted(v.attrs):
            yield from _leaves(v.attrs[k], path + (k,))
    elif v is None:
        return
    else:
        yield path, v


def _map_leaves(v, fn, path=()):
    if isinstance(v, dict):
        return {k: _map_leaves(x, fn, path + (str(k),)) for k, x in v.items()}
    if isinstance(v, tuple):
        return tuple(_map_leaves(x, fn, path + (i,)) for i, x in enumerate(v))
    if isinstance(v, list):
        return [_map_leaves(x, fn, path + (i,)) for i, x in enumerate(v)]
    if isinstance(v, Obj):
        return v.replace(**{k: _map_leaves(x, fn, path + (k,)) for k, x in v.attrs.items()})
    if v is None:
        return None
    return fn(path, v)


def leaf_key(v):
    r = to_rat(v)
    if r.is_const():
        return ("const", str(r.const_value()))
    ats = r.atoms()
    if len(ats) == 1 and r.equals(Rat.atom(next(iter(ats)))):
        return next(iter(ats))
    return ("expr", r.fmt())


def _uniform(keys, head):
    hs = set()
    for p, k in keys:
        if isinstance(k, tuple) and len(k) == 3 and k[0] == head and k[1] == p:
            hs.add(k[2])
        else:
            hs.add(None)
    if len(hs) == 1 and None not in hs:
        return next(iter(hs))
    return None


def dyn_signature(arrays: Obj):
    """Canonical description of the dynamic state (fields + detector states): the common history h when every
    leaf is the token of one history, ("zero", paths) when every leaf is 0, else the explicit leaf table."""
    leaves = list(_leaves(arrays.attrs["fields"], ("fields",))) + list(_leaves(arrays.attrs["detector_states"], ("det",)))
    keys = [(p, leaf_key(v)) for p, v in leaves]
    h = _uniform(keys, "S")
    if h is not None:
        return h
    if all(k == ("const", "0") for _, k in keys):
        return ("zero", tuple(p for p, _ in keys))
    return ("M", tuple(keys))


STATIC_NAMES = ("inv_permittivities", "inv_permeabilities", "electric_conductivity", "magnetic_conductivity", "dispersive_c1", "dispersive_c2", "dispersive_c3", "dispersive_c4")


def static_signature(arrays: Obj):
    """The material arrays a step sees (a step with a conductivity missing is a different step)."""
    out = []
    for n in STATIC_NAMES:
        v = arrays.attrs.get(n)
        out.append((n, None if v is None else leaf_key(v)))
    return tuple(out)


def field_signature(arrays: Obj):
    """History of the fields alone (detector states may lag behind when a step does not record them)."""
    keys = [(p, leaf_key(v)) for p, v in _leaves(arrays.attrs["fields"], ("fields",))]
    h = _uniform(keys, "S")
    if h is not None:
        return h
    if all(k == ("const", "0") for _, k in keys):
        return ("zero-fields",)
    return ("M", tuple(keys))


def rec_signature(arrays: Obj):
    rs = arrays.attrs.get("recording_state")
    if rs is None:
        return None
    keys = [(p, leaf_key(v)) for p, v in _leaves(rs, ("rec",))]
    h = _uniform(keys, "R")
    return h if h is not None else ("M", tuple(keys))


def with_history(arrays: Obj, h, rec_h=None, fields_only=False):
    """The same container with every dynamic leaf replaced by the token of history h (a step that does not record
    detectors leaves the detector states as they are: fields_only)."""
    new_fields = _map_leaves(arrays.attrs["fields"], lambda p, v: atom("S", p, h), ("fields",))
    if fields_only:
        out = arrays.replace(fields=new_fields)
    else:
        new_det = _map_leaves(arrays.attrs["detector_states"], lambda p, v: atom("S", p, h), ("det",))
        out = arrays.replace(fields=new_fields, detector_states=new_det)
    if rec_h is not None and arrays.attrs.get("recording_state") is not None:
        out = out.replace(recording_state=_map_leaves(arrays.attrs["recording_state"], lambda p, v: atom("R", p, rec_h), ("rec",)))
    return out


def fuse(kind, flags, a, b, h):
    """("run", kind, flags, a, b, h): |b - a| identical steps on top of history h; adjacent identical runs are
    merged and empty runs dropped."""
    a, b = to_rat(a), to_rat(b)
    if a.equals(b):
        return h
    if isinstance(h, tuple) and len(h) == 6 and h[0] == "run" and h[1] == kind and h[2] == flags and h[4] == a.fmt():
        return ("run", kind, flags, h[3], b.fmt(), h[5])
    return ("run", kind, flags, a.fmt(), b.fmt(), h)


def fuse_rec(flags, a, b, prev_rec, dyn_before):
    """Recording buffers after the interfaces of steps a..b-1 were written on top of prev_rec."""
    a, b = to_rat(a), to_rat(b)
    if a.equals(b):
        return prev_rec
    if isinstance(prev_rec, tuple) and len(prev_rec) == 6 and prev_rec[0] == "rec" and prev_rec[1] == flags and prev_rec[3] == a.fmt():
        _, _, a0, _, prev0, dyn0 = prev_rec
        if dyn_before == fuse("fwd", flags, Rat.atom(a0) if not _is_num(a0) else Rat.const(Fraction(a0)), a, dyn0):
            return ("rec", flags, a0, b.fmt(), prev0, dyn0)
    return ("rec", flags, a.fmt(), b.fmt(), prev_rec, dyn_before)


def _is_num(s):
    try:
        Fraction(s)
        return True
    except (ValueError, ZeroDivisionError):
        return False


class LoopRecord:
    def __init__(self, **kw):
        self.__dict__.update(kw)

    def __repr__(self):
        return f"<loop {self.__dict__}>"


class LoopNotCounting(AnalysisError):
    """the continue-test of a run loop is not one comparison of the step counter with a loop-invariant step count"""


class Driver:
    """One interpreter with the stubs installed.  `facts` are the ordering assumptions among the symbolic steps."""

    def __init__(self, ctx, facts: Facts, python_int_times=True, num_pml=1, num_detectors=1, dispersive=False, recording=True):
        self.ctx = ctx
        self.ix = ctx.index
        self.it = ctx.fresh_interp()
        self.it.rat_is_array = not python_int_times
        self.facts = facts
        self.loops: list[LoopRecord] = []
        self.events: list[tuple] = []
        self.vjp_calls: list[dict] = []
        self.custom_vjps: list[dict] = []
        self.slice_calls: list = []
        self.last_reverse_body = None
        self.num_pml, self.num_det, self.dispersive, self.recording = num_pml, num_detectors, dispersive, recording
        self._fresh = itertools.count()
        self._install()

    # ---------------------------------------------------------------- scene
    def arrays(self, tag="init"):
        ix = self.ix
        AC, FS = ix.cls("fdtdx.fdtd.container.ArrayContainer"), ix.cls("fdtdx.fdtd.container.FieldState")
        psi = lambda nm: {f"pml{i}": (atom("S0", nm, i, 0, tag), atom("S0", nm, i, 1, tag)) for i in range(self.num_pml)}
        fvals = {}
        for name in FS.all_fields():  # every declared member of FieldState is dynamic state
            if name in ("psi_E", "psi_H"):
                fvals[name] = psi(name)
            elif name.startswith("dispersive_") and not self.dispersive:
                fvals[name] = None
            else:
                fvals[name] = atom("S0", name, tag)
        self.field_names = tuple(fvals)
        fields = Obj(FS, fvals, "fields")
        det = {f"det{i}": {"fields": atom("S0", "det", i, tag)} for i in range(self.num_det)}
        rec = None
        if self.recording:
            RS = ix.cls("fdtdx.interfaces.state.RecordingState")
            rec = Obj(RS, dict(data={f"pml{i}_{f}": atom("R0", i, f, tag) for i in range(self.num_pml) for f in "EH"}, state={}), "recording_state")
        disp = {f"dispersive_c{j}": (atom("c", j) if self.dispersive else None) for j in (1, 2, 3, 4)}
        out = Obj(AC, dict(fields=fields, inv_permittivities=atom("inv_eps"), inv_permeabilities=atom("inv_mu"), detector_states=det,
                            recording_state=rec, electric_conductivity=atom("sigma_E"), magnetic_conductivity=atom("sigma_H"),
                            initial_inv_permittivities=None, **disp), "arrays")
        return with_history(out, ("init", tag), ("init", tag))

    def config(self, T, gradient=None):
        """gradient: None | dict(method=..., num_checkpoints=..., num_checkpoints_reversible=...); the repo's own
        SimulationConfig properties (only_forward, invertible_optimization) are interpreted, not assumed."""
        ix = self.ix
        gc = None
        if gradient is not None:
            gc = Obj(ix.cls("fdtdx.config.GradientConfig"), dict(method=gradient.get("method"), num_checkpoints=gradient.get("num_checkpoints", atom("n_ckpt")),
                     num_checkpoints_reversible=gradient.get("num_checkpoints_reversible", 0), recorder=gradient.get("recorder", Obj(None, {}, "recorder"))), "gradient_config")
        # time / time_step_duration are given as unrelated symbols: a loop bound or stopping rule that counts in
        # physical time instead of time_steps_total shows up as a bound the step count cannot be compared with
        return Obj(ix.cls("fdtdx.config.SimulationConfig"), dict(time_steps_total=T, gradient_config=gc, backend="cpu", time=atom("cfg_time"), time_step_duration=atom("cfg_dt")), "config")

    # ---------------------------------------------------------------- stubs
    def _install(self):
        it = self.it
        stub_repo_calls(it, {
            "fdtdx.fdtd.forward.forward": self._forward,
            "fdtdx.fdtd.backward.backward": self._backward,
            "fdtdx.core.progress._make_pbar": lambda it_, a, k: None,
            "fdtdx.fdtd.fdtd._reversible_slice_boundaries": self._slice_boundaries,
            "fdtdx.core.jax.default_key.default_key": lambda it_, a, k: a[0] if a and a[0] is not None else atom("default_key"),
        })
        ov = it.ext_overrides
        for nm in ("eqxi.while_loop", "equinox.internal.while_loop"):
            ov[absint.canon_ext(nm)] = self._while_loop
        ov["jax.custom_vjp"] = self._custom_vjp
        ov["jax.vjp"] = self._vjp
        ov["jax.tree.map"] = self._tree_map
        ov["jax.tree_util.tree_map"] = self._tree_map
        ov["np.asarray"] = lambda it_, a, k: a[0]
        ov["np.zeros_like"] = lambda it_, a, k: Rat.const(0)
        ov["lax.stop_gradient"] = lambda it_, a, k: a[0]

    def _slice_boundaries(self, it, a, k):
        """Assume-guarantee: the driver is analysed against *any* strictly increasing partition 0 = s_0 < ... < s_k = T
        (the function itself is decided separately against that contract)."""
        kw = dict(zip(("time_steps_total", "num_slices"), a))
        kw.update(k)
        T, n = to_rat(kw["time_steps_total"]), kw["num_slices"]
        if isinstance(n, Rat) and n.is_const():
            n = int(n.const_value())
        if not isinstance(n, int):
            raise AnalysisError("slice-boundary contract: the number of slices must be concrete in a driver scene")
        self.slice_calls.append((T, n))
        bounds = [Rat.const(0)] + [integer_atom(f"s{i}") for i in range(1, n)] + [T]
        for x, y in zip(bounds, bounds[1:]):
            self.facts.add(y - x - 1)
        return bounds

    def _tree_map(self, it, a, k):
        fn, tree = a[0], a[1]
        return _map_leaves(tree, lambda p, v: it.call(fn, [v], {}))

    @staticmethod
    def _flags(kwargs, names):
        out = []
        for n in names:
            v = kwargs.get(n)
            if isinstance(v, (bool, int, str)) or v is None:
                out.append((n, v))
            elif isinstance(v, SymBool):
                out.append((n, ("sym", repr(v.key))))
            elif isinstance(v, Rat):
                out.append((n, v.fmt()))
            else:
                out.append((n, type(v).__name__))
        return tuple(out)

    def _forward(self, it, a, k):
        names = ("state", "config", "objects", "key", "record_detectors", "record_boundaries", "simulate_boundaries")
        kw = dict(zip(names, a))
        kw.update(k)
        t, arrays = kw["state"]
        # record_boundaries only feeds the recording state (decided on `forward` itself by the checks), so the
        # history of fields / detectors carries the other two flags and the recording history the third
        flags = self._flags(kw, ("record_detectors", "simulate_boundaries")) + (("materials", static_signature(arrays)),)
        rflag = self._flags(kw, ("record_boundaries",))
        t = to_rat(t)
        self.events.append(("forward", t, flags + rflag, dyn_signature(arrays), rec_signature(arrays)))
        h = fuse("fwd", flags, t, t + 1, dyn_signature(arrays))
        rec_h = None
        if kw.get("record_boundaries") is not False and kw.get("record_boundaries") is not None:
            rec_h = fuse_rec(flags + rflag, t, t + 1, rec_signature(arrays), dyn_signature(arrays))
        return (t + 1, with_history(arrays, h, rec_h, fields_only=kw.get("record_detectors") is False))

    def _backward(self, it, a, k):
        names = ("state", "config", "objects", "key", "record_detectors", "reset_fields", "fields_to_reset")
        kw = dict(zip(names, a))
        kw.update(k)
        t, arrays = kw["state"]
        flags = self._flags(kw, ("record_detectors", "reset_fields")) + (("materials", static_signature(arrays)),)
        t = to_rat(t)
        self.events.append(("backward", t, flags, dyn_signature(arrays), rec_signature(arrays)))
        h = fuse("bwd", flags, t, t - 1, dyn_signature(arrays))
        return (t - 1, with_history(arrays, h, fields_only=kw.get("record_detectors") is False))

    def _custom_vjp(self, it, a, k):
        rec = {"primal": a[0], "fwd": None, "bwd": None}
        self.custom_vjps.append(rec)

        def defvjp(it_, aa, kk):
            rec["fwd"], rec["bwd"] = aa[0], aa[1]
            return None

        return Obj(None, {"__call__": Builtin("custom_vjp_primal", lambda it_, aa, kk: it_.call(a[0], aa, kk)), "defvjp": Builtin("defvjp", defvjp)}, "custom_vjp")

    def _vjp(self, it, a, k):
        fn, primals = a[0], list(a[1:])
        out = it.call(fn, primals, {})
        rec = {"fn": fn, "primals": primals, "out": out, "cot_in": None}
        self.vjp_calls.append(rec)
        n = len(self.vjp_calls)

        def pullback(it_, aa, kk):
            rec["cot_in"] = aa[0]
            return tuple(atom("cot", n, i) for i in range(len(primals)))

        return out, Builtin("vjp_pullback", pullback)

    # ---------------------------------------------------------------- counting-loop summary
    def _observe_cond(self, cond, state):
        log = []
        h = lambda op, x, y: log.append((op, x, y))
        absint.COMPARE_HOOKS.append(h)
        try:
            r = self.it.call(cond, [state], {})
        finally:
            absint.COMPARE_HOOKS.remove(h)
        return r, log

    def _while_loop(self, it, a, k):
        kw = dict(k)
        for n, v in zip(("cond_fun", "body_fun", "init_val"), a):
            kw[n] = v
        cond, body, init = kw["cond_fun"], kw["body_fun"], kw["init_val"]
        max_steps = kw.get("max_steps")
        nested = isinstance(init[0], tuple)  # ((t, arrays), carry) in the reverse loop
        t0 = to_rat(init[0][0] if nested else init[0])
        tau = integer_atom(f"tau{next(self._fresh)}")
        arrs0 = init[0][1] if nested else init[1]
        probe_arr = with_history(arrs0, ("probe", tau.fmt()))
        probe = ((tau, probe_arr), init[1]) if nested else (tau, probe_arr)
        # condition: one comparison of tau against a loop-invariant bound
        _, log = self._observe_cond(cond, probe)
        cmps = [(op, x, y) for op, x, y in log if tau.atoms() & (to_rat(x).atoms() | to_rat(y).atoms())]
        if len(cmps) != 1:
            raise LoopNotCounting(f"while_loop summary: the condition is not a single comparison of the step counter ({len(cmps)} comparisons observed)")
        op, x, y = cmps[0]
        x, y = to_rat(x), to_rat(y)
        if x.equals(tau):
            bound, rel = y, op  # tau OP bound
        elif y.equals(tau):
            bound, rel = x, {"lt": "gt", "gt": "lt", "le": "ge", "ge": "le"}.get(op, op)
        else:
            raise LoopNotCounting("while_loop summary: the step counter enters the condition through an expression")
        if rel not in ("lt", "le", "gt", "ge") or tau.atoms() & bound.atoms():
            raise LoopNotCounting(f"while_loop summary: unsupported condition tau {rel} bound")
        if nested:
            self.last_reverse_body = (body, probe[0], probe[1])
        # body: one symbolic step
        n_ev = len(self.events)
        n_vjp = len(self.vjp_calls)
        out = it.call(body, [probe], {})
        out_t = to_rat(out[0][0] if nested else out[0])
        step = out_t - tau
        if not (step.is_const() and step.const_value() in (1, -1)):
            raise AnalysisError(f"while_loop summary: the body moves the step counter by {step.fmt()}")
        step = int(step.const_value())
        if (step == 1) != (rel in ("lt", "le")):
            raise AnalysisError("while_loop summary: the loop moves away from its bound")
        # last value for which the condition holds, exit value of the counter
        if step == 1:
            t_exit = bound if rel == "lt" else bound + 1
            dist = t_exit - t0
        else:
            t_exit = bound if rel == "gt" else bound - 1
            dist = t0 - t_exit
        runs = self.facts.nonneg(dist)
        covered = True
        if max_steps is not None:
            covered = self.facts.nonneg(to_rat(max_steps) - dist)
        body_events = self.events[n_ev:]
        rec = LoopRecord(t0=t0, bound=bound, rel=rel, step=step, t_exit=t_exit, dist=dist, max_steps=max_steps, enters=runs, covered=covered,
                         events=body_events, vjps=self.vjp_calls[n_vjp:], kind=kw.get("kind"), checkpoints=kw.get("checkpoints"), probe_tau=tau, out=out, nested=nested)
        self.loops.append(rec)
        del self.events[n_ev:]
        after_truncation = any(isinstance(x, tuple) and x and x[0] == "truncated" for x in t0.atoms())
        if not runs and after_truncation:
            covered = False  # the start itself is the unknown exit of a loop that may have stopped early
        elif not runs:
            raise AnalysisError(f"while_loop summary: cannot order the start {t0.fmt()} and the exit {t_exit.fmt()} of a loop under the stated assumptions")
        if not covered:
            # the loop may stop early: the counter ends at t0 + max_steps (or earlier) — an unknown, distinct step
            t_exit = atom("truncated", t0.fmt(), to_rat(max_steps).fmt(), bound.fmt())
        # substitute the probe history by the summarised run
        fwd_like = [e for e in body_events if e[0] == ("forward" if step == 1 else "backward")]
        if len(fwd_like) != 1:
            raise AnalysisError(f"while_loop summary: the body performs {len(fwd_like)} solver steps")
        kind, _, flags, _, _ = fwd_like[0]
        dflags = tuple(f for f in flags if f[0] != "record_boundaries")
        h = fuse("fwd" if kind == "forward" else "bwd", dflags, t0, t_exit, dyn_signature(arrs0))
        rec_h = None
        if kind == "forward" and dict(flags).get("record_boundaries") not in (False, None):
            rec_h = fuse_rec(flags, t0, t_exit, rec_signature(arrs0), dyn_signature(arrs0))
        final_arr = with_history(arrs0, h, rec_h, fields_only=dict(flags).get("record_detectors") is False)
        rec.final = (t_exit, final_arr)
        if nested:
            return ((t_exit, final_arr), out[1])
        return (t_exit, final_arr)

    # ---------------------------------------------------------------- entry points
    def _oracle(self, op, d):
        """Ordering of integer-valued step expressions decided from the stated facts."""
        f = self.facts
        if op in ("lt", "ge"):  # d < 0 ?
            if f.nonneg(-d - 1):
                return op == "lt"
            if f.nonneg(d):
                return op == "ge"
        elif op in ("gt", "le"):  # d > 0 ?
            if f.nonneg(d - 1):
                return op == "gt"
            if f.nonneg(-d):
                return op == "le"
        elif op in ("eq", "ne"):
            if f.nonneg(d - 1) or f.nonneg(-d - 1):
                return op == "ne"
        return None

    def run(self, thunk):
        absint.COMPARE_ORACLES.append(self._oracle)
        try:
            return thunk()
        except Raised as r:
            return r
        finally:
            absint.COMPARE_ORACLES.remove(self._oracle)

    def call(self, qualname, *args, **kwargs):
        f = self.ix.function(qualname)
        self.ctx.unit(f.where())
        return self.run(lambda: self.it.call(self.it.closure_of(f), list(args), kwargs))


# ------------------------------------------------------------------ one solver step, its parts stubbed
class StepHarness:
    """Interprets the repo's own `forward` / `backward` with the field updates, the interface recording and the
    detector update replaced by token-producing stubs; records the order and the arguments of these calls."""

    PARTS = ("update_E", "update_H", "update_E_reverse", "update_H_reverse", "collect_interfaces", "add_interfaces", "update_detector_states")

    def __init__(self, ctx, num_boundaries=2):
        self.ctx = ctx
        self.ix = ctx.index
        self.drv = Driver(ctx, Facts([]), num_pml=num_boundaries)
        # a fresh interpreter without the forward / backward stubs of the driver
        self.it = ctx.fresh_interp()
        self.it.ext_overrides["lax.stop_gradient"] = lambda it_, a, k: a[0]
        self.calls: list[tuple] = []
        table = {f"fdtdx.fdtd.update.{p}": self._part(p) for p in self.PARTS}
        table["fdtdx.core.jax.default_key.default_key"] = lambda it_, a, k: a[0] if a and a[0] is not None else atom("default_key")
        stub_repo_calls(self.it, table)
        self.resets = []
        bnds = []
        for i in range(num_boundaries):
            def reset(it_, a, k, _i=i):
                fields = a[0]
                self.calls.append(("apply_field_reset", _i, tuple(sorted(fields))))
                return {n: atom("reset", _i, leaf_key(v)) for n, v in fields.items()}

            bnds.append(Obj(None, {"name": f"b{i}", "apply_field_reset": Builtin("apply_field_reset", reset)}, f"b{i}"))
        self.objects = Obj(None, {"boundary_objects": bnds}, "objects")
        self.config = Obj(None, {}, "config")

    def _part(self, name):
        def fn(it, a, k):
            kw = dict(k)
            arrays = kw.get("arrays", None)
            t = to_rat(kw.get("time_step"))
            sig, rsig = dyn_signature(arrays), rec_signature(arrays)
            extra = {n: v for n, v in kw.items() if n in ("simulate_boundaries", "inverse")}
            if "H_prev" in kw:
                extra["H_prev"] = leaf_key(kw["H_prev"])
            if len(a) > 0:
                raise AnalysisError(f"{name}: positional call — the harness expects the repo's keyword style")
            self.calls.append((name, t, extra, sig, rsig))
            h = (name, t.fmt(), tuple(sorted((n, str(v)) for n, v in extra.items())), sig)
            if name == "collect_interfaces":
                return arrays.replace(recording_state=_map_leaves(arrays.attrs["recording_state"], lambda p, v: atom("R", p, ("rec", t.fmt(), rsig, sig)), ("rec",)))
            if name == "update_detector_states":
                return arrays.replace(detector_states=_map_leaves(arrays.attrs["detector_states"], lambda p, v: atom("S", p, h), ("det",)))
            if name == "add_interfaces":
                h = h + (rsig,)
            return arrays.replace(fields=_map_leaves(arrays.attrs["fields"], lambda p, v: atom("S", p, h), ("fields",)))

        return fn

    def _run(self, fname, t, flags):
        f = self.ix.function(fname)
        self.ctx.unit(f.where())
        arr = self.drv.arrays()
        out = self.it.call(self.it.closure_of(f), [], dict(state=(t, arr), config=self.config, objects=self.objects, key=atom("key"), **flags))
        t_out, arr_out = out
        return dict(t_in=t, t_out=to_rat(t_out), arr_in=arr, arr_out=arr_out, dyn=dyn_signature(arr_out), rec=rec_signature(arr_out), rec_in=rec_signature(arr), calls=list(self.calls))

    def forward(self, **flags):
        return self._run("fdtdx.fdtd.forward.forward", integer_atom("t"), flags)

    def backward(self, **flags):
        return self._run("fdtdx.fdtd.backward.backward", integer_atom("t") + 1, flags)
