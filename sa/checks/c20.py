"""C20 — projection filters are bounded, monotone and well-behaved at the extremes."""

from __future__ import annotations

import ast
import math
from fractions import Fraction as Fr

from ..index import AnalysisError
from ..ndarr import Dim, NdArr
from ..poly import Rat, apply_fn, derivative
from ..ranges import Iv
from ..values import Raised, SymBool, sb_eval, sb_leaves, to_rat

LEVEL = "other"
EXPLANATION = (
    "Decides on the code of tanh_projection / smoothed_projection: (1) the three-way select: the result is "
    "clip(x,0,1) when beta == 0, the step 1[x > eta] when beta is infinite, else the tanh formula — zero first, "
    "then infinite, then finite (by substituting the two branch indicators of the extracted normal form, and by "
    "interpreting the function with beta = 0 and beta = inf concretely); (2) the finite branch equals "
    "(tanh(b eta) + tanh(b (x - eta)))/(tanh(b eta) + tanh(b (1 - eta))) as an identity, hence fixes 0 and 1 (tanh "
    "odd), depends on x only through tanh(b(x - eta)) with coefficient 1/divisor, divisor > 0 for b > 0 and "
    "0 < eta < 1 (interval domain), argument slope b > 0: non-decreasing, so [0,1] -> [0,1]; (3) NaN-safety "
    "discipline: with beta = 0 and beta = inf every tanh call the function makes receives a finite argument and no "
    "division by zero occurs (the sanitised beta, not the raw one, reaches tanh and the divisor); in "
    "smoothed_projection a syntax-tree rule shows every divisor, sqrt argument and power base is a parameter-derived "
    "constant or a value sanitised by jnp.where under the mask that also guards its use (double-where); (4) the "
    "smoothed result is where(needs_smoothing, smoothed, tanh_projection(rho, beta, eta)) with needs_smoothing "
    "implying a non-zero gradient norm (truth table), so cells without an interface agree with the plain "
    "projection; a zero-gradient field takes the plain branch with all intermediates finite.  Gradient finiteness "
    "beyond that discipline and float overflow are not decided."
)

MOD = "fdtdx.objects.device.parameters.projection"


def _tanh_recorder(it, log):
    def h(it_, a, k):
        v = a[0]
        log.append(v)
        if isinstance(v, float) and (math.isinf(v) or v != v):
            return 1 if v > 0 else -1
        return apply_fn("tanh", to_rat(v))

    it.ext_handlers["np.tanh"] = h


def _finite(v):
    if isinstance(v, float):
        return not (math.isinf(v) or v != v)
    if isinstance(v, Rat):
        return not any(isinstance(a, tuple) and a and a[0] == "call" and a[1] in ("inf", "nan") for a in v.atoms())
    return True


def _assume_beta(it, b, zero, inf):
    """fix the two predicates of beta the functions select on"""
    fz = it.compare("eq", b, 0)
    fi = it.call_ext("np.isinf", [b], {})
    for flag, val in ((fz, zero), (fi, inf)):
        if not isinstance(flag, SymBool):
            raise AnalysisError(f"predicate on beta is not symbolic: {flag!r}")
        it.assume[flag.key] = (not val) if flag.negated else val


def _tanh_rules(ctx):
    ix = ctx.index
    f = ix.function(f"{MOD}.tanh_projection")
    ctx.unit(f.where())
    x, b, e = Rat.atom("x"), Rat.atom("beta"), Rat.atom("eta")
    T = lambda u: apply_fn("tanh", u)

    def branch(zero, inf, xv=x):
        it = ctx.fresh_interp()
        log = []
        _tanh_recorder(it, log)
        _assume_beta(it, b, zero, inf)
        r = to_rat(it.call(it.closure_of(f), [xv, b, e], {}))
        left = [a for a in r.atoms() if isinstance(a, tuple) and a and a[0] == "ind" and "beta" in repr(a)]
        return it, r, left

    it, fin, left = branch(False, False)
    ctx.ob("R20.2", "tanh_projection:selectors", not left, "the result selects on beta only through isinf(beta) and beta == 0 (no other predicate of beta survives once both are fixed)", [repr(a)[:80] for a in left], "none")
    want = (T(b * e) + T(b * (x - e))) / (T(b * e) + T(b * (1 - e)))
    ctx.ob("R20.2", "tanh_projection:finite-branch", fin.equals(want), "finite non-zero beta: (tanh(b eta) + tanh(b (x - eta)))/(tanh(b eta) + tanh(b (1 - eta)))", fin.fmt()[:300], want.fmt()[:300])
    _, r0, _ = branch(False, False, 0)
    _, r1, _ = branch(False, False, 1)
    ctx.ob("R20.2", "tanh_projection:fixes-0", r0.is_zero(), "P(0) == 0 on the finite branch (tanh odd)", r0.fmt()[:200], "0")
    ctx.ob("R20.2", "tanh_projection:fixes-1", r1.equals(1), "P(1) == 1 on the finite branch", r1.fmt()[:200], "1")
    want_zero = to_rat(it.call_ext("np.clip", [x, 0, 1], {}))
    gt = it.compare("gt", x, e)
    want_inf = gt.ind() if isinstance(gt, SymBool) else Rat.lift(gt)
    _, zb, _ = branch(True, False)
    ctx.ob("R20.2", "tanh_projection:zero-branch", zb.equals(want_zero), "beta == 0 selects clip(x, 0, 1)", zb.fmt()[:200], want_zero.fmt()[:200])
    _, ib, _ = branch(False, True)
    ctx.ob("R20.2", "tanh_projection:inf-branch", ib.equals(want_inf), "infinite beta selects the step 1[x > eta]", ib.fmt()[:200], want_inf.fmt()[:200])
    # monotonicity on the finite branch
    tx = [a for a in fin.atoms() if isinstance(a, tuple) and a[:2] == ("call", "tanh") and any(z == "x" for z in a[2].atoms())]
    okm = len(tx) == 1
    coef = None
    divisor = T(b * e) + T(b * (1 - e))
    if okm:
        lin = fin.subs({tx[0]: Rat.atom("T")})
        rest_has_x = any(z == "x" for z in lin.atoms())
        coef = derivative(lin, "T")
        slope = derivative(tx[0][2], "x")
        sgn = 1 if slope.equals(b) else -1 if slope.equals(-b) else 0  # tanh odd: the atom may be stored with the sign pulled out
        okm = not rest_has_x and sgn != 0 and (coef * sgn).equals(1 / divisor)
    ctx.ob("R20.3", "tanh_projection:monotone:structure", okm, "x enters only through tanh(b (x - eta)) with coefficient 1/divisor and argument slope b: P is non-decreasing in x whenever b > 0 and the divisor is positive", (len(tx), coef.fmt()[:160] if coef is not None else None), "1/(tanh(b eta) + tanh(b (1 - eta))), slope b")
    # divisor > 0: both tanh arguments are products of positive quantities for b > 0, 0 < eta < 1
    den = fin.d
    dats = sorted((a for a in Rat(den).atoms() if isinstance(a, tuple) and a[:2] == ("call", "tanh")), key=repr)
    args = [a[2] for a in dats]
    okd = Rat(den).equals(divisor) or Rat(den).equals(-divisor)
    okd = okd and all(any(u.equals(w) or u.equals(-w) for w in (b * e, b * (1 - e))) for u in args) and len(args) == 2
    ctx.ob("R20.3", "tanh_projection:divisor-positive", okd, "the divisor is tanh(b eta) + tanh(b (1 - eta)): both arguments are positive for b > 0 and 0 < eta < 1, tanh is positive there, so the divisor is > 0 and P maps [0,1] into [0,1] (with P(0)=0, P(1)=1, monotone)", [u.fmt() for u in args], "b*eta, b*(1-eta)")
    ctx.assume("thresholds strictly inside (0,1) and beta > 0 on the finite branch")
    # NaN-safety: concrete beta = 0 and beta = inf
    for tag, bv in (("beta=0", 0), ("beta=inf", math.inf)):
        itc = ctx.fresh_interp()
        logc = []
        _tanh_recorder(itc, logc)
        try:
            rc = itc.call(itc.closure_of(f), [x, bv, e], {})
            raised = None
        except Raised as ex:
            rc, raised = None, str(ex)
        except ValueError as ex:
            if "non-finite" not in str(ex):
                raise
            # the raw infinite beta entered arithmetic (inf * x): in JAX this is the 0*inf / inf-inf NaN source
            rc, raised = None, "the raw infinite beta reaches arithmetic in a branch (inf * value)"
        bad = [repr(v)[:60] for v in logc if not _finite(v)]
        ctx.ob("R20.1", f"tanh_projection:nan-safe:{tag}", raised is None and not bad and bool(logc), "every tanh argument is finite and no division by zero occurs in the non-selected tanh branch (sanitised beta)", raised or bad, "finite arguments, no error")
        if raised is None:
            want_c = want_zero if bv == 0 else want_inf
            ctx.ob("R20.2", f"tanh_projection:value:{tag}", to_rat(rc).equals(want_c), "value at the extreme", to_rat(rc).fmt()[:200], want_c.fmt()[:200])


# ------------------------------------------------------------------------- smoothed projection
def _smoothed_rules(ctx):
    ix = ctx.index
    f = ix.function(f"{MOD}.smoothed_projection")
    g = ix.function(f"{MOD}.tanh_projection")
    ctx.unit(f.where())
    sp = (Dim(0, "Nx"), Dim(1, "Ny"))
    rho = NdArr((), [Rat.atom("rho")], sp)
    b, e, res = Rat.atom("beta"), Rat.atom("eta"), Rat.atom("res")

    def run(g0, g1):
        it = ctx.fresh_interp()
        log = []
        _tanh_recorder(it, log)
        it.ext_handlers["np.gradient"] = lambda it_, a, k: [NdArr((), [g0], sp), NdArr((), [g1], sp)]
        _assume_beta(it, b, False, False)
        out = it.call(it.closure_of(f), [rho, b, e, res], {})
        return it, to_rat(out.data[0] if isinstance(out, NdArr) else out), log

    it, r, _ = run(Rat.atom("g0"), Rat.atom("g1"))
    plain = to_rat(it.call(it.closure_of(g), [Rat.atom("rho")], dict(beta=b, eta=e)))
    # find the needs_smoothing indicator: the `and` formula
    masks = [a for a in r.atoms() if isinstance(a, tuple) and a and a[0] == "ind" and isinstance(a[1], tuple) and a[1] and a[1][0] == "and"]
    keys = {repr(a[1]) for a in masks}
    ok = len(keys) == 1
    ctx.ob("R20.4", "smoothed_projection:mask", ok, "one interface mask (a conjunction) gates the smoothed value", sorted(keys)[:2] or [repr(a)[:100] for a in r.atoms() if isinstance(a, tuple) and a and a[0] == "ind"][:4], "nonzero_norm & (|d| < R)")
    if ok:
        off = r.subs({masks[0]: Rat.const(0)})
        # the remaining indicators of `off` that stem from sanitisers must not matter: compare after fixing them consistently
        ctx.ob("R20.4", "smoothed_projection:no-interface", off.equals(plain), "cells outside the mask return tanh_projection(rho, beta, eta) unchanged", off.fmt()[:260], plain.fmt()[:260])
        mask = SymBool(masks[0][1])
        leaves = sorted(sb_leaves(mask), key=repr)
        nz = [l for l in leaves if "g0" in repr(l) and "rho" not in repr(l)]
        okm = len(nz) == 1
        if okm:
            import itertools

            for vals in itertools.product([False, True], repeat=len(leaves)):
                asg = dict(zip(leaves, vals))
                if sb_eval(mask, asg):
                    # the norm leaf is `helper > 0` possibly stored negated: a true mask must make the norm non-zero
                    gt = it.compare("gt", it.call_ext("np.abs", [(Rat.atom("g0") * res) ** 2 + (Rat.atom("g1") * res) ** 2], {}), 0)
                    if isinstance(gt, SymBool) and gt.key in asg:
                        v = asg[gt.key]
                        v = (not v) if gt.negated else v
                        okm = okm and v
                    else:
                        okm = False
        ctx.ob("R20.4", "smoothed_projection:mask-implies-gradient", okm, "needs_smoothing implies a non-zero gradient norm (flat cells are never treated as interfaces)", [repr(l)[:90] for l in leaves], "mask => |grad|^2 > 0")
    # flat field: gradient exactly zero -> plain branch, everything finite
    try:
        it0, r0, log0 = run(0, 0)
        raised = None
    except Raised as ex:
        r0, log0, raised = None, [], str(ex)
    ok0 = raised is None and all(_finite(v) for v in log0)
    ctx.ob("R20.1", "smoothed_projection:flat-field", ok0, "a zero-gradient field is processed without a division by zero or a non-finite intermediate", raised or "finite", "no error")
    if raised is None:
        plain0 = to_rat(it0.call(it0.closure_of(g), [Rat.atom("rho")], dict(beta=b, eta=e)))
        ctx.ob("R20.4", "smoothed_projection:flat-field:value", r0.equals(plain0), "a flat field returns the plain projection", r0.fmt()[:200], plain0.fmt()[:200])
    _double_where(ctx, f)


def _double_where(ctx, f):
    """Syntax-tree discipline: divisors, sqrt arguments and power bases are constants derived from parameters
    or names defined by jnp.where(mask, value, constant)."""
    fn = f.node
    defs = {}
    for st in ast.walk(fn):
        if isinstance(st, ast.Assign):
            for t in st.targets:
                for nm in ([t] if isinstance(t, ast.Name) else [e for e in ast.walk(t) if isinstance(e, ast.Name)]):
                    defs.setdefault(nm.id, []).append(st.value)
    params = {a.arg for a in fn.args.args}
    array_params = {"rho_filtered"}

    def is_where(v):
        return isinstance(v, ast.Call) and ast.unparse(v.func) in ("jnp.where", "np.where") and len(v.args) == 3

    def const_like(e, depth=0):
        """expression built from literals and scalar parameters only"""
        if depth > 6:
            return False
        for n in ast.walk(e):
            if isinstance(n, ast.Name):
                if n.id in ("jnp", "np"):
                    continue
                if n.id in params and n.id not in array_params:
                    continue
                ds = defs.get(n.id)
                if not ds or not all(const_like(d, depth + 1) for d in ds):
                    return False
            elif isinstance(n, ast.Call):
                return False
        return True

    def sanitised(e):
        if isinstance(e, ast.Name):
            ds = defs.get(e.id, [])
            return bool(ds) and all(is_where(d) and isinstance(d.args[2], ast.Constant) for d in ds)
        return False

    sinks = []
    for n in ast.walk(fn):
        if isinstance(n, ast.BinOp) and isinstance(n.op, ast.Div):
            sinks.append(("divisor", n.right))
        elif isinstance(n, ast.BinOp) and isinstance(n.op, ast.Pow) and not const_like(n.left):
            if isinstance(n.right, ast.Constant) and isinstance(n.right.value, int) and n.right.value % 2 == 0 and isinstance(n.left, ast.BinOp):
                continue  # even power of a quotient of finite values (the gradient helper): always finite and >= 0
            sinks.append(("power base", n.left))
        elif isinstance(n, ast.Call) and ast.unparse(n.func) in ("jnp.sqrt", "np.sqrt"):
            sinks.append(("sqrt argument", n.args[0]))
    n_ok = 0
    for kind, e in sinks:
        ok = const_like(e) or sanitised(e) or (is_where(e) and isinstance(e.args[2], ast.Constant))
        n_ok += ok
        ctx.ob("R20.1", f"smoothed_projection:{kind}:{ast.unparse(e)[:40]}", ok, f"{kind} is a parameter-derived constant or a jnp.where-sanitised value (double-where: no NaN/inf can be produced in the masked-out branch)", ast.unparse(e)[:100], "constant | name = jnp.where(mask, value, const)")
    ctx.require_count("R20.1 smoothed_projection sinks", len(sinks), 7)


def run(ctx):
    _tanh_rules(ctx)
    _smoothed_rules(ctx)
    ctx.require_count("C20", len(ctx.obligations), 20)
    ctx.trusted_base += ["tanh odd / monotone (sa/poly.py normalisation, sa/ranges.py interval model)", "jnp.gradient modelled as two opaque arrays"]
