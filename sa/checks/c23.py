"""C23 — fabrication clean-up keeps exactly the connected material."""

from __future__ import annotations

import itertools

from ..absint import rat_compare
from ..harness import Recorder, mk_material, stub_ext, stub_repo_calls
from ..index import AnalysisError
from ..ndarr import Dim, NdArr, field_atom
from ..poly import Rat
from ..values import AbsVal, Builtin, Closure, Obj, Raised, SymBool, sb_eval, sb_leaves, to_rat

LEVEL = "other"
EXPLANATION = (
    "Decides structural necessary conditions of the flood fill: (1) the dilation kernel is the face-adjacency "
    "cross, applied once in each of the three coordinate planes per round and masked by the material array "
    "after every plane; the seed is the bottom layer; (2) the final selection matrix & ~(~connected & matrix) "
    "equals matrix AND connected on its full truth table, and RemoveFloatingMaterial maps it back to material "
    "indices for both background indices; (3) ITERATION-BOUND ADEQUACY: a masked one-step dilation needs as "
    "many rounds as the longest geodesic through the material, which in an X*Y*Z grid grows like X*Y*Z "
    "(serpentine), so the loop must either iterate to a fixpoint or its trip count must have total degree 3 "
    "in the grid dimensions; the trip-count expression is extracted symbolically from the loop call.  Does "
    "not decide the outcome of connect_holes_and_structures on particular designs."
)

SP = (Dim(0, "X"), Dim(1, "Y"), Dim(2, "Z"))
CROSS = [[0, 1, 0], [1, 1, 1], [0, 1, 0]]


def degree(r: Rat) -> int:
    """Total degree of a trip-count expression in the grid dimensions; max(a,b) has the larger degree."""

    def deg_atom(a):
        if a in ("X", "Y", "Z"):
            return 1
        if isinstance(a, tuple) and a and a[0] == "call" and a[1] in ("max", "min"):
            ds = [degree(x) for x in a[2:] if isinstance(x, Rat)]
            return max(ds) if a[1] == "max" else min(ds)
        return 0

    if not r.d.is_const():
        return max(0, degree(Rat(r.n)) - degree(Rat(r.d)))
    best = 0
    for m in r.n.t:
        best = max(best, sum(deg_atom(a) * e for a, e in m))
    return best


def _matrix(name="m"):
    return NdArr((), [SymBool(("cell", name))], SP)


def _flood_fill(ctx, fname):
    """Interpret the flood-fill driver on a symbolic (X,Y,Z) boolean array; return the loop record."""
    ix = ctx.index
    it = ctx.fresh_interp()
    f = ix.function(f"fdtdx.objects.device.parameters.binary_transform.{fname}")
    ctx.unit(f.where())
    rec = Recorder()
    rec.ext(it, "jax.lax.fori_loop", lambda it_, a, k: a[3] if len(a) > 3 else k.get("init_val"))
    rec.ext(it, "jax.lax.while_loop", lambda it_, a, k: a[2] if len(a) > 2 else k.get("init_val"))
    stub_ext(
        it,
        {
            "np.zeros_like": lambda it_, a, k: NdArr((), [False], SP),
            "np.invert": lambda it_, a, k: a[0].map(lambda v: v.av_unop("not") if isinstance(v, SymBool) else (not v)),
        },
    )
    z_is_one = rat_compare("eq", Rat.atom("Z"), 1)
    it.assume[z_is_one.key] = False
    ctx.assume("generic grid with more than one z layer (the single-layer padding path is not analysed)")
    try:
        it.call(it.closure_of(f), [_matrix()], {})
    except Raised as r:
        raise AnalysisError(f"{fname} raises on the symbolic array: {r}")
    return it, rec


def run(ctx):
    ix = ctx.index
    mod = "fdtdx.objects.device.parameters.binary_transform"
    # --------------------------------------------------------- R23.2 bounds
    for fname in ("compute_polymer_connection", "compute_air_connection"):
        it, rec = _flood_fill(ctx, fname)
        loops = rec.calls
        if len(loops) != 1:
            raise AnalysisError(f"{fname}: expected exactly one flood-fill loop, found {len(loops)}")
        kind, a, k = loops[0]
        construct = f"{mod}.{fname}:flood-fill-loop"
        if kind == "jax.lax.while_loop":
            ctx.ob("R23.2", construct, True, "flood fill iterates to a fixpoint (while_loop)", "while_loop", "fixpoint or degree-3 bound")
            body = a[1]
        else:
            lo, hi, body = a[0], a[1], a[2]
            trips = to_rat(hi) - to_rat(lo)
            d = degree(trips)
            ctx.ob(
                "R23.2",
                construct,
                d >= 3,
                "a one-step masked dilation needs as many rounds as the longest face-connected path, which grows like X*Y*Z; "
                f"the loop runs {trips.fmt()} rounds (degree {d} in the grid dimensions), so long serpentine paths are cut short",
                trips.fmt(),
                "fixpoint iteration, or a trip count of total degree 3 in (X, Y, Z)",
            )
        # ----------------------------------------------- R23.1 round structure
        seen = {}

        def dil(it_, args, kw):
            seen.update(kw)
            return kw.get("arr_3d", args[0] if args else None)

        stub_repo_calls(it, {"seperated_3d_dilation": dil})
        if kind == "jax.lax.while_loop":
            it.call(body, [(NdArr((), [False], SP), _matrix("front"))], {})
        else:
            it.call(body, [0, _matrix("front")], {})
        kernels = {n: seen.get(n) for n in ("kernel_xy", "kernel_xz", "kernel_yz")}
        okk = all(isinstance(v, NdArr) and v.nested() == CROSS for v in kernels.values())
        ctx.ob("R23.1", f"{mod}.{fname}:kernel", okk, "all three plane kernels are the face-adjacency cross (no diagonal neighbours)", {n: (v.nested() if isinstance(v, NdArr) else v) for n, v in kernels.items()}, CROSS)
        red = seen.get("reduction_arr")
        leaf = red.data[0] if isinstance(red, NdArr) else None
        want_neg = fname == "compute_air_connection"
        okr = isinstance(leaf, SymBool) and leaf.key == ("cell", "m") and leaf.negated == want_neg
        ctx.ob("R23.1", f"{mod}.{fname}:mask", okr, "the front is masked by the material array (its complement for the air fill)", leaf, ("not " if want_neg else "") + "matrix")
    _dilation_round(ctx)
    _seed(ctx)
    _air_seed_and_exit(ctx)
    _selection(ctx)
    _fresh_connectivity(ctx)
    ctx.require_count("C23", len(ctx.obligations), 14)


def _dilation_round(ctx):
    """seperated_3d_dilation: one convolution per coordinate plane, each followed by the mask."""
    ix = ctx.index
    it = ctx.fresh_interp()
    f = ix.function("fdtdx.objects.device.parameters.binary_transform.seperated_3d_dilation")
    ctx.unit(f.where())
    convs = []

    def vmap(it_, a, k):
        in_axes = k.get("in_axes")
        out_axes = k.get("out_axes")

        def mapped(it2, aa, kk):
            arr, kern = aa[0], aa[1]
            src = arr.data[0]
            convs.append((in_axes, out_axes, kern, src))
            return NdArr((), [SymBool(("conv", len(convs), repr(src)))], arr.sp)

        return Builtin("vmapped", mapped)

    stub_ext(it, {"jax.vmap": vmap})
    kxy, kxz, kyz = (NdArr((), [SymBool(("k", n))]) for n in ("xy", "xz", "yz"))
    R = SymBool(("cell", "R"))
    A = SymBool(("cell", "a"))
    out = it.call(it.closure_of(f), [], dict(arr_3d=NdArr((), [A], SP), kernel_xy=kxy, kernel_yz=kyz, kernel_xz=kxz, reduction_arr=NdArr((), [R], SP)))
    ok = len(convs) == 3
    ctx.ob("R23.1", "seperated_3d_dilation:planes", ok and sorted(_ax(c[0]) for c in convs) == [0, 1, 2], "one dilation per coordinate plane (mapped over axes 2, 1 and 0)", [c[0] for c in convs], "in_axes over {0,1,2}")
    if not ok:
        return
    # kernel pairing: mapped over axis 2 -> xy kernel, axis 1 -> xz, axis 0 -> yz
    pair = {2: ("k", "xy"), 1: ("k", "xz"), 0: ("k", "yz")}
    okp = all(isinstance(c[2], NdArr) and c[2].data[0].key == pair[_ax(c[0])] for c in convs)
    ctx.ob("R23.1", "seperated_3d_dilation:kernel-pairing", okp, "each plane uses the kernel named after it", [(c[0], c[2].data[0].key if isinstance(c[2], NdArr) else c[2]) for c in convs], pair)
    # masking: the input of dilation 2 and 3 and the final result carry the mask as a conjunct
    def masked(v):
        if not isinstance(v, SymBool):
            return False
        for val in (False, True):
            leaves = {l: val for l in sb_leaves(v)}
            leaves[R.key] = False
            if sb_eval(v, leaves):
                return False
        return True

    final = out.data[0] if isinstance(out, NdArr) else None
    okm = masked(convs[1][3]) and masked(convs[2][3]) and masked(final)
    ctx.ob("R23.1", "seperated_3d_dilation:masking", okm, "the front is AND-ed with the mask after every plane dilation (it can never leave the material)", [repr(convs[1][3])[:80], repr(final)[:80]], "... & reduction_arr")
    ok_io = all(_ax(c[0]) == c[1] or (isinstance(c[1], tuple) and _ax(c[0]) == _ax(c[1])) for c in convs)
    ctx.ob("R23.1", "seperated_3d_dilation:axes-restored", ok_io, "vmap puts the mapped axis back where it was (out_axes == in_axes axis)", [(c[0], c[1]) for c in convs], "out_axes == in_axes[0]")


def _ax(in_axes):
    if isinstance(in_axes, tuple):
        return in_axes[0]
    return in_axes


def _seed(ctx):
    """compute_polymer_connection seeds the whole bottom layer (z index 0) and nothing else."""
    ix = ctx.index
    it = ctx.fresh_interp()
    f = ix.function("fdtdx.objects.device.parameters.binary_transform.compute_polymer_connection")
    got = {}

    def fori(it_, a, k):
        got["init"] = a[3]
        return a[3]

    stub_ext(it, {"jax.lax.fori_loop": fori, "jax.lax.while_loop": lambda it_, a, k: got.setdefault("init", a[2]) or a[2], "np.zeros_like": lambda it_, a, k: NdArr((), [False], SP)})
    it.assume[rat_compare("eq", Rat.atom("Z"), 1).key] = False
    it.call(it.closure_of(f), [_matrix()], {})
    init = got.get("init")
    if isinstance(init, tuple):
        init = init[-1]
    v = to_rat(init.data[0]) if isinstance(init, NdArr) else None
    ok = False
    desc = None
    if v is not None:
        inds = [a for a in v.atoms() if isinstance(a, tuple) and a and a[0] == "ind"]
        if len(inds) == 1 and v.equals(Rat.atom(inds[0])):
            desc = inds[0][1]
            # region key: full slices on x and y, index 0 on z
            ok = desc == ("region", ("slice(None, None, None)", "slice(None, None, None)", "0")) or desc == ("region", (("slice", "None", "None", "None"), ("slice", "None", "None", "None"), "0"))
    ctx.ob("R23.1", "compute_polymer_connection:seed", ok, "the fill starts from exactly the bottom layer [..., 0]", desc if desc else v, "indicator of [:, :, 0]")


def _air_seed_and_exit(ctx):
    """(a) the air fill starts from the air cells of the five open faces (four sides and the top) and from nothing else —
    a material cell on a side face is not a source of ventilation; (b) the fixpoint loop goes on exactly while the front
    changed (comparing the masks, not their sizes)."""
    import itertools

    ix = ctx.index
    f = ix.function("fdtdx.objects.device.parameters.binary_transform.compute_air_connection")
    n = 3
    cells = list(itertools.product(range(n), repeat=3))
    patterns = {
        "all material": {c: True for c in cells},
        "all air": {c: False for c in cells},
        "mixed": {c: ((c[0] + 2 * c[1] + c[2]) % 3 == 0) for c in cells},
    }
    bad = []
    captured = {}
    for tag, pat in patterns.items():
        it = ctx.fresh_interp()
        got = {}

        def wl(it_, a, k, _g=got):
            _g["cond"], _g["body"], _g["init"] = a[0], a[1], a[2]
            return a[2]

        stub_ext(
            it,
            {
                "jax.lax.while_loop": wl,
                "jax.lax.fori_loop": lambda it_, a, k, _g=got: _g.setdefault("init", a[3]) and a[3],
                "np.zeros_like": lambda it_, a, k: NdArr(a[0].shape, [False] * len(a[0].data)),
                "np.invert": lambda it_, a, k: NdArr(a[0].shape, [not bool(v) for v in a[0].data]),
            },
        )
        m = NdArr((n, n, n), [pat[c] for c in cells])
        try:
            it.call(it.closure_of(f), [m], {})
        except Raised as r:
            raise AnalysisError(f"compute_air_connection raises on a concrete {n}x{n}x{n} design: {r}")
        init = got.get("init")
        seed = init[-1] if isinstance(init, tuple) else init
        if not (isinstance(seed, NdArr) and seed.shape == (n, n, n)):
            raise AnalysisError(f"compute_air_connection: cannot capture the seed of the fill ({seed!r})")
        for c, v in zip(cells, seed.data):
            on_open_face = c[0] in (0, n - 1) or c[1] in (0, n - 1) or c[2] == n - 1
            want = on_open_face and not pat[c]
            gv = v if isinstance(v, bool) else (not to_rat(v).is_zero())
            if gv != want:
                bad.append((tag, c, gv, want))
        captured = got
    ctx.ob("R23.1", "compute_air_connection:seed", not bad, "the air fill starts from exactly the air cells on the four side faces and the top face (never from a material cell on a face, never from the bottom face alone)", bad[:3], "face cell and not material")
    cond = captured.get("cond")
    if cond is None:
        ctx.ob("R23.2", "flood-fill:exit-test", False, "the fill runs as a fixpoint loop", "no while_loop", "while_loop")
        return
    A = NdArr((2, 2), [True, False, False, True])
    B = NdArr((2, 2), [False, True, True, False])  # same number of cells, different cells
    C = NdArr((2, 2), [True, True, False, True])
    it = ctx.fresh_interp()
    truth = lambda x: x if isinstance(x, bool) else (not to_rat(x).is_zero())
    stub_ext(it, {"np.any": lambda it_, a, k: any(truth(x) for x in (a[0].data if isinstance(a[0], NdArr) else [a[0]])), "np.sum": lambda it_, a, k: sum(1 for x in a[0].data if truth(x))})
    res = {}
    for tag, (p_, c_) in {"same mask": (A, A), "same size, different cells": (A, B), "grown": (A, C)}.items():
        try:
            v = it.call(cond, [(p_, c_)], {})
        except Raised as r:
            raise AnalysisError(f"the exit test of the fixpoint loop raises: {r}")
        if isinstance(v, NdArr) and len(v.data) == 1:
            v = v.data[0]
        res[tag] = v if isinstance(v, bool) else (not to_rat(v).is_zero())
    ctx.ob("R23.2", "flood-fill:exit-test", res == {"same mask": False, "same size, different cells": True, "grown": True}, "the loop continues exactly while the front differs from the previous one as a set of cells (the first round of the material fill shrinks the seeded bottom layer to its material cells: equal sizes do not mean convergence)", res, "stop only on identical masks")


def _selection(ctx):
    ix = ctx.index
    # remove_floating_polymer: matrix & ~(~connected & matrix) == matrix & connected
    it = ctx.fresh_interp()
    C = SymBool(("cell", "connected"))
    stub_repo_calls(it, {"compute_polymer_connection": lambda it_, a, k: NdArr((), [C], SP)})
    stub_ext(it, {"np.invert": lambda it_, a, k: a[0].map(lambda v: v.av_unop("not") if isinstance(v, SymBool) else (not v))})
    f = ix.function("fdtdx.objects.device.parameters.binary_transform.remove_floating_polymer")
    ctx.unit(f.where())
    out = it.call(it.closure_of(f), [_matrix()], {})
    v = out.data[0]
    M = ("cell", "m")
    bad = []
    for m, c in itertools.product([False, True], repeat=2):
        got = sb_eval(v, {M: m, C.key: c}) if isinstance(v, SymBool) else v
        if got != (m and c):
            bad.append((m, c, got))
    ctx.ob("R23.3", "remove_floating_polymer:selection", not bad, "kept == material AND connected on all four rows", bad, "matrix & connected")
    # RemoveFloatingMaterial.__call__: index mapping for both background indices
    R = ix.cls("fdtdx.objects.device.parameters.discrete.RemoveFloatingMaterial")
    ctx.unit(R.methods["__call__"].where())
    from fractions import Fraction

    for bg_first in (True, False):
        it = ctx.fresh_interp()
        kept = SymBool(("cell", "kept"))
        seen = {}

        def rfp(it_, a, k):
            seen["arg"] = a[0]
            return NdArr((), [kept], SP)

        stub_repo_calls(it, {"remove_floating_polymer": rfp, "straight_through_estimator": lambda it_, a, k: a[1]})
        stub_ext(it, {"np.invert": lambda it_, a, k: a[0].map(lambda v: v.av_unop("not") if isinstance(v, SymBool) else (not v))})
        mats = {"air": mk_material(it, permittivity=Fraction(1)), "poly": mk_material(it, permittivity=Fraction(9, 4))}
        bg = "air" if bg_first else "poly"
        obj = Obj(R, {"background_material": bg, "_materials": mats}, "rfm")
        p = NdArr((), [field_atom("p")], SP)
        res = it.call_method(obj, "__call__", {"design": p})["design"]
        b = 0 if bg_first else 1
        val = to_rat(res.data[0])
        ind = to_rat(kept)
        want = (1 - b) * ind + b * (1 - ind)
        ctx.ob("R23.3", f"RemoveFloatingMaterial.__call__:index-map:bg={b}", val.equals(want), "kept cells get the material index, all others the background index", val.fmt(), want.fmt())
        arg = seen.get("arg")
        leaf = arg.data[0] if isinstance(arg, NdArr) else None
        want_leaf = rat_compare("ne", to_rat(field_atom("p")), b)
        okl = isinstance(leaf, SymBool) and leaf.key == want_leaf.key and leaf.negated == want_leaf.negated
        ctx.ob("R23.3", f"RemoveFloatingMaterial.__call__:material-mask:bg={b}", okl, "a cell is material iff its index differs from the background index", leaf, want_leaf)


def _fresh_connectivity(ctx):
    """A connectivity map is used only for the design it was computed from: between `X = compute_*_connection(m)`
    and every use of X there is no assignment to m (a syntax-directed walk with a version counter per design
    variable; a loop whose body assigns the design invalidates on entry and on exit)."""
    import ast

    ix = ctx.index
    mod = "fdtdx.objects.device.parameters.binary_transform"
    producers = ("compute_polymer_connection", "compute_air_connection")
    for fname in ("connect_holes_and_structures", "remove_floating_polymer", "remove_polymer_non_connected_to_x_max_middle"):
        try:
            fi = ix.function(f"{mod}.{fname}")
        except Exception:
            continue
        ctx.unit(fi.where())
        version = {}
        maps = {}  # connectivity variable -> (design variable, version at definition, line)
        stale, uses = [], 0

        def assigned(stmts):
            out = set()
            for st in stmts:
                for n in ast.walk(st):
                    if isinstance(n, ast.Assign):
                        for t in n.targets:
                            for x in ast.walk(t):
                                if isinstance(x, ast.Name):
                                    out.add(x.id)
            return out

        def use_check(node, skip=None):
            nonlocal uses
            for n in ast.walk(node):
                if isinstance(n, ast.Name) and isinstance(n.ctx, ast.Load) and n.id in maps and n is not skip:
                    design, v, line = maps[n.id]
                    uses += 1
                    if version.get(design, 0) != v:
                        stale.append((n.id, f"computed at line {line}", f"used at line {n.lineno} after `{design}` changed"))

        def walk(stmts):
            for st in stmts:
                if isinstance(st, ast.For):
                    use_check(st.iter)
                    changed = assigned(st.body)
                    for v in changed:
                        version[v] = version.get(v, 0) + 1  # a previous iteration may have changed it
                    walk(st.body)
                    for v in changed:
                        version[v] = version.get(v, 0) + 1
                    continue
                if isinstance(st, ast.If):
                    use_check(st.test)
                    walk(st.body)
                    walk(st.orelse)
                    continue
                if isinstance(st, ast.Assign) and isinstance(st.value, ast.Call) and ast.unparse(st.value.func).split(".")[-1] in producers and len(st.targets) == 1 and isinstance(st.targets[0], ast.Name):
                    use_check(st.value)
                    arg = st.value.args[0] if st.value.args else next((kw.value for kw in st.value.keywords if kw.arg == "matrix"), None)
                    if isinstance(arg, ast.Name):
                        maps[st.targets[0].id] = (arg.id, version.get(arg.id, 0), st.lineno)
                    continue
                use_check(st)
                if isinstance(st, ast.Assign):
                    for t in st.targets:
                        for x in ast.walk(t):
                            if isinstance(x, ast.Name) and isinstance(x.ctx, ast.Store):
                                version[x.id] = version.get(x.id, 0) + 1
                                maps.pop(x.id, None) if x.id in maps and not (isinstance(st.value, ast.Call)) else None

        walk(fi.node.body)
        ctx.ob("R23.4", f"{mod}.{fname}:fresh-connectivity", not stale and uses > 0, "every use of a connectivity map sees the design it was computed from: no assignment to the design lies between computing the map and using it (the final clean-up after the air pass recomputes it)", stale[:3] if stale else f"{uses} uses", "map computed from the current design")
