"""C18 — device parameters map to materials exactly as documented."""

from __future__ import annotations

import ast
import itertools
from fractions import Fraction as Fr

from .. import absint
from ..absint import StopAfter
from ..harness import mk_material, open_obj, stub_repo_calls
from ..index import AnalysisError
from ..ndarr import NdArr, at_update, getitem
from ..poly import Rat
from ..scene import SP, Scene, scal, vec
from ..values import Builtin, Obj, Raised, Unknown, to_rat

LEVEL = "other"
EXPLANATION = (
    "Decides apply_params up to the end of its device loop by abstract interpretation on scenes whose devices "
    "have symbolic (possibly overlapping) grid slices and a symbolic per-cell parameter x: (1) a continuous "
    "two-material device writes 1/(p0 + x (p1 - p0)) per stored component (isotropic and diagonal tiers), "
    "materials in the common material order; (2) an etched device writes 1/(bg + x (p0 - bg)) with bg the "
    "reciprocal of the *restored* initial inverse permittivity, the restore from initial_inv_permittivities "
    "happens once before the first device (stale values of an earlier application never survive, and a later "
    "etched device does not wipe an earlier device's cells); (3) discrete devices store, through the "
    "straight-through estimator, the table lookup of 1/eps (isotropic / diagonal) or of the inverted 3x3 tensor "
    "(full tier) at the integer material index; (4) dispersive coefficient stacks c1..c4: continuous devices "
    "blend (1-x) c_N[0] + x c_N[1] and discrete ones look up c_N[index], each N from its own table; (5) write "
    "footprint: outside the union of the device slices every array equals its incoming (restored) value, and "
    "with several devices the result is the sequential painting in device order.  All as polynomial identities "
    "in the region indicators of the devices.  The parameter transform chains that produce x, voxel expansion "
    "and the straight-through gradient are not decided here (C19 decides the latter)."
)

INIT = "fdtdx.fdtd.initialization"


def _gst(name):
    absint.INTEGER_ATOMS.update({f"{name}_{a}{s}" for a in "xyz" for s in ("min", "max")})
    return tuple((Rat.atom(f"{name}_{a}min"), Rat.atom(f"{name}_{a}max")) for a in "xyz")


def _region_idx(name, lead=1):
    return tuple([slice(None)] * lead) + tuple(slice(a, b) for a, b in _gst(name))


def _xarr(name):
    return getitem(scal(f"x_{name}"), tuple(slice(a, b) for a, b in _gst(name)))


class Scn:
    def __init__(self, ctx, eps_comps, disp=None):
        self.ctx = ctx
        self.ix = ctx.index
        self.it = ctx.fresh_interp()
        self.sc = Scene(self.ix, self.it)
        self.eps_comps = eps_comps
        self.disp = disp  # None or (poles, comps, coupling comps, with_c4)
        mod = self.ix.module(INIT)
        PT = self.it.lookup_global(mod, "ParameterType")
        self.CONT = self.it.getattr(PT, "CONTINUOUS")
        self.DISC = self.it.getattr(PT, "DISCRETE") if self._has(PT, "DISCRETE") else None
        if self.DISC is None:
            for cand in ("BINARY", "DISCRETE"):
                if self._has(PT, cand):
                    self.DISC = self.it.getattr(PT, cand)
        it = self.it
        stub_repo_calls(it, {"default_key": lambda it_, a, k: Rat.atom("key")})
        it.ext_overrides["np.linalg.inv"] = _inv3
        if disp:
            poles, comps, ccomps, _ = disp

            def allowed(it_, a, k):
                mats = k.get("materials", a[0] if a else None)
                m = len(mats)
                mk = lambda nm, c: NdArr((m, poles, c), [Rat.atom((nm, i, p, q)) for i in range(m) for p in range(poles) for q in range(c)])
                return mk("C1", comps), mk("C2", comps), mk("C3", ccomps), mk("C4", ccomps)

            stub_repo_calls(it, {"compute_allowed_dispersive_coefficients": allowed})

    def _has(self, PT, name):
        try:
            self.it.getattr(PT, name)
            return True
        except Exception:
            return False

    def device(self, name, kind, etch, mats):
        D = self.ix.cls("fdtdx.objects.device.device.Device")
        x = _xarr(name)
        return Obj(D, dict(name=name, materials=mats, output_type=(self.CONT if kind == "continuous" else self.DISC), use_etching=etch, _grid_slice_tuple=_gst(name), _config=self.sc.config(), __call__=Builtin("call", lambda it_, a, k, _x=x: _x)), name)

    def run(self, devices, initial=False):
        it, sc = self.it, self.sc
        objs = sc.objects(devices)
        kw = {}
        if initial:
            kw["initial_inv_permittivities"] = vec("ie_init", self.eps_comps)
        if self.disp:
            poles, comps, ccomps, with_c4 = self.disp
            mkd = lambda nm, c: NdArr((poles, c), [Rat.atom(("at", f"{nm}_{p}_{q}", (0, 0, 0), (0, 1, 2))) for p in range(poles) for q in range(c)], SP)
            kw.update(dispersive_c1=mkd("d1", comps), dispersive_c2=mkd("d2", comps), dispersive_c3=mkd("d3", ccomps), dispersive_c4=mkd("d4", ccomps) if with_c4 else None)
        arrays = sc.arrays(eps_comps=self.eps_comps, mu_comps=0, **kw)
        f = self.ix.function(f"{INIT}.apply_params")
        self.ctx.unit(f.where())
        loops = [n for n in ast.walk(f.node) if isinstance(n, ast.For) and "devices" in ast.unparse(n.iter) and ast.unparse(n.target) == "device"]
        if len(loops) != 1:
            raise AnalysisError("cannot locate the device loop of apply_params")
        it.stop_after.add(id(loops[0]))
        params = {d.attrs["name"]: Rat.atom(f"p_{d.attrs['name']}") for d in devices}
        try:
            it.call(it.closure_of(f), [arrays, objs, params], {})
            raise AnalysisError("apply_params returned before the end of the device loop")
        except StopAfter as s:
            found, out = s.env.lookup("arrays")
        except Raised as r:
            raise AnalysisError(f"apply_params raises on the scene: {r}")
        return arrays, out


def _inv3(it, a, k):
    from .c28 import _inv3 as inv

    m = a[0]
    if isinstance(m, NdArr) and m.shape == (3, 3) and not m.sp:
        vals = [to_rat(x) for x in m.data]
        if all(v.is_const() for v in vals):
            return NdArr((3, 3), list(inv([v.const_value() for v in vals])))
    raise AnalysisError("linalg.inv of a symbolic matrix")


def _cmp(ctx, rule, label, got: NdArr, want: NdArr, detail):
    bad = None
    if not (isinstance(got, NdArr) and got.shape == want.shape):
        bad = ("shape", getattr(got, "shape", got), want.shape)
    else:
        for k, (g, w) in enumerate(zip(got.data, want.data)):
            if not to_rat(g).equals(to_rat(w)):
                bad = bad or (k, to_rat(g).fmt()[:300], to_rat(w).fmt()[:300])
    ctx.ob(rule, label, bad is None, detail + (f" — entry {bad[0]} differs" if bad else ""), bad[1] if bad else f"{len(want.data)} components", bad[2] if bad else "oracle")


D = lambda a, b, c: (Fr(a), 0, 0, 0, Fr(b), 0, 0, 0, Fr(c))


def _mats(it, tier):
    if tier == 1:
        return {"hi": mk_material(it, permittivity=Fr(5)), "lo": mk_material(it, permittivity=Fr(2))}
    if tier == 3:
        return {"hi": mk_material(it, permittivity=D(5, 6, 7)), "lo": mk_material(it, permittivity=D(2, 4, 3))}
    return {"hi": mk_material(it, permittivity=(Fr(5), Fr(1), 0, Fr(1), Fr(6), 0, 0, 0, Fr(7))), "lo": mk_material(it, permittivity=D(2, 4, 3)), "mid": mk_material(it, permittivity=(Fr(3), 0, Fr(1, 2), 0, Fr(5), 0, Fr(1, 2), 0, Fr(4)))}


def _perm_table(mats, tier):
    """allowed permittivities in the common material order (ascending xx entry)"""
    order = sorted(mats, key=lambda n: to_rat(mats[n].attrs["permittivity"][0]).const_value())
    sel = {1: (0,), 3: (0, 4, 8), 9: tuple(range(9))}[tier]
    return [[to_rat(mats[n].attrs["permittivity"][k]).const_value() for k in sel] for n in order]


def _continuous(ctx):
    for tier in (1, 3):
        s = Scn(ctx, tier)
        mats = _mats(s.it, tier)
        arrays, out = s.run([s.device("D1", "continuous", False, mats)])
        tab = _perm_table(mats, tier)
        x = _xarr("D1")
        from ..ndarr import elementwise

        vals = [elementwise(lambda xv, _p0=tab[0][c], _p1=tab[1][c]: 1 / (_p0 + to_rat(xv) * (_p1 - _p0)), x, NdArr((), [0])) if False else x.map(lambda xv, _p0=tab[0][c], _p1=tab[1][c]: 1 / (_p0 + to_rat(xv) * (_p1 - _p0))) for c in range(tier)]
        new_slice = NdArr((tier,), [v.data[0] for v in vals], x.sp)
        want = at_update(arrays.attrs["inv_permittivities"], _region_idx("D1"), "set", new_slice)
        _cmp(ctx, "R18.1", f"apply_params[continuous,tier{tier}]", out.attrs["inv_permittivities"], want, "inside the device 1/(p0 + x (p1 - p0)) per component with p0 < p1 in the common material order; outside unchanged")


def _etched(ctx):
    for tier in (1, 3):
        s = Scn(ctx, tier)
        mats = {"etch": mk_material(s.it, permittivity=(Fr(7) if tier == 1 else D(7, 8, 9)))}
        arrays, out = s.run([s.device("D1", "continuous", True, mats)], initial=True)
        tab = _perm_table(mats, tier)
        x = _xarr("D1")
        init = arrays.attrs["initial_inv_permittivities"]
        bg_slice = getitem(init, _region_idx("D1"))
        new = NdArr((tier,), [1 / (1 / to_rat(bg_slice.data[c]) + to_rat(x.data[0]) * (tab[0][c] - 1 / to_rat(bg_slice.data[c]))) for c in range(tier)], x.sp)
        want = at_update(init, _region_idx("D1"), "set", new)
        _cmp(ctx, "R18.3", f"apply_params[etched,tier{tier}]", out.attrs["inv_permittivities"], want, "the initial inverse permittivity is restored first (the stale array never shows), then inside the device 1/(bg + x (p_etch - bg)) with bg = 1/initial")
    # several devices: sequential painting, the restore happens once
    for order in (("cont", "etch"), ("etch", "cont"), ("etch", "etch2")):
        s = Scn(ctx, 1)
        m2 = {"hi": mk_material(s.it, permittivity=Fr(5)), "lo": mk_material(s.it, permittivity=Fr(2))}
        me = {"etch": mk_material(s.it, permittivity=Fr(7))}
        me2 = {"etch": mk_material(s.it, permittivity=Fr(11))}
        devs = []
        for nm in order:
            if nm == "cont":
                devs.append(s.device("C", "continuous", False, m2))
            elif nm == "etch":
                devs.append(s.device("E", "continuous", True, me))
            else:
                devs.append(s.device("F", "continuous", True, me2))
        arrays, out = s.run(devs, initial=True)
        cur = arrays.attrs["initial_inv_permittivities"]
        for d in devs:
            nm = d.attrs["name"]
            x = to_rat(_xarr(nm).data[0])
            reg = _region_idx(nm)
            if d.attrs["use_etching"]:
                p = 7 if nm == "E" else 11
                bg = 1 / to_rat(getitem(cur, reg).data[0])
                new = 1 / (bg + x * (p - bg))
            else:
                new = 1 / (2 + x * (5 - 2))
            cur = at_update(cur, reg, "set", NdArr((1,), [new], _xarr(nm).sp))
        _cmp(ctx, "R18.3", f"apply_params[devices={'+'.join(order)}]", out.attrs["inv_permittivities"], cur, "devices are applied in list order on top of the once-restored background: a later (etched) device sees and keeps the cells written by an earlier one outside its own slice")


def _discrete(ctx):
    for tier in (1, 3, 9):
        s = Scn(ctx, tier)
        mats = _mats(s.it, tier)
        arrays, out = s.run([s.device("D1", "discrete", False, mats)])
        tab = _perm_table(mats, tier)
        if tier == 9:
            from .c28 import _inv3 as inv

            inv_tab = [list(inv(row)) for row in tab]
        else:
            inv_tab = [[1 / v for v in row] for row in tab]
        x = _xarr("D1")
        xi = to_rat(x.data[0])
        new = NdArr((tier,), [Rat.atom(("lookup", tuple(Rat.const(inv_tab[m][c]) for m in range(len(inv_tab))), xi)) for c in range(tier)], x.sp)
        want = at_update(arrays.attrs["inv_permittivities"], _region_idx("D1"), "set", new)
        got = out.attrs["inv_permittivities"]
        # value reading of the straight-through estimator: x - stop_gradient(x) + stop_gradient(y) == y
        got = got.map(_ste_value) if isinstance(got, NdArr) else got
        _cmp(ctx, "R18.4", f"apply_params[discrete,tier{tier}]", got, want, "inside the device the stored value is the table entry of the inverse permittivity (3x3 inverse in the full tier) at the integer material index, in the common material order")


def _ste_value(v):
    """frozen atoms (stop_gradient) read as their value"""
    r = to_rat(v)
    sub = {}
    for a in r.atoms():
        if isinstance(a, tuple) and a and a[0] in ("frozen", "sg") and len(a) == 2 and isinstance(a[1], Rat):
            sub[a] = a[1]
        elif isinstance(a, tuple) and a and a[0] == "call" and a[1] in ("stop_gradient", "frozen") and len(a) == 3 and isinstance(a[2], Rat):
            sub[a] = a[2]
    return r.subs(sub) if sub else r


def _dispersive(ctx):
    for kind, with_c4 in itertools.product(("continuous", "discrete"), (True, False)):
        s = Scn(ctx, 1, disp=(2, 1, 1, with_c4))
        mats = _mats(s.it, 1)
        arrays, out = s.run([s.device("D1", kind, False, mats)])
        x = to_rat(_xarr("D1").data[0])
        for N, key in ((1, "dispersive_c1"), (2, "dispersive_c2"), (3, "dispersive_c3"), (4, "dispersive_c4")):
            if N == 4 and not with_c4:
                ctx.ob("R18.4", f"apply_params[{kind},dispersive,no-c4]:c4", out.attrs.get(key) is None, "no c4 array is created when none was allocated", out.attrs.get(key), None)
                continue
            tabN = lambda m, p, q, _n=N: Rat.atom((f"C{_n}", m, p, q))
            if kind == "continuous":
                new = [(1 - x) * tabN(0, p, 0) + x * tabN(1, p, 0) for p in range(2)]
            else:
                new = [Rat.atom(("lookup", (tabN(0, p, 0), tabN(1, p, 0)), x)) for p in range(2)]
            want = at_update(arrays.attrs[key], _region_idx("D1", lead=2), "set", NdArr((2, 1), new, _xarr("D1").sp))
            got = out.attrs[key]
            _cmp(ctx, "R18.4", f"apply_params[{kind},dispersive{',c4' if with_c4 else ''}]:c{N}", got, want, f"c{N} inside the device comes from the c{N} table of the device's materials ({'(1-x) c[0] + x c[1]' if kind == 'continuous' else 'c[index]'}); outside unchanged")


def _etch_backup(ctx):
    """_init_arrays keeps a copy of the initial inverse permittivity whenever some device etches (apply_params restores
    it before every application — without it an etched device takes its own previous result as background)."""
    ix = ctx.index
    fi = ix.function("fdtdx.fdtd.initialization._init_arrays")
    ctx.unit(fi.where())
    FIELD = "initial_inv_permittivities"
    src = None
    for node in ast.walk(fi.node):
        if isinstance(node, ast.Call):
            for kw in node.keywords:
                if kw.arg == FIELD:
                    src = kw.value
    if not isinstance(src, ast.Name):
        raise AnalysisError(f"_init_arrays no longer passes {FIELD}=<name> to the array container")
    # backward slice over the top-level statements
    params = {"objects", "inv_permittivities"}  # inputs of the slice: their own definitions are not followed
    needed, chosen = {src.id}, []
    for st in reversed(fi.node.body):
        tg = set()
        if isinstance(st, ast.Assign):
            for t in st.targets:
                tg |= {n.id for n in ast.walk(t) if isinstance(n, ast.Name)}
        elif isinstance(st, ast.AnnAssign) and isinstance(st.target, ast.Name):
            tg = {st.target.id}
        if tg & (needed - params):
            chosen.append(st)
            needed -= tg
            needed |= {n.id for n in ast.walk(st.value) if isinstance(n, ast.Name) and isinstance(n.ctx, ast.Load)}
    chosen.reverse()
    comp_vars = set()
    for st in chosen:
        for n in ast.walk(st):
            if isinstance(n, ast.comprehension):
                comp_vars |= {m.id for m in ast.walk(n.target) if isinstance(m, ast.Name)}
    free = needed - params - comp_vars - {"jnp", "np", "jax", "any", "all", "len", "sum", "bool"}
    if free or not chosen:
        raise AnalysisError(f"_init_arrays: the value of {FIELD} depends on {sorted(free)} (expected: the devices and the material array only)")
    mi = ix.module("fdtdx.fdtd.initialization")
    rows, bad = [], []
    inv = NdArr((3,), [Rat.atom(("ie", c)) for c in range(3)], SP)
    for flags in ((), (False,), (True,), (False, False), (True, False), (False, True), (True, True), (False, True, False)):
        it = ctx.fresh_interp()
        devs = [Obj(None, {"use_etching": f, "name": f"dev{i}"}, f"dev{i}") for i, f in enumerate(flags)]
        env = absint.Env(parent=it.module_env(mi), vars={"objects": Obj(None, {"devices": devs}, "objects"), "inv_permittivities": inv})
        try:
            it.exec_block(chosen, env)
        except Raised as r:
            raise AnalysisError(f"_init_arrays: backup slice raises: {r}")
        found, v = env.lookup(src.id)
        has = found and isinstance(v, NdArr) and all(to_rat(a).equals(to_rat(b)) for a, b in zip(v.data, inv.data))
        none = found and v is None
        rows.append((flags, "copy" if has else ("None" if none else repr(v)[:40])))
        if any(flags) and not has:
            bad.append((flags, rows[-1][1]))
        if not any(flags) and not (none or has):
            bad.append((flags, rows[-1][1]))
    ctx.ob("R18.5", "_init_arrays:etch-backup", not bad, "the initial inverse permittivity is kept (an equal copy) whenever at least one device etches — also next to non-etched devices, in any list position", rows, "copy iff any device etches")


def run(ctx):
    _continuous(ctx)
    _etched(ctx)
    _etch_backup(ctx)
    _discrete(ctx)
    _dispersive(ctx)
    # the coefficient tables the devices index are in the same (common) material order as the permittivity table:
    # C35's row rule, evaluated here because "parameter -> material" means one material for all arrays of a cell
    from . import c35

    n0 = len(ctx.obligations)
    c35._material_rows(ctx)
    for o in ctx.obligations[n0:]:
        o.rule = "R18.6"
    ctx.require_count("C18", len(ctx.obligations), 25)
    ctx.trusted_base += ["prefix slicing of apply_params at the end of the device loop", "symbolic table lookup atoms for integer material indices", "indicator algebra for .at[device slice].set", "tree .at[name].set as functional attribute replacement"]
    ctx.assume("the device call returns the per-cell parameter on the simulation grid (transform chains and voxel expansion are outside this check)")
