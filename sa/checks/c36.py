"""C36 — dispersive cells follow their recurrence; zero-coefficient cells are non-dispersive; accepted passive media lie inside the coupled stability limit."""

from __future__ import annotations

import itertools

from ..index import AnalysisError
from ..kernel import clean, curl_oracle
from ..ndarr import NdArr, field_atom
from ..poly import Rat
from ..scene import SP, Scene
from ..values import Obj, Raised, to_rat
from .c01 import _eta0

LEVEL = "other"
EXPLANATION = (
    "Clause 1 of the property (a cell with all-zero pole coefficients evolves like the same cell without dispersion, "
    "and the stored polarisation follows the documented recurrence) is decided on update_E interpreted on symbolic "
    "fields: with two poles, isotropic or per-axis coefficient layouts, isotropic or diagonal permittivity, with and "
    "without conductivity, with and without the dE/dt (c4) coupling, the new polarisation is "
    "P' = c1 P + c2 P_prev + c3 E (+ c4 E'), the previous level becomes the current one, and the new field satisfies "
    "the discrete Ampere law with the polarisation current, (1+a) E' = (1-a) E + c inv_eps curl H - inv_eps sum_p "
    "(P'_p - P_p), a = c sigma eta0 inv_eps / 2, as a polynomial identity in all fields, coefficients and materials; "
    "with all coefficients zero and zero stored polarisation the step equals, component by component, the "
    "non-dispersive step of the same material (every conductivity case) and leaves the polarisation zero; the "
    "full-tensor kernel with dispersion reduces in the same way.  Clause 2 (accepted passive media stay bounded for "
    "10^4 steps) is a statement about the trajectory; what is decided is its acceptance side: (a) the coupled "
    "field / polarisation stability limit — from the verified recurrence the characteristic quartic of one Fourier "
    "mode satisfies D Q(-1) = 4 (4 - w0^2 dt^2 - inv_eps a dt^2) - kappa (4 - w0^2 dt^2); placement's screening "
    "function returns exactly the pair (sum_p a_p dt^2 / (eps_inf (4 - w0_p^2 dt^2)), 1 - (d/3) S^2 / (eps_inf mu)) "
    "whose order is the sign of Q(-1) at the largest curl eigenvalue, warns iff lhs > rhs, and is run by "
    "_init_arrays for every dispersive simulation with the simulation's time step and Courant factor; an exact "
    "Schur-Cohn reduction at 1536 rational points confirms all roots inside the unit circle within the limit and "
    "Q(-1) < 0 beyond it; (b) with C35's rules: both coefficient routines raise exactly when a coupled axis "
    "has omega_0 dt >= 2 (every path of the guard enumerated, per axis), the Jury margins of z^2 - c1 z - c2 are then "
    "non-negative, placement obtains its coefficient arrays only from those routines — and this check's identity, "
    "which shows that what is iterated is that recurrence."
)


def _disp(name, poles, comps):
    return NdArr((poles, comps), [field_atom(f"{name}{p}_{c}") for p in range(poles) for c in range(comps)], SP)


def _arrays(sc, eps_comps, sigma, coef_comps, c4, zero_coeffs=False, zero_P=False, dispersive=True, poles=2):
    fields = None
    kw = {}
    if dispersive:
        P = (lambda nm: NdArr((poles, 3), [0] * (poles * 3), SP)) if zero_P else (lambda nm: _disp(nm, poles, 3))
        fields = sc.fields(dispersive_P_curr=P("P"), dispersive_P_prev=P("Q"))
        mk = (lambda nm: NdArr((poles, coef_comps), [0] * (poles * coef_comps), SP)) if zero_coeffs else (lambda nm: _disp(nm, poles, coef_comps))
        kw = dict(dispersive_c1=mk("a"), dispersive_c2=mk("b"), dispersive_c3=mk("g"), dispersive_c4=(mk("k") if c4 else None))
    return sc.arrays(eps_comps=eps_comps, sigma_e=(eps_comps if sigma else None), fields=fields, **kw)


def _run(ctx, arrays_fn):
    ix = ctx.index
    f = ix.function("fdtdx.fdtd.update.update_E")
    it = ctx.fresh_interp()
    from .c02 import _solve

    it.ext_handlers["np.linalg.solve"] = _solve  # lossless full-tensor kernel: the left matrix is the identity
    sc = Scene(ix, it)
    eta0 = _eta0(ctx, it)
    arrays = arrays_fn(sc)
    try:
        out = it.call(it.closure_of(f), [Rat.atom("t"), arrays, sc.objects(), sc.config(), True], {})
    except Raised as r:
        raise AnalysisError(f"update_E raises on the symbolic dispersive scene: {r}")
    return arrays, out, eta0


def _recurrence(ctx, poles=2):
    f = ctx.index.function("fdtdx.fdtd.update.update_E")
    ctx.unit(f.where())
    curl = curl_oracle("H", "backward")
    c = Rat.atom("c")
    n = 0
    for eps_comps, sigma, coef_comps, c4 in itertools.product((1, 3), (False, True), (1, 3), (False, True)):
        arrays, out, eta0 = _run(ctx, lambda sc: _arrays(sc, eps_comps, sigma, coef_comps, c4, poles=poles))
        label = f"update_E[{poles} poles,eps {'iso' if eps_comps == 1 else 'diag'},{'lossy' if sigma else 'lossless'},coefficients {'iso' if coef_comps == 1 else 'per-axis'},{'c4' if c4 else 'no c4'}]"
        Enew = out.attrs["fields"].attrs["E"]
        Pnew = out.attrs["fields"].attrs["dispersive_P_curr"]
        Qnew = out.attrs["fields"].attrs["dispersive_P_prev"]
        if not (isinstance(Enew, NdArr) and Enew.shape == (3,) and isinstance(Pnew, NdArr) and Pnew.shape == (poles, 3) and isinstance(Qnew, NdArr) and Qnew.shape == (poles, 3)):
            ctx.ob("R36.1", label, False, "E of shape (3,), polarisation levels of shape (poles, 3)", (getattr(Enew, "shape", None), getattr(Pnew, "shape", None)), "(3,), (2, 3)")
            continue
        bad = None
        for i in range(3):
            ie = to_rat(field_atom(f"ie{i if eps_comps == 3 else 0}"))
            E = to_rat(field_atom(f"E{i}"))
            En = clean(Enew.data[i])
            a = c * to_rat(field_atom(f"se{i if eps_comps == 3 else 0}")) * eta0 * ie / 2 if sigma else Rat.const(0)
            dP = Rat.const(0)
            for p in range(poles):
                cc = i if coef_comps == 3 else 0
                P, Q = to_rat(field_atom(f"P{p}_{i}")), to_rat(field_atom(f"Q{p}_{i}"))
                want_P = to_rat(field_atom(f"a{p}_{cc}")) * P + to_rat(field_atom(f"b{p}_{cc}")) * Q + to_rat(field_atom(f"g{p}_{cc}")) * E
                if c4:
                    want_P = want_P + to_rat(field_atom(f"k{p}_{cc}")) * En
                got_P = clean(Pnew.data[p * 3 + i])
                if not got_P.equals(want_P):
                    bad = bad or (f"P'[pole {p}, component {i}]", got_P.fmt()[:240], want_P.fmt()[:240])
                if not clean(Qnew.data[p * 3 + i]).equals(P):
                    bad = bad or (f"P_prev'[pole {p}, component {i}]", clean(Qnew.data[p * 3 + i]).fmt()[:120], P.fmt())
                dP = dP + got_P - P
            resid = (1 + a) * En - (1 - a) * E - c * ie * curl[i] + ie * dP
            if not resid.is_zero():
                bad = bad or (f"Ampere residual, component {i}", resid.fmt()[:260], "0")
        n += 1
        ctx.ob("R36.1", label, bad is None, "P' = c1 P + c2 P_prev + c3 E (+ c4 E'), P_prev' = P, and (1+a) E' = (1-a) E + c inv_eps curl H - inv_eps sum_p (P'_p - P_p) with a = c sigma eta0 inv_eps / 2 — identically in all symbols" + (f" — fails for {bad[0]}" if bad else ""), bad[1] if bad else f"3 components, {poles} poles", bad[2] if bad else "documented recurrence + discrete Ampere law")
    ctx.require_count("R36.1 recurrence cases", n, 16)


def _zero_coefficients(ctx):
    n = 0
    for eps_comps, sigma, coef_comps, c4 in itertools.product((1, 3, 9), (False, True), (1, 3), (False, True)):
        if eps_comps == 9 and (c4 or sigma):
            continue  # the full-tensor kernel rejects c4 poles at initialisation; its lossy solve is not modelled
        _, ref, _ = _run(ctx, lambda sc: _arrays(sc, eps_comps, sigma, coef_comps, False, dispersive=False))
        _, out, _ = _run(ctx, lambda sc: _arrays(sc, eps_comps, sigma, 3 if eps_comps == 9 and coef_comps == 3 else coef_comps, c4, zero_coeffs=True, zero_P=True))
        label = f"update_E[eps {({1: 'iso', 3: 'diag', 9: 'full'})[eps_comps]},{'lossy' if sigma else 'lossless'},coefficients {'iso' if coef_comps == 1 else 'per-axis'},{'c4' if c4 else 'no c4'}]:zero-poles"
        En, Er = out.attrs["fields"].attrs["E"], ref.attrs["fields"].attrs["E"]
        same = isinstance(En, NdArr) and isinstance(Er, NdArr) and En.shape == Er.shape and all(clean(x).equals(clean(y)) for x, y in zip(En.data, Er.data))
        P, Q = out.attrs["fields"].attrs["dispersive_P_curr"], out.attrs["fields"].attrs["dispersive_P_prev"]
        still = isinstance(P, NdArr) and isinstance(Q, NdArr) and all(to_rat(clean(x)).is_zero() for x in list(P.data) + list(Q.data))
        n += 1
        ctx.ob("R36.2", label, same and still, "with all pole coefficients zero (and no stored polarisation) the new E equals the non-dispersive update of the same material, component by component, and the polarisation stays zero", dict(E_equal=same, P_zero=still), "non-dispersive step")
    ctx.require_count("R36.2 zero-coefficient cases", n, 17)


def _acceptance(ctx):
    """What placement accepts has its polarisation recurrence inside the unit circle (rules shared with C35)."""
    import ast

    from . import c35

    ix = ctx.index
    for fname, oriented in (("compute_pole_coefficients_tensor", False), ("compute_pole_coefficients_per_axis", False)):
        oks, raises = c35._explore(ctx, fname, c35._pole(ix, oriented))
        c35._guard_semantics(ctx, fname, oks, raises, rule="R36.3")
    c35._jury(ctx, rule="R36.3")
    # every placement-side producer of pole coefficients goes through a guarded routine
    guarded = {"compute_pole_coefficients_tensor", "compute_pole_coefficients_per_axis", "compute_pole_coefficients"}
    callers = {}
    for mi in ix.modules.values():
        for fi in mi.functions.values():
            for node in ast.walk(fi.node):
                if isinstance(node, ast.Call):
                    nm = ast.unparse(node.func).split(".")[-1]
                    if nm in guarded:
                        callers.setdefault(f"{mi.name}.{fi.name}", set()).add(nm)
    want = {"fdtdx.materials.compute_allowed_dispersive_coefficients": {"compute_pole_coefficients_tensor"}, "fdtdx.fdtd.initialization._init_arrays": {"compute_pole_coefficients_tensor"}}
    placement = {k: v for k, v in callers.items() if not k.startswith("fdtdx.dispersion.")}
    ok = all(placement.get(k) == v for k, v in want.items()) and callers.get("fdtdx.dispersion.compute_pole_coefficients") == {"compute_pole_coefficients_per_axis"}
    ctx.ob("R36.3", "pole-coefficient producers", ok, "the coefficient arrays painted at placement (device tables and uniform objects alike) come from compute_pole_coefficients_tensor, and the scalar convenience routine delegates to the guarded per-axis one", {k: sorted(v) for k, v in callers.items()}, {k: sorted(v) for k, v in want.items()})


def run_thorough(ctx):
    _recurrence(ctx, poles=1)
    _recurrence(ctx, poles=4)


def _tier_selection(ctx):
    """The one-component (isotropic) coefficient tier keeps only the x column, so it may be chosen only for poles whose
    four per-axis parameters are all uniform: Pole.is_isotropic must say exactly that."""
    import itertools as _it
    from fractions import Fraction as Fr

    ix = ctx.index
    P = ix.cls("fdtdx.dispersion.Pole")
    m = P.lookup_method("is_isotropic")
    ctx.unit(m.where())
    it = ctx.fresh_interp()
    names = ("omega_0_axes", "gamma_axes", "coupling_sq_axes", "coupling_edot_axes")
    bad = []
    n = 0
    for pattern in _it.product((True, False), repeat=4):
        for oriented in (False, True):
            vals = {nm: ((Fr(2), Fr(2), Fr(2)) if uni else (Fr(2), Fr(2), Fr(3))) for nm, uni in zip(names, pattern)}
            o = Obj(P, dict(vals, orientation=((1, 0, 0), (0, 1, 0), (0, 0, 1)) if oriented else None), "pole")
            got = it.getattr(o, "is_isotropic")
            want = all(pattern) and not oriented
            n += 1
            if bool(got) is not want:
                bad.append((dict(zip(names, pattern)), oriented, got))
    ctx.ob("R36.4", "fdtdx.dispersion.Pole.is_isotropic", not bad and n == 32, "a pole counts as isotropic exactly when it is not oriented and its resonance, damping, field coupling and dE/dt coupling are each the same on the three axes (32 combinations) — only then may the one-component coefficient tier, which keeps the x column, stand for all three axes", bad[:3], "all four uniform and not oriented")
    # the tier choice itself consults that predicate
    import ast

    f = ix.function("fdtdx.materials.compute_allowed_dispersive_coefficients")
    src = ast.unparse(f.node)
    guards = [st for st in ast.walk(f.node) if isinstance(st, ast.If) and "num_components == 1" in ast.unparse(st.test) and "has_isotropic_dispersion" in ast.unparse(st.test) and any(isinstance(x, ast.Raise) for x in ast.walk(st))]
    ctx.ob("R36.4", "compute_allowed_dispersive_coefficients:tier-guard", len(guards) >= 1, "keeping a single coefficient column is refused for a material whose dispersion is not isotropic", len(guards), ">= 1 raising guard")


def _painting_siblings(ctx):
    """The four coefficient arrays of a pole are painted by the same operation: within one placement loop the
    statements that update dispersive_c1 .. c4 are identical up to the digit (reused temporaries such as `diff`
    inlined).  A coefficient that is accumulated where its siblings are overwritten leaves c1 and c2 from
    different materials in one cell — a recurrence nobody validated."""
    import ast
    import re

    ix = ctx.index
    n_groups = 0
    bad = []
    for fname in ("_init_arrays", "apply_params"):
        fi = ix.function(f"fdtdx.fdtd.initialization.{fname}")
        ctx.unit(fi.where())
        groups = []  # statement lists; an `if` about the optional c4 array does not open a new group

        def collect(body, cur):
            for st in body:
                if isinstance(st, ast.If):
                    if re.search(r"c4", ast.unparse(st.test)):
                        collect(st.body, cur)
                        collect(st.orelse, cur)
                    else:
                        cur.append(st)
                        for branch in (st.body, st.orelse):
                            g = []
                            groups.append(g)
                            collect(branch, g)
                elif isinstance(st, (ast.For, ast.While, ast.With)):
                    g = []
                    groups.append(g)
                    collect(st.body, g)
                else:
                    cur.append(st)

        top = []
        groups.append(top)
        collect(fi.node.body, top)
        for stmts in groups:
            counts = {}
            for st in stmts:
                if isinstance(st, ast.Assign) and len(st.targets) == 1 and isinstance(st.targets[0], ast.Name):
                    counts[st.targets[0].id] = counts.get(st.targets[0].id, 0) + 1
            temps = {nm for nm, c in counts.items() if c > 1 and not re.fullmatch(r"dispersive_c[1-4]", nm)}
            last = {}
            forms = {}
            for st in stmts:
                if not (isinstance(st, ast.Assign) and len(st.targets) == 1 and isinstance(st.targets[0], ast.Name)):
                    continue
                tgt = st.targets[0].id
                if tgt in temps:
                    last[tgt] = st.value
                    continue
                self_update = isinstance(st.value, ast.Call) and st.value.args and isinstance(st.value.args[0], ast.Name) and st.value.args[0].id == tgt
                if re.fullmatch(r"dispersive_c[1-4]", tgt) and self_update:  # an update of the array (allocations differ legitimately in shape)
                    class Inl(ast.NodeTransformer):
                        def visit_Name(self, node):
                            if node.id in last and isinstance(node.ctx, ast.Load):
                                return last[node.id]
                            return node

                    import copy

                    expr = ast.unparse(Inl().visit(copy.deepcopy(st.value)))
                    norm = re.sub(r"(?<![A-Za-z0-9])c[1-4](?![0-9])|_c[1-4](?![0-9])", lambda m_: m_.group(0)[:-1] + "K", expr)
                    norm = re.sub(r"coupling_slice_shape|slice_shape", "SHAPE", norm)
                    forms.setdefault(norm, []).append((tgt, st.lineno))
            if sum(len(v) for v in forms.values()) >= 3:
                n_groups += 1
                if len(forms) != 1:
                    major = max(forms.values(), key=len)
                    for norm, sites in forms.items():
                        if sites is not major:
                            bad.append((fname, [t for t, _ in sites], norm[:160]))
    ctx.ob("R36.5", "fdtdx.fdtd.initialization:pole-coefficient painting", not bad and n_groups >= 2, "in every placement loop the statements that paint dispersive_c1 .. c4 have one and the same form up to the coefficient's digit (temporaries inlined): all four are overwritten inside the object's mask, none is accumulated", bad[:3], f"{n_groups} groups, one form each")


# ------------------------------------------------------------------ zero-coefficient cells next to an oriented-pole medium
def _vacuum_next_to_oriented_medium(ctx):
    """Full-tensor kernel with a 3x3 coupling per pole (oriented poles) on a concrete 3x2x2 grid: the cells x < 2 carry
    free coefficient symbols, the cells x = 2 have all coefficients literally zero.  In those cells the new
    polarisation must be zero whatever the neighbours hold (the spatially averaged off-diagonal coupling must not
    reach into a cell that has no pole), and in the medium it must be the documented recurrence."""
    from .. import absint
    from . import c09

    ix = ctx.index
    shape = (3, 2, 2)
    cells = list(itertools.product(*[range(n) for n in shape]))
    in_medium = lambda p: p[0] < 2
    it, sc, objs, cfg, _ = c09._supercell_scene(ctx, shape, (False, False, False), (0, 0, 0), None)

    def nonzero_coeff(op, d):
        ats = d.atoms()
        if len(ats) == 1:
            (a,) = ats
            if isinstance(a, tuple) and a and a[0] in ("g", "a", "b") and (d - Rat.atom(a)).is_zero():
                return {"eq": False, "ne": True}.get(op)
        return None

    absint.COMPARE_ORACLES.append(nonzero_coeff)
    try:
        def tab(name, comps):
            return NdArr((1, comps) + shape, [(Rat.atom((name, c) + p) if in_medium(p) else 0) for c in range(comps) for p in cells])

        E, H = c09._sym_arr("E", 3, shape), c09._sym_arr("H", 3, shape)
        ie = NdArr((9,) + shape, [(Rat.atom(("ie", c) + p) if (in_medium(p) or c in (0, 4, 8)) else 0) for c in range(9) for p in cells])
        P0 = NdArr((1, 3) + shape, [Rat.atom(("P", c) + p) if in_medium(p) else 0 for c in range(3) for p in cells])
        Q0 = NdArr((1, 3) + shape, [Rat.atom(("Q", c) + p) if in_medium(p) else 0 for c in range(3) for p in cells])
        fields = sc.fields(E=E, H=H, dispersive_P_curr=P0, dispersive_P_prev=Q0)
        arrays = sc.arrays(fields=fields, inv_permittivities=ie, inv_permeabilities=c09._sym_arr("im", 3, shape), detector_states={}, dispersive_c1=tab("a", 3), dispersive_c2=tab("b", 3), dispersive_c3=tab("g", 9), dispersive_c4=None)
        f = ix.function("fdtdx.fdtd.update.update_E")
        try:
            out = it.call(it.closure_of(f), [0, arrays, objs, cfg, True], {})
        except Raised as r:
            raise AnalysisError(f"update_E raises on the oriented-pole scene: {r}")
    finally:
        absint.COMPARE_ORACLES.remove(nonzero_coeff)
    Pn = out.attrs["fields"].attrs["dispersive_P_curr"]
    if not (isinstance(Pn, NdArr) and Pn.shape == (1, 3) + shape):
        raise AnalysisError(f"update_E: polarisation of shape {getattr(Pn, 'shape', Pn)}")
    leak, n_vac, n_med, wrong = [], 0, 0, []
    for c in range(3):
        for k_, p in enumerate(cells):
            v = to_rat(Pn.data[c * len(cells) + k_])
            if not in_medium(p):
                n_vac += 1
                if not v.is_zero():
                    leak.append((f"P_{'xyz'[c]} at cell {p}", v.fmt()[:160]))
            else:
                n_med += 1
                # the part of P' that does not involve the field: c1 P + c2 P_prev (the coupling is linear in E)
                rest = v.subs({a: Rat.const(0) for a in v.atoms() if isinstance(a, tuple) and a and a[0] == "E"})
                want = Rat.atom(("a", c) + p) * Rat.atom(("P", c) + p) + Rat.atom(("b", c) + p) * Rat.atom(("Q", c) + p)
                if not rest.equals(want):
                    wrong.append((f"P_{'xyz'[c]} at cell {p}", rest.fmt()[:120], want.fmt()[:120]))
    ctx.ob("R36.7", "update_E[full tensor, 3x3 pole coupling]:zero-coefficient cells", not leak and n_vac == 12, "in a cell whose pole coefficients are all zero the new polarisation is zero even when the neighbouring cells carry oriented poles: the averaged off-diagonal coupling is weighted by the cell's own coefficients / material mask on both terms", leak[:3], "0 in every such cell")
    ctx.ob("R36.7", "update_E[full tensor, 3x3 pole coupling]:history terms", not wrong and n_med == 24, "in the medium the field-independent part of the new polarisation is c1 P + c2 P_prev of the same cell", wrong[:2], "c1 P + c2 P_prev")


# ------------------------------------------------------------------ coupled field / polarisation stability limit
def _schur_stable(coefs):
    """exact Schur-Cohn / Jury reduction: every root of sum coefs[k] z^k (rational coefficients) lies strictly inside
    the unit circle"""
    from fractions import Fraction

    a = [Fraction(c) for c in coefs]
    while len(a) > 1 and a[-1] == 0:
        a.pop()
    while len(a) > 1:
        a0, an = a[0], a[-1]
        if not abs(a0) < abs(an):
            return False
        rev = a[::-1]
        b = [an * x - a0 * y for x, y in zip(a, rev)]  # b[0] == 0
        a = b[1:]
    return True


def _quartic(c1, c2, c3, alpha, kappa):
    """coefficients (ascending) of Q(z) = (z-1)^2 (z^2 - (c1 - alpha c3) z - c2) + kappa z (z^2 - c1 z - c2): the
    characteristic polynomial of one Fourier mode of the step R36.1 describes (P' = c1 P + c2 P_prev + c3 E,
    E' = E + alpha (c curl H - (P' - P)), H' = H - c inv_mu curl E') with kappa = alpha inv_mu c^2 |curl symbol|^2"""
    q1 = [-c2, -(c1 - alpha * c3), 1]
    q2 = [-c2, -c1, 1]
    sq = [1, -2, 1]
    out = [0] * 5
    for i, x in enumerate(sq):
        for j, y in enumerate(q1):
            out[i + j] = out[i + j] + x * y
    for j, y in enumerate(q2):
        out[j + 1] = out[j + 1] + kappa * y
    return out


def _coupled_stability(ctx):
    """Clause 2, acceptance side: a passive Lorentz / Drude medium that placement accepts without error or warning lies
    inside the stability region of the coupled recurrence at the grid's shortest wavelength."""
    import ast
    from fractions import Fraction as Fr

    from ..harness import stub_repo_calls
    from ..values import Builtin
    from . import c35

    ix = ctx.index
    DT = c35.DT
    F = c35._forms("x")  # the coefficient formulas, confirmed against the code by R35.1 / R36.3
    w, g, a, D = F["w"], F["g"], F["a"], F["D"]
    c1, c2 = F["c1"], F["c2"]
    c3 = a * DT * DT / D  # Lorentz / Drude: no dE/dt coupling
    ie, kappa = Rat.atom("ie"), Rat.atom("kappa")
    Q = _quartic(c1, c2, c3, ie, kappa)
    Qm1 = sum(((-1) ** k * to_rat(c) for k, c in enumerate(Q)), Rat.const(0))
    margin = 4 * (4 - w * w * DT * DT - ie * a * DT * DT) - kappa * (4 - w * w * DT * DT)
    ctx.ob("R36.6", "coupled-recurrence:z=-1 margin", (Qm1 * D).equals(margin), "for the characteristic quartic of one Fourier mode of the verified step, D Q(-1) = 4 (4 - w0^2 dt^2 - inv_eps a dt^2) - kappa (4 - w0^2 dt^2), independent of the damping: a negative value puts a real root below -1 (Q -> +inf at -inf), i.e. exponential growth of the shortest wavelength", (Qm1 * D).fmt()[:200], margin.fmt()[:200])
    # courant_number^2 = courant_factor^2 / 3 (kappa_max = 4 d c^2 inv_eps inv_mu over d active axes)
    it = ctx.fresh_interp()
    cn = it.call_method(Obj(ix.cls("fdtdx.config.SimulationConfig"), dict(courant_factor=Rat.atom("S")), "config"), "courant_number") if False else None
    cfg_cls = ix.cls("fdtdx.config.SimulationConfig")
    prop = cfg_cls.lookup_method("courant_number")
    ctx.unit(prop.where())
    cn = it.getattr(Obj(cfg_cls, dict(courant_factor=Rat.atom("S")), "config"), "courant_number")
    from ..poly import normalise_sqrt

    ok_cn = normalise_sqrt(to_rat(cn) * to_rat(cn) * 3 - Rat.atom("S") * Rat.atom("S")).is_zero()
    ctx.ob("R36.6", "SimulationConfig.courant_number", ok_cn, "courant_number^2 = courant_factor^2 / 3, so the largest curl-curl eigenvalue seen by a cell is kappa_max = (4 d / 3) S^2 inv_eps inv_mu over d axes with more than one cell", to_rat(cn).fmt(), "S / sqrt 3")

    # the screening function
    try:
        fm = ix.function("fdtdx.materials._coupled_stability_margin")
        fv = ix.function("fdtdx.materials.validate_dispersive_coupled_stability")
    except Exception:
        fm = fv = None
    witness = "e.g. a Drude pole with omega_p dt = 1/2, eps_inf = mu = 1, courant_factor 99/100, d = 3: D Q(-1) = 4 (4 - 1/4) - (4 * 9801/10000) * 4 = -0.68 < 0"
    if fm is None or fv is None:
        ctx.ob("R36.6", "placement:coupled-stability screening", False, "placement screens Lorentz / Drude materials against the stability limit of the explicit polarisation coupling; without it media are accepted silently whose shortest wavelength grows without bound — " + witness, "no screening function", "warning when lhs > rhs")
        return
    ctx.unit(fm.where())
    ctx.unit(fv.where())
    P = ix.cls("fdtdx.dispersion.Pole")
    eps, mu, S, d = Rat.atom("eps"), Rat.atom("mu"), Rat.atom("S"), Rat.atom("d")
    npoles = 2
    poles = [Obj(P, dict(omega_0_axes=(Rat.atom(f"w{i}"),) * 3, coupling_sq_axes=(Rat.atom(f"a{i}"),) * 3, coupling_edot_axes=(0, 0, 0), gamma_axes=(Rat.atom(f"g{i}"),) * 3, is_oriented=False, orientation=None), f"pole{i}") for i in range(npoles)]
    z9 = lambda v: (v, 0, 0, 0, v, 0, 0, 0, v)
    mat = Obj(ix.cls("fdtdx.materials.Material"), dict(permittivity=z9(eps), permeability=z9(mu), dispersion=Obj(None, dict(poles=tuple(poles), is_isotropic=True), "dispersion"), is_all_isotropic=True), "material")
    outs = []
    it = ctx.fresh_interp()
    it.ext_overrides["min"] = lambda it_, a_, k_: a_[0] if all(to_rat(x).equals(to_rat(a_[0])) for x in a_) else NotImplemented
    for path, out in it.explore(lambda: it.call(it.closure_of(fm), [mat, DT, S, d], {})):
        if out[0] != "ok":
            raise AnalysisError(f"_coupled_stability_margin raises on a symbolic isotropic material: {out[1]}")
        t = c35._path_truth(path)
        outs.append((t, out[1]))
    # the path on which every pole couples (a_i != 0)
    full = [o for t, o in outs if all(v is False for k, v in t.items() if "eq" in repr(k)) or len(outs) == 1]
    want_l = sum((Rat.atom(f"a{i}") * DT * DT / (eps * (4 - Rat.atom(f"w{i}") * Rat.atom(f"w{i}") * DT * DT)) for i in range(npoles)), Rat.const(0))
    want_r = 1 - (d / 3) * S * S / (eps * mu)
    good = [o for o in (x[1] for x in outs) if isinstance(o, tuple) and len(o) == 3 and to_rat(o[0]).equals(want_l) and to_rat(o[1]).equals(want_r)]
    ctx.ob("R36.6", "fdtdx.materials._coupled_stability_margin", len(good) >= 1, "for a material with several poles the margin function returns lhs = sum_p a_p dt^2 / (eps_inf (4 - w0_p^2 dt^2)) and rhs = 1 - (d/3) S^2 / (eps_inf mu) on the path where every pole couples", [(to_rat(o[1][0]).fmt()[:120], to_rat(o[1][1]).fmt()[:120]) for o in outs[:2]], (want_l.fmt()[:120], want_r.fmt()))
    # criterion <=> sign of the z = -1 margin at kappa_max (one pole; the sum over poles enters Q(-1) additively)
    l1 = a * DT * DT / (eps * (4 - w * w * DT * DT))
    km = (4 * d / 3) * S * S / (eps * mu)
    m_at = margin.subs({"ie": 1 / eps, "kappa": km})
    ctx.ob("R36.6", "criterion == z=-1 margin at kappa_max", m_at.equals(4 * (4 - w * w * DT * DT) * (want_r - l1)), "D Q(-1) at the largest curl-curl eigenvalue equals 4 (4 - w0^2 dt^2) (rhs - lhs); 4 - w0^2 dt^2 > 0 is the guard of R36.3, so lhs > rhs is exactly Q(-1) < 0", m_at.fmt()[:160], "4 (4 - w0^2 dt^2) (rhs - lhs)")
    # the validator warns exactly when lhs > rhs
    it = ctx.fresh_interp()
    calls, warned = [], []

    def margin_stub(it_, a_, k_, _c=calls):
        _c.append(1)
        return (Rat.atom("LHS"), Rat.atom("RHS"), 0) if len(_c) == 1 else (0, 1, 0)

    stub_repo_calls(it, {"_coupled_stability_margin": margin_stub})
    it.ext_overrides["warnings.warn"] = lambda it_, a_, k_, _w=warned: _w.append(a_[0] if a_ else None)
    it.ext_overrides["math.log10"] = lambda it_, a_, k_: 0
    it.ext_overrides["math.floor"] = lambda it_, a_, k_: 0
    disp = Obj(None, dict(poles=tuple(poles), is_isotropic=True), "dispersion")
    mats = {"slab": Obj(ix.cls("fdtdx.materials.Material"), dict(dispersion=disp, is_all_isotropic=True), "material"), "plain": Obj(ix.cls("fdtdx.materials.Material"), dict(dispersion=None), "plain")}
    verdicts = []
    for path, out in it.explore(lambda: (warned.clear(), calls.clear(), it.call(it.closure_of(fv), [mats, DT, Fr(99, 100)], {}), list(warned))[-1]):
        if out[0] != "ok":
            raise AnalysisError(f"validate_dispersive_coupled_stability raises: {out[1]}")
        verdicts.append((len(path), len(out[1])))
    one_decision = sorted(verdicts) == [(1, 0), (1, 1)]
    direction = {}
    for tag, pair in (("beyond", (2, 1)), ("at the limit", (1, 1)), ("inside", (1, 2))):
        it = ctx.fresh_interp()
        calls2, warned2 = [], []
        stub_repo_calls(it, {"_coupled_stability_margin": lambda it_, a_, k_, _c=calls2, _p=pair: (_c.append(1), ((_p[0], _p[1], 0) if len(_c) == 1 else (0, 1, 0)))[1]})
        it.ext_overrides["warnings.warn"] = lambda it_, a_, k_, _w=warned2: _w.append(1)
        it.ext_overrides["math.log10"] = lambda it_, a_, k_: 0
        it.ext_overrides["math.floor"] = lambda it_, a_, k_: 0
        try:
            it.call(it.closure_of(fv), [mats, DT, Fr(99, 100)], {})
        except Raised as r:
            raise AnalysisError(f"validate_dispersive_coupled_stability raises: {r}")
        direction[tag] = len(warned2)
    ctx.ob("R36.6", "validate_dispersive_coupled_stability:warns-iff-beyond", one_decision and direction == {"beyond": 1, "at the limit": 0, "inside": 0}, "the validator's outcome depends on exactly one comparison of the margin pair: one warning when lhs > rhs, silence when lhs <= rhs; materials without dispersion are skipped", dict(paths=verdicts, direction=direction), "one decision; warn iff lhs > rhs")
    # wiring: _init_arrays calls the validator for every simulation with dispersive poles
    fi = ix.function("fdtdx.fdtd.initialization._init_arrays")
    site = None
    for st in fi.node.body:
        for node in ast.walk(st):
            if isinstance(node, ast.Call) and ast.unparse(node.func).split(".")[-1] == "validate_dispersive_coupled_stability":
                site = (st, node)
    okw, detail = False, "no call"
    if site is not None:
        from .. import absint
        from ..harness import backward_slice

        st, node = site
        # evaluate the call's arguments — through whatever local names they go — on a mock configuration
        inputs = {"config", "objects", "volume_shape", "num_dispersive_poles"}
        used = {n.id for k in node.keywords for n in ast.walk(k.value) if isinstance(n, ast.Name)} | {n.id for a_ in node.args for n in ast.walk(a_) if isinstance(n, ast.Name)}
        # statements that can define them: the function's top level up to the call, then the enclosing block up to it
        scope = []
        for top in fi.node.body:
            if top is st:
                break
            scope.append(top)
        if isinstance(st, ast.If):
            for inner in st.body:
                if node in list(ast.walk(inner)):
                    break
                scope.append(inner)
        stmts, free = backward_slice(fi.node, used, inputs, body=scope)
        mi_ = ix.module("fdtdx.fdtd.initialization")
        it = ctx.fresh_interp()
        comp = {m.id for n in ast.walk(node) if isinstance(n, ast.comprehension) for m in ast.walk(n.target) if isinstance(m, ast.Name)}
        free = {n for n in free if n not in comp and ix.resolve_name(mi_, n) is None and n not in ("sum", "len", "int", "float", "tuple", "list", "any", "all", "max", "min", "range")}
        cond = ast.unparse(st.test) if isinstance(st, ast.If) else "unconditional"
        vals = {}
        if not free:
            labelled = Obj(None, {}, "labelled materials")
            stub_repo_calls(it, {"_collect_labeled_materials": lambda it_, a_, k_: labelled if a_ and a_[0] is objs_mock else "other"})
            objs_mock = Obj(None, {}, "objects")
            cfg = Obj(None, dict(time_step_duration=Rat.atom("DTc"), courant_factor=Rat.atom("Sc"), courant_number=Rat.atom("CNc"), time_steps_total=Rat.atom("Tc")), "config")
            env = absint.Env(parent=it.module_env(mi_), vars={"config": cfg, "objects": objs_mock, "volume_shape": (8, 8, 1), "num_dispersive_poles": 2})
            try:
                it.exec_block(stmts, env)
                vals = {k.arg: it.eval(k.value, env) for k in node.keywords}
                vals["__args__"] = [it.eval(a_, env) for a_ in node.args]
            except Raised as r:
                raise AnalysisError(f"_init_arrays: the screening call's arguments raise: {r}")
            if isinstance(st, ast.If):
                tv = []
                for n_p in (0, 1, 3):
                    env2 = absint.Env(parent=it.module_env(mi_), vars={"config": cfg, "objects": objs_mock, "volume_shape": (8, 8, 1), "num_dispersive_poles": n_p})
                    it.exec_block(backward_slice(fi.node, {n.id for n in ast.walk(st.test) if isinstance(n, ast.Name)}, inputs)[0], env2)
                    tv.append(bool(it.eval(st.test, env2)))
                cond_ok = tv in ([False, True, True], [True, True, True])
            else:
                cond_ok = True
            mats_arg = vals.get("materials", vals["__args__"][0] if vals.get("__args__") else None)
            dt_arg = vals.get("dt", vals["__args__"][1] if len(vals.get("__args__", [])) > 1 else None)
            s_arg = vals.get("courant_factor", vals["__args__"][2] if len(vals.get("__args__", [])) > 2 else None)
            okw = cond_ok and mats_arg is labelled and dt_arg is not None and to_rat(dt_arg).equals(Rat.atom("DTc")) and s_arg is not None and to_rat(s_arg).equals(Rat.atom("Sc"))
        detail = dict(condition=cond, free_names=sorted(free), arguments={k: (to_rat(v).fmt() if isinstance(v, (Rat, int)) else type(v).__name__) for k, v in vals.items() if k != "__args__"})
    ctx.ob("R36.6", "_init_arrays:coupled-stability screening", okw, "placement runs the screening on every labelled material whenever the simulation has dispersive poles, with the simulation's own time step and Courant factor — " + ("" if okw else witness), detail, "validate_dispersive_coupled_stability(_collect_labeled_materials(objects), dt=config.time_step_duration, courant_factor=config.courant_factor, ...)")
    # the active-axes argument counts the axes with more than one cell
    if site is not None:
        naa = {k.arg: k.value for k in site[1].keywords}.get("num_active_axes")
        if naa is not None:
            from .. import absint
            from ..harness import backward_slice

            vals = {}
            for shp in ((8, 8, 8), (8, 8, 1), (1, 5, 1), (1, 1, 1), (2, 1, 2)):
                env = absint.Env(parent=it.module_env(ix.module("fdtdx.fdtd.initialization")), vars={"volume_shape": shp})
                it.exec_block(backward_slice(fi.node, {n.id for n in ast.walk(naa) if isinstance(n, ast.Name)}, {"volume_shape", "config", "objects"})[0], env)
                vals[shp] = it.eval(naa, env)
            ctx.ob("R36.6", "_init_arrays:active-axes", all(int(v) == sum(1 for n in shp if n > 1) for shp, v in vals.items()), "d passed to the screening is the number of grid axes with more than one cell (a shortest wavelength exists only along those)", vals, "count of axes with n > 1")
    # exact root location at rational sample points on both sides of the limit (Schur-Cohn reduction on Q)
    bad, n = [], 0
    for wd, gd, S_, eps_, dd in itertools.product((Fr(0), Fr(1, 2), Fr(1), Fr(19, 10)), (Fr(1, 100), Fr(1, 2)), (Fr(1, 2), Fr(9, 10), Fr(99, 100)), (Fr(1), Fr(2)), (3, 2)):
        rhs = 1 - Fr(dd, 3) * S_ * S_ / eps_
        kmax = Fr(4 * dd, 3) * S_ * S_ / eps_
        for ratio in (Fr(1, 2), Fr(19, 20), Fr(21, 20), Fr(2)):
            A = ratio * rhs * eps_ * (4 - wd * wd)  # a dt^2 with lhs = ratio * rhs
            Dv = 1 + gd / 2
            c1v, c2v, c3v = (2 - wd * wd) / Dv, -(1 - gd / 2) / Dv, A / Dv
            for frac in (Fr(1, 4), Fr(1, 2), Fr(3, 4), Fr(1)):
                q = _quartic(c1v, c2v, c3v, 1 / eps_, frac * kmax)
                n += 1
                if sum(q) == 0:  # Drude: z = 1 is a simple root (a constant polarisation offset); deflate it
                    d_, acc = [], Fr(0)
                    for c in reversed(q):
                        acc = acc + c
                        d_.append(acc)
                    q = list(reversed(d_[:-1]))
                if ratio < 1 and not _schur_stable(q):
                    bad.append(("inside the limit but a root on or outside the unit circle", str(wd), str(gd), str(S_), str(eps_), dd, str(ratio), str(frac)))
            qm = sum((-1) ** k * c for k, c in enumerate(_quartic(c1v, c2v, c3v, 1 / eps_, kmax)))
            if ratio > 1 and not qm < 0:
                bad.append(("beyond the limit but Q(-1) >= 0", str(wd), str(gd), str(S_), str(eps_), dd, str(ratio)))
    ctx.ob("R36.6", "coupled-recurrence:root location at sample points", not bad and n >= 1000, f"exact Schur-Cohn reduction of the quartic at {n} rational points (resonance, damping, Courant factor, eps_inf, dimension, coupling at 1/2, 19/20, 21/20 and 2 times the limit, four curl eigenvalues up to the largest): inside the limit every root lies strictly inside the unit circle, beyond it Q(-1) < 0", bad[:3], "stable inside, unstable beyond")


def run(ctx):
    _recurrence(ctx)
    _vacuum_next_to_oriented_medium(ctx)
    _coupled_stability(ctx)
    _zero_coefficients(ctx)
    _acceptance(ctx)
    _tier_selection(ctx)
    _painting_siblings(ctx)
    ctx.require_count("C36", len(ctx.obligations), 33)
    ctx.trusted_base += [
        "Levi-Civita oracle of the discrete curl (C01)",
        "discrete Ampere law with polarisation current, eps (E'-E)/dt + sigma (E'+E)/2 + sum (P'-P)/dt = curl H, in the repo's normalisation",
    ]
    ctx.assume("no sources or walls in the scene (their algebra is C01 / C10); boundedness of trajectories is not a static statement — the coefficient side of it is C35")
