"""C08 — the solver is equivariant under cyclic permutation of the axes."""

from __future__ import annotations

import itertools
from fractions import Fraction

from ..harness import open_obj, stub_repo_calls
from ..index import AnalysisError
from ..kernel import clean, metric_stub
from ..ndarr import NdArr, strip_pad
from ..poly import Rat
from ..scene import SP, Scene, vec
from ..sigma import S, Sigma
from ..values import Builtin, Obj, Raised, SymBool, to_rat
from .c02 import BLO, PEC, PMC, Src, _solve

LEVEL = "other"
EXPLANATION = (
    "Decides axis-relabelling equivariance of the code itself: one forward step and one backward step of the "
    "repo's forward()/backward() are abstractly interpreted on scenes that are invariant under x->y->z->x "
    "(symbolic fields, materials of every tier incl. full tensors, both conductivities, metric scales, CPML "
    "layers on the three min / the three max faces with kappa = 1 and kappa != 1, PEC/PMC walls and periodic / "
    "Bloch faces on all axes, abstract sources), and the extracted normal form of output component sigma(c) "
    "is compared, as a polynomial identity, with the relabelled normal form of component c (relabelling acts "
    "on component indices, tensor entries, stencil shifts, region descriptors, metric axes, boundary names).  "
    "The same comparison is made for the TFSF face injections of TFSFPlaneSource.update_E / update_H over the "
    "three propagation axes x two directions x {forward, inverse} x material tiers, for the oriented "
    "transverse-axis helper, the wall component tables and the interface slices of the absorbing layers.  A "
    "single-branch edit of any per-axis ladder breaks the identity for some component.  Not decided: equality "
    "of simulated runs up to round-off, detectors (covered by C15/C16), source profile construction."
)

PML = "fdtdx.objects.boundaries.perfectly_matched_layer.PerfectlyMatchedLayer"


def _scene_vectors(akw):
    v = {"E": 3, "H": 3, "ie": akw.get("eps_comps", 3), "im": akw.get("mu_comps", 3) or 1}
    if akw.get("sigma_e"):
        v["se"] = akw["sigma_e"]
    if akw.get("sigma_h"):
        v["sh"] = akw["sigma_h"]
    return v


def _build(ctx, akw, boundaries=(), pml_dirs="", kappa_one=True, nonuniform=False, bloch=False, sources=None):
    ix = ctx.index
    it = ctx.fresh_interp()
    sc = Scene(ix, it)
    it.ext_handlers["np.linalg.solve"] = _solve
    if nonuniform:
        metric_stub(it)
    grid = Obj(None, {"min_spacing": Rat.atom("res")}, "grid") if nonuniform else None
    cfg = sc.config(has_nonuniform_grid=nonuniform, resolved_grid=grid)
    bkw = dict(bloch_vector=(Rat.atom("k0"), Rat.atom("k1"), Rat.atom("k2")), needs_complex_fields=True, _config=cfg) if bloch else {}
    bs = [sc.boundary(q, a, d, **(bkw if q == BLO else {})) for (q, a, d) in boundaries]
    pmls = [sc.pml(a, d, kappa_one=True, **({} if kappa_one else dict(kappa_start=2, kappa_end=3))) for a in range(3) for d in pml_dirs]
    srcs = [Src(ix, n, d).obj for n, d in (sources or (("s_default", True), ("s_sched", False)))]
    objs = sc.objects(bs + pmls + srcs)
    psiE = {p.attrs["name"]: (Rat.atom(f"{p.attrs['name']}.psiE1"), Rat.atom(f"{p.attrs['name']}.psiE2")) for p in pmls}
    psiH = {p.attrs["name"]: (Rat.atom(f"{p.attrs['name']}.psiH1"), Rat.atom(f"{p.attrs['name']}.psiH2")) for p in pmls}
    arrays = sc.arrays(fields=sc.fields(psi_E=psiE, psi_H=psiH), **akw)
    stub_repo_calls(it, {"fdtdx.fdtd.update.add_interfaces": lambda it_, a, k: k.get("arrays", a[1] if len(a) > 1 else None)})
    return it, cfg, objs, arrays, pmls


def _step(ctx, which, label, akw, **kw):
    it, cfg, objs, arrays, pmls = _build(ctx, akw, **kw)
    ix = ctx.index
    t = Rat.atom("t")
    f = ix.function("fdtdx.fdtd.forward.forward" if which == "forward" else "fdtdx.fdtd.backward.backward")
    ctx.unit(f.where())
    try:
        if which == "forward":
            s = it.call(it.closure_of(f), [], dict(state=(t, arrays), config=cfg, objects=objs, key=Rat.atom("key"), record_detectors=False, record_boundaries=False, simulate_boundaries=True))
        else:
            s = it.call(it.closure_of(f), [], dict(state=(t, arrays), config=cfg, objects=objs, key=Rat.atom("key"), record_detectors=False, reset_fields=False))
    except Raised as r:
        raise AnalysisError(f"{label}: {which} raises on the symbolic scene: {r}")
    return s[1], pmls


def _equivariant(ctx, rule, label, akw, which="forward", **kw):
    arr2, pmls = _step(ctx, which, label, akw, **kw)
    sg = Sigma(_scene_vectors(akw))
    flds = arr2.attrs["fields"]
    for F in ("E", "H"):
        new = flds.attrs[F]
        if not (isinstance(new, NdArr) and new.shape == (3,)):
            raise AnalysisError(f"{label}: {F} after the step is {new!r}")
        bad = None
        for c in range(3):
            got = clean(new.data[S[c]])
            want = sg.rat(clean(new.data[c]))
            if not got.equals(want):
                bad = bad or (c, got.fmt()[:300], want.fmt()[:300])
        ctx.ob(
            rule,
            f"{label}:{which}:{F}",
            bad is None,
            f"{F}'[sigma(c)] equals the axis-relabelled {F}'[c] for c = x, y, z" + (f" — fails for c={bad[0]}" if bad else ""),
            bad[1] if bad else "3 components",
            bad[2] if bad else "relabelled siblings",
        )
    # CPML memory variables: psi of layer sigma(p) equals the relabelled psi of layer p
    for key in ("psi_E", "psi_H"):
        psi = flds.attrs.get(key) or {}
        if not pmls:
            continue
        bad = None
        for p in pmls:
            n1 = p.attrs["name"]
            n2 = sg.name(n1)
            if n1 not in psi or n2 not in psi:
                bad = bad or (n1, sorted(psi), "both layers present")
                continue
            for slot in (0, 1):
                a, b = psi[n2][slot], psi[n1][slot]
                av = clean(a.data[0] if isinstance(a, NdArr) else a)
                bv = sg.rat(clean(b.data[0] if isinstance(b, NdArr) else b))
                if not av.equals(bv):
                    bad = bad or (f"{n1}[{slot}]", av.fmt()[:300], bv.fmt()[:300])
        ctx.ob(rule, f"{label}:{which}:{key}", bad is None, f"{key} of layer sigma(p) equals the relabelled {key} of layer p" + (f" — fails at {bad[0]}" if bad else ""), bad[1] if bad else f"{len(pmls)} layers x 2 slots", bad[2] if bad else "relabelled siblings")


def _scenes(tier):
    sc = []
    for comps, se, sh in ((1, None, None), (3, 3, 3), (1, 1, 1), (3, 3, None), (3, None, 3)):
        sc.append((f"plain:{'iso' if comps == 1 else 'diag'}:{'sE' if se else ''}{'sH' if sh else ''}", dict(eps_comps=comps, mu_comps=comps, sigma_e=se, sigma_h=sh), {}))
    sc.append(("plain:scalar-mu", dict(eps_comps=3, mu_comps=0), {}))
    sc.append(("full-eps", dict(eps_comps=9, mu_comps=3), {}))
    sc.append(("full-mu", dict(eps_comps=3, mu_comps=9), {}))
    sc.append(("full-both", dict(eps_comps=9, mu_comps=9), {}))
    sc.append(("nonuniform:diag", dict(eps_comps=3, mu_comps=3, sigma_e=3), dict(nonuniform=True)))
    for d in "-+":
        for k1 in (True, False):
            sc.append((f"cpml:{'min' if d == '-' else 'max'}:{'kappa1' if k1 else 'kappa'}", dict(eps_comps=3, mu_comps=3), dict(pml_dirs=d, kappa_one=k1)))
    sc.append(("cpml:min:nonuniform", dict(eps_comps=1, mu_comps=1), dict(pml_dirs="-", kappa_one=False, nonuniform=True)))
    sc.append(("walls:pec-min:pmc-max", dict(eps_comps=3, mu_comps=3), dict(boundaries=[(PEC, a, "-") for a in range(3)] + [(PMC, a, "+") for a in range(3)])))
    sc.append(("walls:pmc-min:pec-max", dict(eps_comps=1, mu_comps=1), dict(boundaries=[(PMC, a, "-") for a in range(3)] + [(PEC, a, "+") for a in range(3)])))
    sc.append(("periodic", dict(eps_comps=3, mu_comps=3), dict(boundaries=[(BLO, a, d) for a in range(3) for d in "-+"])))
    if tier == "thorough":
        sc.append(("cpml:all-six", dict(eps_comps=1, mu_comps=1), dict(pml_dirs="-+", kappa_one=False)))
        # (a lossy medium inside three absorbing layers exceeds the polynomial size guard of the engine: not run)
        sc.append(("cpml:max:full-eps", dict(eps_comps=9, mu_comps=3), dict(pml_dirs="+", kappa_one=True)))
    return sc


# ------------------------------------------------------------------------------- TFSF faces
from ..tfsf import plane_update as _tfsf


def _tfsf_rules(ctx, kind):
    n = 0
    tiers = [(3, 3), (9, 9), (1, 0), (1, 1)]
    if True:
        for (ec, mc), direction, inverse, cplx in itertools.product(tiers, "+-", (False, True), (False, True)):
            if cplx and (direction == "-" or inverse or ec == 1):
                continue  # complex incident fields: one representative per tier (the selector code is shared)
            vectors = {"E": 3, "H": 3, "ie": ec, "im": mc or 1, "Einc": 3, "Hinc": 3, "Eincr": 3, "Einci": 3, "Hincr": 3, "Hinci": 3, "toffE": 3, "toffH": 3}
            sg = Sigma(vectors)
            outs = {}
            try:
                for axis in range(3):
                    outs[axis] = _tfsf(ctx, kind, axis, direction, inverse, ec, mc, cplx)
            except Raised as r:
                raise AnalysisError(f"TFSF update_{kind} raises on the symbolic plane: {r}")
            label = f"TFSFPlaneSource.update_{kind}[eps{ec},mu{mc},dir{direction},{'inverse' if inverse else 'forward'}{',complex' if cplx else ''}]"
            bad = None
            for axis in range(3):
                for c in range(3):
                    got = to_rat(outs[S[axis]].data[S[c]])
                    want = sg.rat(to_rat(outs[axis].data[c]))
                    if not got.equals(want):
                        bad = bad or (f"axis {axis} component {c}", got.fmt()[:300], want.fmt()[:300])
            n += 1
            ctx.ob("R8.5", label, bad is None, "injection for propagation axis sigma(n) equals the relabelled injection for axis n, component by component" + (f" — fails at {bad[0]}" if bad else ""), bad[1] if bad else "3 axes x 3 components", bad[2] if bad else "relabelled siblings")


def _bloch_rules(ctx):
    """Bloch halo correction: the ghost cells of axis sigma(a) are the relabelled ghost cells of axis a."""
    ix = ctx.index
    it = ctx.fresh_interp()
    sc = Scene(ix, it)
    cfg = sc.config()
    outs = {}
    for axis in range(3):
        for d in "-+":
            b = sc.boundary(BLO, axis, d, bloch_vector=(Rat.atom("k0"), Rat.atom("k1"), Rat.atom("k2")), needs_complex_fields=True, _config=cfg)
            F = it.call_function("fdtdx.core.misc.pad_fields", vec("F"), (True, True, True))
            try:
                outs[(axis, d)] = it.call_method(b, "apply_pad_correction", F, (Rat.atom("Nx"), Rat.atom("Ny"), Rat.atom("Nz")), Rat.atom("res"))
            except Raised as r:
                raise AnalysisError(f"BlochBoundary.apply_pad_correction raises: {r}")
    ctx.unit(ix.cls(BLO).where())
    sg = Sigma({"F": 3})
    for d in "-+":
        bad = None
        for axis in range(3):
            a, b = outs[(S[axis], d)], outs[(axis, d)]
            for c in range(3):
                got = to_rat(a.data[S[c]])
                want = sg.rat(to_rat(b.data[c]))
                if not got.equals(want):
                    bad = bad or (axis, c, got.fmt()[:300], want.fmt()[:300])
        ctx.ob("R8.4", f"{BLO}.apply_pad_correction[{d}]", bad is None, "Bloch ghost cells of axis sigma(a) are the relabelled ghost cells of axis a" + (f" — fails at axis {bad[0]} component {bad[1]}" if bad else ""), bad[2] if bad else "3 axes x 3 components", bad[3] if bad else "relabelled siblings")


# ------------------------------------------------------------------------------- helper tables
def _tables(ctx):
    ix = ctx.index
    it = ctx.fresh_interp()
    f = ix.function("fdtdx.core.axis.get_oriented_transverse_axes")
    ctx.unit(f.where())
    vals = {a: it.call(it.closure_of(f), [a], {}) for a in range(3)}
    ok = all(tuple(vals[S[a]]) == tuple(S[x] for x in vals[a]) for a in range(3)) and all(set(vals[a]) == {0, 1, 2} - {a} for a in range(3))
    ctx.ob("R8.3", "fdtdx.core.axis.get_oriented_transverse_axes", ok, "oriented pair of sigma(a) is sigma of the pair of a, and the pair is the complement of a", vals, "(a+1, a+2) mod 3")
    sc = Scene(ix, it)
    for q, hook in ((PEC, "apply_post_E_update"), (PMC, "apply_post_H_update")):
        outs = {}
        for axis in range(3):
            b = sc.boundary(q, axis, "-")
            F = vec("F")
            outs[axis] = it.call_method(b, hook, F)
        sg = Sigma({"F": 3})
        bad = None
        for axis in range(3):
            for c in range(3):
                got = to_rat(outs[S[axis]].data[S[c]])
                want = sg.rat(to_rat(outs[axis].data[c]))
                if not got.equals(want):
                    bad = bad or (axis, c, got.fmt()[:200], want.fmt()[:200])
        ctx.ob("R8.4", f"{q}.{hook}", bad is None, "wall on axis sigma(a) acts as the relabelled wall on axis a", bad[2:] if bad else "3 axes", "relabelled siblings")
    # interface slices / shapes of the absorbing layers
    P = ix.cls(PML)
    for meth in ("interface_slice_tuple", "interface_grid_shape"):
        if P.lookup_method(meth) is None:
            raise AnalysisError(f"PerfectlyMatchedLayer.{meth} vanished")
        for d in "-+":
            outs = {}
            for axis in range(3):
                p = sc.pml(axis, d)
                v = it.getattr(p, meth)
                if not isinstance(v, (tuple, list)):
                    v = it.call(v, [], {})
                outs[axis] = tuple(v)
            sg = Sigma({})
            ok = True
            for axis in range(3):
                rel = sg.perm3(tuple(_relabel_any(sg, x) for x in outs[axis]))
                ok = ok and _same_any(rel, outs[S[axis]])
            ctx.ob("R8.4", f"{PML}.{meth}[{d}]", ok, "per-axis tuple of layer sigma(a) is the permuted, relabelled tuple of layer a", {a: _fmt_any(outs[a]) for a in outs}, "relabelled siblings")


def _relabel_any(sg, x):
    if isinstance(x, tuple):
        return tuple(_relabel_any(sg, y) for y in x)
    if isinstance(x, slice):
        return slice(_relabel_any(sg, x.start), _relabel_any(sg, x.stop), x.step)
    return sg.rat(x) if isinstance(x, Rat) else x


def _same_any(a, b):
    if isinstance(a, tuple) and isinstance(b, tuple):
        return len(a) == len(b) and all(_same_any(x, y) for x, y in zip(a, b))
    if isinstance(a, slice) and isinstance(b, slice):
        return _same_any(a.start, b.start) and _same_any(a.stop, b.stop) and a.step == b.step
    if a is None or b is None:
        return a is b
    return to_rat(a).equals(to_rat(b))


def _fmt_any(x):
    if isinstance(x, tuple):
        return tuple(_fmt_any(y) for y in x)
    if isinstance(x, slice):
        return f"{_fmt_any(x.start)}:{_fmt_any(x.stop)}"
    return x.fmt() if isinstance(x, Rat) else x


def _job(ctx, payload):
    kind = payload[0]
    if kind == "step":
        _, label, akw, kw, which = payload
        _equivariant(ctx, "R8.1" if which == "forward" else "R8.2", label, akw, which, **kw)
    elif kind == "tfsf":
        _tfsf_rules(ctx, payload[1])
    elif kind == "bloch":
        _bloch_rules(ctx)
    else:
        _tables(ctx)
        _yee_offset_rules(ctx)


def _yee_offset_rules(ctx):
    """the sample positions the sources time their components by: relabelling the axes relabels the tables"""
    ix = ctx.index
    it = ctx.fresh_interp()
    g = ix.function("fdtdx.core.grid.calculate_spatial_offsets_yee")
    ctx.unit(g.where())
    oE, oH = it.call(it.closure_of(g), [], {})
    bad = []
    for nm, T in (("E", oE), ("H", oH)):
        if not (isinstance(T, NdArr) and T.shape[0] == 3 and T.shape[-1] == 3 and len(T.data) == 9):
            raise AnalysisError(f"calculate_spatial_offsets_yee returns {getattr(T, 'shape', T)}")
        for c in range(3):
            for a in range(3):
                if not to_rat(T.data[S[c] * 3 + S[a]]).equals(to_rat(T.data[c * 3 + a])):
                    bad.append((nm, c, a))
    ctx.ob("R8.6", "fdtdx.core.grid.calculate_spatial_offsets_yee", not bad, "offset of component sigma(c) along axis sigma(a) equals the offset of component c along a, for E and H", bad[:3], "relabelled table")
    f = ix.function("fdtdx.core.grid.calculate_time_offset_yee")
    ctx.unit(f.where())
    shapes = {0: (1, 2, 3)}
    for n in (0, 1):
        shapes[S[n]] = tuple(shapes[n][[b for b in range(3) if S[b] == a][0]] for a in range(3))
    outs = {}
    for axis in range(3):
        N = shapes[axis]
        it = ctx.fresh_interp()
        k = NdArr((3,), [Rat.atom(f"k{a}") for a in range(3)])
        ie = NdArr((1,) + N, [Rat.atom(("ie",) + p) for p in itertools.product(*[range(m) for m in N])])
        edges = tuple(NdArr((N[a] + 1,), [Rat.atom((f"e{a}", i)) for i in range(N[a] + 1)]) for a in range(3))
        kw = dict(coordinate_edges=edges, center_physical=NdArr((3,), [Rat.atom(f"ctr{a}") for a in range(3)]), effective_index=Rat.atom("neff"))
        try:
            outs[axis] = it.call(it.closure_of(f), [NdArr((2,), [Rat.atom("c0"), Rat.atom("c1")]), k, ie, Rat.atom("mu"), Rat.atom("res"), Rat.atom("dt")], kw)
        except Raised as r:
            raise AnalysisError(f"calculate_time_offset_yee raises: {r}")

    def relabel(r):
        m = {}
        for a in r.atoms():
            if isinstance(a, str) and len(a) >= 2 and a[:-1] in ("k", "ctr") and a[-1] in "012":
                m[a] = Rat.atom(a[:-1] + str(S[int(a[-1])]))
            elif isinstance(a, tuple) and len(a) == 2 and isinstance(a[0], str) and a[0][:1] == "e" and a[0][1:] in ("0", "1", "2"):
                m[a] = Rat.atom((f"e{S[int(a[0][1:])]}", a[1]))
        return r.subs(m) if m else r

    bad = None
    n_cmp = 0
    for axis in range(3):
        N, N2 = shapes[axis], shapes[S[axis]]
        for which in (0, 1):
            A, B = outs[axis][which], outs[S[axis]][which]
            if not (isinstance(A, NdArr) and A.shape == (3,) + N and isinstance(B, NdArr) and B.shape == (3,) + N2):
                raise AnalysisError(f"calculate_time_offset_yee returns shapes {getattr(A, 'shape', A)}, {getattr(B, 'shape', B)}")
            for c in range(3):
                for p in itertools.product(*[range(m) for m in N]):
                    q = [0, 0, 0]
                    for a in range(3):
                        q[S[a]] = p[a]
                    want = relabel(to_rat(A.data[((c * N[0] + p[0]) * N[1] + p[1]) * N[2] + p[2]]))
                    got = to_rat(B.data[((S[c] * N2[0] + q[0]) * N2[1] + q[1]) * N2[2] + q[2]])
                    n_cmp += 1
                    if not got.equals(want):
                        bad = bad or (f"{'EH'[which]}{c} at {p}, propagation axis {axis}", got.fmt()[:240], want.fmt()[:240])
    ctx.ob("R8.6", "fdtdx.core.grid.calculate_time_offset_yee", bad is None and n_cmp >= 100, "the delay of component sigma(c) at the relabelled cell on a plane normal to sigma(n) is the relabelled delay of component c on the plane normal to n (E and H, three plane orientations, stretched edges)" + (f" — fails for {bad[0]}" if bad else ""), bad[1] if bad else f"{n_cmp} entries", bad[2] if bad else "relabelled siblings")


def run(ctx):
    from ..par import run_jobs

    jobs, labels = [], []
    for label, akw, kw in _scenes(ctx.tier):
        for which in ("forward", "backward"):
            if which == "backward" and kw.get("pml_dirs"):
                continue  # the reverse step has no absorbing-layer path of its own (interfaces are re-injected)
            jobs.append(("step", label, akw, kw, which))
            labels.append(f"{label}:{which}")
    n = len(jobs)
    for kind in ("E", "H"):
        jobs.append(("tfsf", kind))
        labels.append(f"tfsf:{kind}")
    jobs.append(("bloch",))
    labels.append("bloch")
    jobs.append(("tables",))
    labels.append("tables")
    err = run_jobs(ctx, "sa.checks.c08", "_job", jobs, labels)
    if err is not None:
        raise AnalysisError(err)
    # the material arrays the step works on: each object's own xx / yy / zz entry lands in the component of the same
    # index, for permittivity, permeability and both conductivities alike (C28's painting rule on its tiered scenes) —
    # a slot filled from another property or another axis breaks the relabelling symmetry of every later step
    from . import c28

    n0 = len(ctx.obligations)
    for scene in c28._scenes():
        if scene[0] in ("magnetic-lossless-over-lossy", "tiers:eps3-mu9-se1-sm3", "tiers:eps1-mu3-se9-sm1"):
            c28._scene_job(ctx, scene)
    for o in ctx.obligations[n0:]:
        o.rule = "R8.7"
    ctx.require_count("R8.7 painting obligations", len(ctx.obligations) - n0, 9)
    ctx.note(f"{n} single-step interpretations on axis-invariant scenes")
    ctx.require_count("R8.5 TFSF cases", sum(1 for o in ctx.obligations if o.rule == "R8.5"), 20)
    ctx.require_count("C08", len(ctx.obligations), 80)
    ctx.trusted_base += ["sa/sigma.py axis relabelling of atoms (component suffixes, shifts, regions, names)", "sa/ndarr.py stencil/indicator array model", "abstract source model of C02"]
    ctx.assume("scenes are invariant under the relabelling (same boundary kind on the three faces of one side, same material tier on all components)")
