"""C07 — stopping conditions stop exactly where documented."""

from __future__ import annotations

import itertools

from ..absint import rat_compare
from ..harness import Recorder, callee_name, open_obj, stub_ext, stub_repo_calls
from ..index import AnalysisError
from ..poly import Rat
from ..values import Obj, Partial, Raised, SymBool, sb_eval, sb_leaves, to_rat

LEVEL = "other"
EXPLANATION = (
    "Decides the *continue predicate* of every StoppingCondition subclass as a boolean function: __call__ is "
    "abstractly interpreted with symbolic step counter, min/max/total step counts and an opaque data-dependent "
    "'converged' atom; the resulting formula's full truth table (all assignments of its leaves) is compared "
    "with the documented rule: continue => t < max_steps; t < min_steps (and within bounds) => continue; "
    "otherwise continue <=> not converged.  Also decides that the run loop is bounded by "
    "config.time_steps_total, uses the condition as its cond_fun and the plain forward step as its body.  "
    "Does not decide the numerical convergence test itself nor state equality with a plain run."
)

T, MIN, MAX, TOTAL = (Rat.atom(n) for n in ("t", "MIN", "MAX", "TOTAL"))


def _leaf(op, a, b):
    v = rat_compare(op, a, b)
    return v


def _formula_for(ctx, ci):
    """Interpret ci.__call__ and return the boolean formula of 'continue'."""
    ix = ctx.index
    it = ctx.fresh_interp()
    conv = SymBool(("data", "converged"))

    def energy(it_, a, k):
        return Rat.atom("energy")

    stub_repo_calls(it, {"compute_energy": energy, "_compute_converged": lambda it_, a, k: conv})
    stub_ext(it, {"np.sum": lambda it_, a, k: a[0], "np.array": lambda it_, a, k: a[0]})
    config = open_obj(None, "config", time_steps_total=TOTAL)
    arrays = open_obj(None, "arrays", detector_states={"det": {"energy": Rat.atom("readings")}}, fields=open_obj(None, "fields"))
    attrs = {}
    for name in ci.all_fields():
        attrs[name] = None
    attrs.update(
        {
            "threshold": Rat.atom("thr"),
            "min_steps": MIN,
            "max_steps": MAX,
            "_spp": Rat.atom("spp"),
            "prev_periods": Rat.atom("pp"),
            "detector_name": "det",
        }
    )
    attrs = {k: v for k, v in attrs.items() if k in ci.all_fields()}
    cond = Obj(ci, attrs, ci.name)
    res = it.call_method(cond, "__call__", (T, arrays), config, open_obj(None, "objects"))
    return res


def run(ctx):
    from .. import absint

    absint.INTEGER_ATOMS.update({"t", "MIN", "MAX", "TOTAL"})
    ctx.assume("step counters and min/max/total step counts are integers (t+1 <= MAX is the same predicate as t < MAX)")
    ix = ctx.index
    base = ix.cls("fdtdx.fdtd.stop_conditions.StoppingCondition")
    subs = [c for c in ix.subclasses(base) if "__call__" in c.methods and not c.methods["__call__"].is_abstract]
    ctx.require_count("R7 subclasses", len(subs), 3)
    lt_max = _leaf("lt", T, MAX)
    lt_min = _leaf("lt", T, MIN)
    lt_tot = _leaf("lt", T, TOTAL)
    time_keys = {lt_max.key: "t<MAX", lt_min.key: "t<MIN", lt_tot.key: "t<TOTAL"}
    # a canonical leaf may be stored negated: polarity[key] is True when the leaf means the opposite
    polarity = {lt_max.key: lt_max.negated, lt_min.key: lt_min.negated, lt_tot.key: lt_tot.negated}
    for ci in subs:
        ctx.unit(ci.methods["__call__"].where())
        name = ci.name
        fields = ci.all_fields()
        has_max = "max_steps" in fields
        has_min = "min_steps" in fields
        try:
            F = _formula_for(ctx, ci)
        except Raised as r:
            raise AnalysisError(f"{name}.__call__ raises on the symbolic state: {r}")
        if not isinstance(F, (bool, SymBool)):
            raise AnalysisError(f"{name}.__call__ does not return a boolean formula: {F!r}")
        leaves = sorted(sb_leaves(F), key=repr)
        data = [l for l in leaves if l not in time_keys]
        tl = [l for l in leaves if l in time_keys]
        ctx.note(f"{name}: leaves time={[time_keys[l] for l in tl]} data={len(data)}")
        if len(leaves) > 10:
            raise AnalysisError(f"{name}: too many boolean leaves")
        rows = []
        for vals in itertools.product([False, True], repeat=len(leaves)):
            asg = dict(zip(leaves, vals))
            rows.append((asg, sb_eval(F, asg)))

        def g(asg, key, default=True):
            if key not in asg:
                return default
            return asg[key] != polarity[key]

        # (a) never later than the condition's own maximum
        if has_max:
            bad = [a for a, v in rows if v and not g(a, lt_max.key, None)]
            uses = lt_max.key in leaves
            ok = uses and not bad
            ctx.ob(
                "R7.1",
                f"{ci.qualname}.__call__:max_steps",
                ok,
                "continue must imply curr_time_step < self.max_steps on every row of the truth table"
                + ("" if uses else " — the predicate never compares the step counter with self.max_steps"),
                _show(bad[:2], time_keys) if uses else "max_steps unread",
                "continue => t < MAX",
            )
        # (b) TimeStepCondition: continue <=> t < TOTAL
        if not has_max:
            ok = leaves == [lt_tot.key] and all(v == g(a, lt_tot.key) for a, v in rows)
            ctx.ob("R7.2", f"{ci.qualname}.__call__:total", ok, "continue <=> curr_time_step < config.time_steps_total", _show([a for a, v in rows if v][:2], time_keys), "t < TOTAL")
        # (c) never before the minimum (when within the time bounds)
        if has_min:
            bad = [a for a, v in rows if not v and g(a, lt_min.key, None) and g(a, lt_max.key) and g(a, lt_tot.key)]
            ok = lt_min.key in leaves and not bad
            ctx.ob("R7.3", f"{ci.qualname}.__call__:min_steps", ok, "t < MIN (within max/total bounds) must imply continue", _show(bad[:2], time_keys), "t<MIN & t<MAX & t<TOTAL => continue")
        # (d) past the minimum and within bounds: continue <=> not converged (depends on data)
        if has_min or has_max:
            sel = [(a, v) for a, v in rows if not g(a, lt_min.key, False) and g(a, lt_max.key) and g(a, lt_tot.key)]
            vals = {v for _, v in sel}
            dep = len(vals) == 2 and len(data) == 1
            if dep:
                d = data[0]
                # polarity: the data leaf is 'converged' (detector) or 'energy < thr' (energy): continue iff leaf False
                dep = all(v == (not a[d]) for a, v in sel)
            ctx.ob("R7.4", f"{ci.qualname}.__call__:converged", dep, "past min_steps and within bounds: continue <=> not converged", f"data leaves={data!r}"[:300], "continue == not converged")
    _measured_quantities(ctx)
    # ------------------------------------------------------------- loop rules
    _loop_rules(ctx)
    ctx.require_count("C07", len(ctx.obligations), 9)


def _measured_quantities(ctx):
    """what the two conditions measure: (a) the energy threshold sums compute_energy(E, H, inverse permittivity, inverse
    permeability) — in that order; (b) the convergence test compares the spectrum of the mean over the prev_periods
    periods [t - (k+1) spp, t - spp) with that of the last period [t - spp, t)."""
    from ..ndarr import NdArr

    ix = ctx.index
    # (a)
    ci = ix.cls("fdtdx.fdtd.stop_conditions.EnergyThresholdCondition")
    it = ctx.fresh_interp()
    seen = {}

    def energy(it_, a, k):
        names = ("E", "H", "inv_permittivity", "inv_permeability")
        got = dict(zip(names, a))
        got.update(k)
        seen.update(got)
        return Rat.atom("energy")

    stub_repo_calls(it, {"compute_energy": energy})
    stub_ext(it, {"np.sum": lambda it_, a, k: a[0]})
    fields = open_obj(None, "fields", E=Rat.atom("E"), H=Rat.atom("H"))
    arrays = open_obj(None, "arrays", fields=fields, inv_permittivities=Rat.atom("inv_eps"), inv_permeabilities=Rat.atom("inv_mu"))
    cond = Obj(ci, dict(threshold=Rat.atom("thr"), min_steps=MIN, max_steps=MAX), ci.name)
    try:
        it.call_method(cond, "__call__", (T, arrays), open_obj(None, "config", time_steps_total=TOTAL), open_obj(None, "objects"))
    except Raised as r:
        raise AnalysisError(f"EnergyThresholdCondition.__call__ raises: {r}")
    want = {"E": "E", "H": "H", "inv_permittivity": "inv_eps", "inv_permeability": "inv_mu"}
    got = {k: (to_rat(v).fmt() if v is not None else None) for k, v in seen.items() if k in want}
    ctx.ob("R7.6", f"{ci.qualname}.__call__:energy-arguments", got == want, "the thresholded quantity is compute_energy(E, H, arrays.inv_permittivities, arrays.inv_permeabilities): the electric part weighted by the permittivity, the magnetic part by the permeability", got, want)
    # (b)
    ci = ix.cls("fdtdx.fdtd.stop_conditions.DetectorConvergenceCondition")
    bad, n = [], 0
    for spp, k_, total, t in ((2, 2, 12, 8), (2, 2, 12, 6), (3, 1, 12, 9), (2, 3, 14, 14), (3, 2, 15, 10)):
        it = ctx.fresh_interp()
        ffts = []
        readings = NdArr((total, 1), [Rat.atom(("r", i)) for i in range(total)])

        def dyn_slice(it_, a, k):
            arr, starts, sizes = a[0], a[1], a[2]
            s0, n0 = int(to_rat(starts[0]).const_value()), int(to_rat(sizes[0]).const_value())
            if s0 < 0 or s0 + n0 > arr.shape[0]:
                s0 = max(0, min(s0, arr.shape[0] - n0))  # dynamic_slice clamps
            return NdArr((n0, 1), list(arr.data[s0 : s0 + n0]))

        stub_ext(
            it,
            {
                "jax.lax.dynamic_slice": dyn_slice,
                "lax.dynamic_slice": dyn_slice,
                "np.fft.rfft": lambda it_, a, k, _f=ffts: (_f.append(a[0]), a[0])[1],
                "np.linalg.norm": lambda it_, a, k: Rat.atom("distance"),
                "np.array": lambda it_, a, k: a[0],
            },
        )
        cond = Obj(ci, dict(threshold=Rat.atom("thr"), min_steps=(k_ + 1) * spp, max_steps=total + 5, _spp=spp, prev_periods=k_, detector_name="det"), ci.name)
        arrays = open_obj(None, "arrays", detector_states={"det": {"energy": readings}})
        try:
            it.call_method(cond, "__call__", (t, arrays), open_obj(None, "config", time_steps_total=total + 5), open_obj(None, "objects"))
        except Raised as r:
            raise AnalysisError(f"DetectorConvergenceCondition.__call__ raises on concrete windows: {r}")
        n += 1
        if len(ffts) != 2 or not all(isinstance(x, NdArr) and x.shape == (spp,) for x in ffts):
            bad.append(((spp, k_, t), "spectra", [getattr(x, "shape", x) for x in ffts]))
            continue
        ref = [sum((Rat.atom(("r", t - (k_ + 1) * spp + p * spp + j)) for p in range(k_)), Rat.const(0)) / k_ for j in range(spp)]
        last = [Rat.atom(("r", t - spp + j)) for j in range(spp)]
        pairs = [(ffts[0], ref), (ffts[1], last)]
        if not all(to_rat(x).equals(y) for arr_, w in pairs for x, y in zip(arr_.data, w)):
            alt = [(ffts[1], ref), (ffts[0], last)]
            if not all(to_rat(x).equals(y) for arr_, w in alt for x, y in zip(arr_.data, w)):
                bad.append(((spp, k_, t), [to_rat(x).fmt() for x in ffts[0].data], [y.fmt() for y in ref]))
    ctx.ob("R7.6", f"{ci.qualname}.__call__:windows", not bad and n == 5, "the two transformed signals are the sample-wise mean of the prev_periods periods [t - (k+1) spp, t - spp) and the last period [t - spp, t) of the detector trace (five (spp, k, t) settings with every reading a free symbol)", bad[:2], "documented windows")


def _show(asgs, time_keys):
    out = []
    for a in asgs:
        out.append({("raw:" + time_keys[k]) if k in time_keys else "data": v for k, v in a.items()})
    return out


def _loop_rules(ctx):
    """checkpointed_fdtd: the while loop is bounded by time_steps_total, its cond_fun is the
    (set-up) stopping condition and its body is the plain forward step."""
    ix = ctx.index
    it = ctx.fresh_interp()
    rec = Recorder()
    rec.ext(it, "equinox.internal.while_loop", lambda it_, a, k: k.get("init_val"))
    from ..values import Builtin

    stub_repo_calls(it, {"_make_pbar": lambda it_, a, k: None, "_wrap_body_with_progress": lambda it_, a, k: (a[0], Builtin("close", lambda i, aa, kk: None))})
    f = ix.function("fdtdx.fdtd.fdtd.checkpointed_fdtd")
    ctx.unit(f.where())
    SC = ix.cls("fdtdx.fdtd.stop_conditions.EnergyThresholdCondition")
    from fractions import Fraction

    cond = Obj(SC, {"threshold": Fraction(1, 10**6), "min_steps": 5, "max_steps": MAX}, "cond")
    arrays = open_obj(None, "arrays")
    arrays.attrs["reset"] = Builtin("reset", lambda it_, a, k: arrays)
    config = open_obj(None, "config", time_steps_total=TOTAL, gradient_config=None, only_forward=True, invertible_optimization=False)
    stub_ext(it, {"np.asarray": lambda it_, a, k: a[0]})
    it.call(it.closure_of(f), [], dict(arrays=arrays, objects=open_obj(None, "objects"), config=config, key=Rat.atom("key"), stopping_condition=cond, show_progress=False))
    loops = rec.named("equinox.internal.while_loop")
    ok = len(loops) == 1
    ctx.ob("R7.5", "fdtdx.fdtd.fdtd.checkpointed_fdtd:while_loop", ok, "exactly one run loop", len(loops), 1)
    if not ok:
        return
    _, a, k = loops[0]
    ms = k.get("max_steps")
    ctx.ob("R7.5", "fdtdx.fdtd.fdtd.checkpointed_fdtd:max_steps", isinstance(ms, Rat) and ms.equals(TOTAL), "loop bound is config.time_steps_total", ms, "TOTAL")
    cf = k.get("cond_fun")
    okc = isinstance(cf, Partial) and isinstance(cf.func, Obj) and cf.func.cls is not None and cf.func.cls.is_subclass_of("StoppingCondition")
    ctx.ob("R7.5", "fdtdx.fdtd.fdtd.checkpointed_fdtd:cond_fun", okc, "cond_fun is the stopping condition returned by setup()", callee_name(cf), "partial(stopping_condition, config, objects)")
    bf = k.get("body_fun")
    okb = isinstance(bf, Partial) and callee_name(bf).endswith("fdtd.forward.forward")
    ctx.ob("R7.5", "fdtdx.fdtd.fdtd.checkpointed_fdtd:body_fun", okb, "body is the plain forward step (state equals a plain run of the same number of steps)", callee_name(bf), "partial(forward, ...)")
    iv = k.get("init_val")
    ok0 = isinstance(iv, tuple) and len(iv) == 2 and iv[0] == 0
    ctx.ob("R7.5", "fdtdx.fdtd.fdtd.checkpointed_fdtd:init", ok0, "loop starts at step 0", iv[0] if isinstance(iv, tuple) else iv, 0)
