"""C05 — forward results do not depend on the gradient strategy; the reversible slice partition."""

from __future__ import annotations

from .. import absint
from ..driver import Driver, Facts, LoopNotCounting, atom, dyn_signature, integer_atom, rec_signature, static_signature
from ..index import AnalysisError
from ..poly import Rat
from ..values import Obj, Raised, to_rat

LEVEL = "other"
EXPLANATION = (
    "The drivers are interpreted for a symbolic number of time steps T.  The single step `forward` is an opaque "
    "token-producing stub and every eqxi.while_loop is replaced by a counting-loop summary (body interpreted once at "
    "a symbolic step: must advance the counter by one; condition interpreted once: one comparison against a "
    "loop-invariant bound; max_steps must provably cover the distance).  A run of identical steps a -> b over history "
    "h is one token, adjacent runs fuse.  Decided: (1) run_fdtd with no gradient configuration, with checkpointed "
    "gradients and with reversible gradients of 1..4 slices ends at step T with the *same* history token for fields "
    "and detector states — reset state, then steps 0..T-1 with record_detectors=True and simulate_boundaries=True — "
    "and unchanged materials; every loop starts where the previous one ended and its trip bound covers its length; "
    "(2) the reversible driver is analysed against any strictly increasing partition 0 = s_0 < ... < s_k = T, and "
    "_reversible_slice_boundaries meets that contract: for k = 1..6 and symbolic T it returns k+1 values "
    "round(x_i) with x_0 = 0, x_k = T and constant increment x_{i+1} - x_i = T/k, and the driver rejects k > T "
    "(when k > 1) before calling it; with T/k >= 1 the rounded values are integers whose differences are >= T/k - 1 "
    "and hence >= 1 (for T/k = 1 the x_i are integers themselves); (3) the only effect of record_boundaries inside "
    "`forward` is on the recording state; (4) run_fdtd dispatches None / 'checkpointed' / 'reversible' to the "
    "drivers with the same arrays, objects, config and key, and rejects anything else.  Round-off differences between "
    "strategies are not decided."
)

FWD_FLAGS = (("record_detectors", True), ("simulate_boundaries", True))


def _objects():
    return Obj(None, {}, "objects")


def _run(ctx, gradient, k_facts, fn="fdtdx.fdtd.wrapper.run_fdtd", **kw):
    T = integer_atom("T")
    d = Driver(ctx, Facts([T - k_facts]))
    arr = d.arrays()
    cfg = d.config(T, gradient=gradient)
    r = d.call(fn, arr, _objects(), cfg, atom("key"), show_progress=False, **kw)
    return d, arr, r


def _strategies(ctx, slices=(1, 2, 3, 4), with_plain=True):
    T = integer_atom("T")
    cases = [("no gradient configuration", None, 1), ("checkpointed", dict(method="checkpointed"), 1)] if with_plain else [("no gradient configuration", None, 1)]
    for k in slices:
        cases.append((f"reversible, {k} slice{'s' if k > 1 else ''}", dict(method="reversible", num_checkpoints_reversible=k - 1), k))
    ref = None
    for label, grad, k in cases:
        try:
            d, arr, r = _run(ctx, grad, k)
        except LoopNotCounting as e:
            ctx.ob("R5.2", f"run_fdtd[{label}]:loop-bound", False, "every run loop continues while the step counter is below a step count (time_steps_total or a slice boundary) — the same count that sizes the detector rows and the reversible slices; a test in other units (physical time, rounded differently) lets the strategies stop at different steps", str(e)[:200], "step < step count")
            continue
        if isinstance(r, Raised):
            ctx.ob("R5.1", f"run_fdtd[{label}]", False, "the run completes", str(r), "final state")
            continue
        t_end, out = r
        h = dyn_signature(out)
        want_zero = h[5] if isinstance(h, tuple) and len(h) == 6 else None
        ok_t = to_rat(t_end).equals(T)
        want_flags = FWD_FLAGS + (("materials", static_signature(arr)),)  # every step sees the caller's material arrays, conductivities included
        ok_h = isinstance(h, tuple) and len(h) == 6 and h[:5] == ("run", "fwd", want_flags, "0", "T") and isinstance(want_zero, tuple) and want_zero[0] == "zero"
        mats = all(to_rat(out.attrs[n]).equals(to_rat(arr.attrs[n])) for n in ("inv_permittivities", "inv_permeabilities", "electric_conductivity", "magnetic_conductivity"))
        ctx.ob("R5.1", f"run_fdtd[{label}]:final-state", ok_t and ok_h and mats, "ends at step T; fields and detector states are `reset, then steps 0..T-1 with record_detectors=True, simulate_boundaries=True, each step seeing the caller's permittivity, permeability and both conductivities`; materials untouched", (to_rat(t_end).fmt(), str(h)[:200], mats), ("T", ("run", "fwd", FWD_FLAGS, "0", "T", "zero state")))
        if ref is None:
            ref = h
        else:
            ctx.ob("R5.1", f"run_fdtd[{label}]:same-as-gradient-free", h == ref, "the history token of the final dynamic state equals the gradient-free run's", str(h)[:200], str(ref)[:200])
        prev_exit = Rat.const(0)
        for i, lp in enumerate(d.loops):
            ok = lp.enters and lp.covered and lp.step == 1 and lp.rel == "lt" and to_rat(lp.t0).equals(prev_exit)
            ctx.ob("R5.2", f"run_fdtd[{label}]:loop{i}", ok, f"the loop starts at the previous exit ({prev_exit.fmt()}), advances by one step while step < bound, and max_steps covers bound - start", dict(start=to_rat(lp.t0).fmt(), bound=to_rat(lp.bound).fmt(), cond=lp.rel, max_steps=None if lp.max_steps is None else to_rat(lp.max_steps).fmt(), covered=lp.covered), "start = previous exit, max_steps >= bound - start")
            prev_exit = to_rat(lp.bound)
        if grad and grad.get("method") == "reversible":
            ctx.ob("R5.2", f"run_fdtd[{label}]:slice-count", len(d.loops) == k and d.slice_calls == [(T, k)], "one loop per slice; boundaries requested for (time_steps_total, num_checkpoints_reversible + 1)", (len(d.loops), [(to_rat(a).fmt(), b) for a, b in d.slice_calls]), (k, [("T", k)]))
        else:
            ctx.ob("R5.2", f"run_fdtd[{label}]:single-loop", len(d.loops) == 1, "one loop over 0..T", len(d.loops), 1)


def _guard(ctx):
    """k > T with k > 1 is rejected before the partition is computed."""
    T = integer_atom("T")
    for k in (2, 3):
        d = Driver(ctx, Facts([Rat.const(k - 1) - T, T]))  # 0 <= T <= k-1
        arr = d.arrays()
        cfg = d.config(T, gradient=dict(method="reversible", num_checkpoints_reversible=k - 1))
        r = d.call("fdtdx.fdtd.fdtd.reversible_fdtd", arr, _objects(), cfg, atom("key"), show_progress=False)
        ctx.ob("R5.3", f"reversible_fdtd:guard[k={k} > T]", isinstance(r, Raised) and not d.slice_calls and not d.loops, "more slices than time steps are rejected before any boundary is computed or step taken", str(r)[:120], "raise")


def _partition(ctx, ks=range(1, 7)):
    ix = ctx.index
    f = ix.function("fdtdx.fdtd.fdtd._reversible_slice_boundaries")
    ctx.unit(f.where())
    T = integer_atom("T")
    for k in ks:
        it = ctx.fresh_interp()
        try:
            res = it.call(it.closure_of(f), [T, k], {})
        except Raised as r:
            raise AnalysisError(f"_reversible_slice_boundaries raises: {r}")
        label = f"_reversible_slice_boundaries[k={k}]"
        if not (isinstance(res, list) and len(res) == k + 1):
            ctx.ob("R5.3", label, False, "k + 1 boundaries", getattr(res, "__len__", lambda: res)(), k + 1)
            continue
        xs, bad = [], None
        for i, v in enumerate(res):
            r = to_rat(v)
            rnd = [a for a in r.atoms() if isinstance(a, tuple) and a and a[0] == "call" and a[1] == "round"]
            arg = None
            if len(rnd) == 1 and len(rnd[0]) == 3 and r.equals(Rat.atom(rnd[0])):
                arg = to_rat(rnd[0][2])
            elif not rnd and absint._integer_valued(r):
                arg = r  # round() of an integer-valued expression is the expression itself
            if arg is None:
                bad = bad or (i, r.fmt())
            xs.append(arg)
        if bad:
            ctx.ob("R5.3", label, False, f"boundary {bad[0]} is a rounded value round(x_i)", bad[1], "round(x_i)")
            continue
        incs = [xs[i + 1] - xs[i] for i in range(k)]
        ok = xs[0].is_zero() and xs[k].equals(T) and all(inc.equals(T / k) for inc in incs)
        ctx.ob("R5.3", label, ok, "boundaries are round(x_i) with x_0 = 0, x_k = T and constant increment T/k (>= 1 under the driver's guard), hence integers with differences >= 1: a strictly increasing partition of [0, T] into non-empty slices", [x.fmt() for x in xs], [f"{i}*T/{k}" for i in range(k + 1)])


def _record_boundaries_effect(ctx):
    """`forward` with record_boundaries True / False differs only in the recording state."""
    from ..driver import StepHarness

    outs = {}
    for rb in (False, True):
        sh = StepHarness(ctx)
        outs[rb] = sh.forward(record_detectors=True, record_boundaries=rb, simulate_boundaries=True)
    a, b = outs[False], outs[True]
    same_dyn = a["t_out"].equals(b["t_out"]) and a["dyn"] == b["dyn"]
    ctx.ob("R5.4", "fdtdx.fdtd.forward.forward:record_boundaries", same_dyn and a["rec"] != b["rec"] and a["rec"] == a["rec_in"], "recording the interfaces changes the recording state only; step counter, fields and detector states are the same token either way, and nothing is recorded when the flag is off", dict(dyn_equal=same_dyn, rec_off_unchanged=a["rec"] == a["rec_in"], rec_on_changed=a["rec"] != b["rec"]), "only recording_state differs")


def _dispatch(ctx):
    T = integer_atom("T")
    # unknown method
    d = Driver(ctx, Facts([T - 1]))
    r = d.call("fdtdx.fdtd.wrapper.run_fdtd", d.arrays(), _objects(), d.config(T, gradient=dict(method="adjoint")), atom("key"), show_progress=False)
    ctx.ob("R5.5", "run_fdtd:unknown-method", isinstance(r, Raised) and not d.loops, "an unknown gradient method is rejected without running", str(r)[:100], "raise")
    d = Driver(ctx, Facts([T - 1]))
    r = d.call("fdtdx.fdtd.wrapper.run_fdtd", d.arrays(), _objects(), d.config(T, gradient=dict(method="checkpointed")), atom("key"), stopping_condition=Obj(None, {}, "cond"), show_progress=False)
    ctx.ob("R5.5", "run_fdtd:stopping-condition-with-gradients", isinstance(r, Raised) and r.exc_name == "NotImplementedError", "custom stopping conditions are rejected when gradients are configured", str(r)[:100], "NotImplementedError")
    # which driver, which arguments
    for label, grad, want in (("None", None, "checkpointed_fdtd"), ("checkpointed", dict(method="checkpointed"), "checkpointed_fdtd"), ("reversible", dict(method="reversible"), "reversible_fdtd")):
        d = Driver(ctx, Facts([T - 1]))
        seen = []

        def hook(it, callee, args, kwargs, _seen=seen):
            from ..values import Closure

            if isinstance(callee, Closure) and callee.qualname and callee.qualname.split(".")[-1] in ("checkpointed_fdtd", "reversible_fdtd"):
                _seen.append((callee.qualname.split(".")[-1], dict(kwargs), list(args)))
            return NotImplemented

        d.it.call_hooks.insert(0, hook)
        arr, objs, key = d.arrays(), _objects(), atom("key")
        cfg = d.config(T, gradient=grad)
        d.call("fdtdx.fdtd.wrapper.run_fdtd", arr, objs, cfg, key, show_progress=False)
        ok = len(seen) == 1 and seen[0][0] == want
        if ok:
            kw = seen[0][1]
            ok = kw.get("arrays") is arr and kw.get("objects") is objs and kw.get("config") is cfg and to_rat(kw.get("key")).equals(key)
        ctx.ob("R5.5", f"run_fdtd:dispatch[{label}]", ok, f"dispatches to {want} with the caller's arrays, objects, config and key", [s[0] for s in seen], want)


def run_thorough(ctx):
    """More slices (5..9) against the gradient-free run; the partition contract up to 24 slices."""
    _strategies(ctx, slices=(5, 6, 7, 8, 9), with_plain=False)
    _partition(ctx, ks=range(7, 25))


def run(ctx):
    _strategies(ctx)
    _guard(ctx)
    _partition(ctx)
    _record_boundaries_effect(ctx)
    _dispatch(ctx)
    ctx.require_count("C05", len(ctx.obligations), 40)
    ctx.trusted_base += [
        "counting-loop summary of eqxi.while_loop (sa/driver.py): a loop whose body moves the step counter by one and whose condition is one comparison against an invariant bound runs from its start to the bound when max_steps covers the distance",
        "`forward` as an opaque deterministic step of (step counter, arrays, flags)",
        "rounding lemma: for d >= 1, round(x + d) - round(x) is an integer >= d - 1, and >= 1 when x is an integer or d > 1",
    ]
    ctx.assume("T >= max(1, number of slices); Python's round returns an integer within 1/2 of its argument")
