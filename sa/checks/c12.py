"""C12 — absorbing layers absorb (necessary structural clauses)."""

from __future__ import annotations

import itertools
from fractions import Fraction as Fr

from ..harness import open_obj, stub_repo_calls
from ..index import AnalysisError
from ..kernel import clean, levi, run_curl
from ..ndarr import NdArr
from ..poly import Rat, apply_fn
from ..scene import Scene, vec
from ..values import Builtin, ClassRef, Obj, Raised, Unknown, to_rat

LEVEL = "other"
EXPLANATION = (
    "The 1e-6 / 1e-4 absorption levels are runtime quantities and are NOT decided.  Decided are clauses without "
    "which a CPML layer cannot absorb at all, each a single wrong sign / operand / branch away from the code: "
    "(1) wiring — for a layer on each axis and direction, curl_E / curl_H with the layer equal the plain curl "
    "with every derivative along the layer's axis d replaced inside the layer by d + (1/kappa - 1) d + psi', "
    "psi' = b psi + a d, each memory variable paired with its own derivative and entering the curl component "
    "that contains that derivative, with that term's Levi-Civita sign, using the H coefficients in curl_E and "
    "the E coefficients in curl_H; the kappa = 1 shortcut is taken only when both kappa_start and kappa_end are 1 "
    "(four kappa patterns), and psi is frozen when boundaries are not simulated; (2) coefficients — place_on_grid "
    "sets b = exp(-dt/eps0 (sigma/kappa + alpha)), a = (b - 1) sigma/((sigma + alpha kappa) kappa), inv_kappa = "
    "1/kappa for the E and the H profile (so 0 < b <= 1 and a <= 0 for sigma, alpha >= 0, kappa >= 1: a "
    "contractive memory), default sigma_end = -(order+1) ln(1e-6)/(2 eta0 thickness); (3) grading — the profile is "
    "start + (end - start) (depth/L)^order with depth 0 on the interior face and growing into the layer for both "
    "directions, the max-side depth tables being the mirror image of the min-side ones (E and H roles swapped); "
    "(4) configuration wiring — every per-face BoundaryConfig value (start / end / order of sigma, kappa, alpha, "
    "thickness, direction, axis) reaches the PML field of the same name on that face."
)

PML = "fdtdx.objects.boundaries.perfectly_matched_layer.PerfectlyMatchedLayer"


def _wiring(ctx):
    n = 0
    for which, F, coef, kind in (("curl_E", "E", "H", "forward"), ("curl_H", "H", "E", "backward")):
        plain, _, _ = run_curl(ctx, which)
        for axis, direction, (k0, k1), simulate in itertools.product(range(3), "-+", ((1, 1), (1, 3), (2, 1), (2, 3)), (True, False)):
            if not simulate and (k0, k1) not in ((1, 1), (2, 3)):
                continue
            it = ctx.fresh_interp()
            sc = Scene(ctx.index, it)
            p = sc.pml(axis, direction, kappa_one=True, kappa_start=k0, kappa_end=k1)
            try:
                curl, psi_new, _ = run_curl(ctx, which, pmls=[p], simulate=simulate)
            except AnalysisError as e:
                raise
            name = p.attrs["name"]
            a_c, b_c, ik = (Rat.atom(f"{name}.a{coef}"), Rat.atom(f"{name}.b{coef}"), Rat.atom(f"{name}.ik{coef}"))
            psi_old = [Rat.atom(f"{name}.psi1"), Rat.atom(f"{name}.psi2")]
            pn = psi_new.get(name)
            if pn is None or len(pn) != 2:
                ctx.ob("R12.1", f"{which}[{name}]", False, "the layer's memory variables are returned", pn, "2 slots")
                continue
            # which derivative does each slot remember?  psi' = b psi + a D  =>  D = (psi' - b psi)/a
            label = f"{which}[{name},kappa=({k0},{k1}),simulate={simulate}]"
            n += 1
            bad = None
            D = []
            for k in (0, 1):
                pv = clean(pn[k].data[0] if isinstance(pn[k], NdArr) else pn[k])
                if not simulate:
                    if not pv.equals(psi_old[k]):
                        bad = bad or (f"psi{k + 1}", pv.fmt()[:200], "unchanged")
                    D.append(None)
                    continue
                d = (pv - b_c * psi_old[k]) / a_c
                if any(str(x).endswith((".psi1", ".psi2")) or x in (f"{name}.a{coef}", f"{name}.b{coef}") for x in d.atoms()):
                    bad = bad or (f"psi{k + 1}", pv.fmt()[:200], "b*psi + a*derivative with the layer's own coefficients")
                D.append(d)
            # recover the derivatives from the plain curl when psi is frozen
            derivs = {}
            for i in range(3):
                pl = clean(plain.data[i])
                for j in range(3):
                    s = levi(i, axis, j)
                    if s:
                        derivs[j] = derivs.get(j)
            # the curl components: out_i - plain_i must equal ind * sum_j eps_{i a j} * corr(d_a F_j)
            from ..ndarr import field_atom

            def d_aFj(j):
                sh = tuple((1 if kind == "forward" else -1) if k == axis else 0 for k in range(3))
                f0, f1 = to_rat(field_atom(f"{F}{j}")), to_rat(field_atom(f"{F}{j}", sh))
                return (f1 - f0) if kind == "forward" else (f0 - f1)

            slot_of = {}
            if simulate:
                for k in (0, 1):
                    hit = [j for j in range(3) if j != axis and D[k] is not None and D[k].equals(d_aFj(j))]
                    if len(hit) != 1:
                        bad = bad or (f"psi{k + 1}", D[k].fmt()[:200] if D[k] is not None else None, f"one of the two derivatives along axis {axis}")
                    else:
                        slot_of[hit[0]] = k
                if len(slot_of) != 2:
                    bad = bad or ("slots", slot_of, "each derivative has its own memory variable")
            fast = (k0 == 1 and k1 == 1)
            for i in range(3):
                diff = clean(curl.data[i]) - clean(plain.data[i])
                inds = [x for x in diff.atoms() if isinstance(x, tuple) and x and x[0] == "ind"]
                if i == axis:
                    if not diff.is_zero():
                        bad = bad or (f"component {i}", diff.fmt()[:200], "the component along the layer's axis has no derivative along it")
                    continue
                if len(inds) != 1:
                    bad = bad or (f"component {i}", f"{len(inds)} region indicators", "exactly the layer's region")
                    continue
                inner = diff.subs({inds[0]: Rat.const(1)})
                want = Rat.const(0)
                for j in range(3):
                    s = levi(i, axis, j)
                    if not s:
                        continue
                    d = d_aFj(j)
                    if simulate:
                        k = slot_of.get(j)
                        if k is None:
                            continue
                        psi_p = b_c * psi_old[k] + a_c * d
                        want = want + s * (psi_p if fast else ((ik - 1) * d + psi_p))
                    else:
                        # frozen memory: the slot is identified by sign and derivative below
                        pass
                if simulate and not inner.equals(want):
                    bad = bad or (f"component {i}", inner.fmt()[:260], want.fmt()[:260])
                if not simulate:
                    # some slot k and derivative j with the Levi-Civita sign: inner == s*((ik-1) d + psi_k) or s*psi_k
                    ok = False
                    for j in range(3):
                        s = levi(i, axis, j)
                        if not s:
                            continue
                        for k in (0, 1):
                            cand = s * (psi_old[k] if fast else ((ik - 1) * d_aFj(j) + psi_old[k]))
                            ok = ok or inner.equals(cand)
                    if not ok:
                        bad = bad or (f"component {i}", inner.fmt()[:260], "eps * ((1/kappa - 1) d + psi) with psi frozen")
            ctx.ob("R12.1", label, bad is None, f"inside the layer every derivative along axis {axis} becomes d + {'psi_new' if fast else '(1/kappa - 1) d + psi_new'} with psi_new = b psi + a d (the {coef} coefficients), each slot paired with its own derivative and entering with the curl's own sign" + (f" — fails at {bad[0]}" if bad else ""), bad[1] if bad else "2 slots, 2 components", bad[2] if bad else "CPML wiring")
    ctx.require_count("R12.1 layer cases", n, 60)


def _coefficients(ctx):
    ix = ctx.index
    P = ix.cls(PML)
    m = P.lookup_method("place_on_grid")
    ctx.unit(m.where())
    it = ctx.fresh_interp()
    sc = Scene(ix, it)
    consts = ix.module("fdtdx.constants")
    eps0 = to_rat(it.lookup_global(consts, "eps0"))
    eta0 = to_rat(it.lookup_global(consts, "eta0"))
    calls = []

    def profile(it_, a, k):
        calls.append(tuple(a[1:4]))
        tag = "skappa"[0] if False else None
        n = len(calls)
        nm = {1: "sig", 2: "kap", 3: "alp"}.get(n, f"p{n}")
        return (Rat.atom(f"{nm}E"), Rat.atom(f"{nm}H"))

    stub_repo_calls(it, {f"{PML}._compute_pml_profile": profile, "fdtdx.objects.object.SimulationObject.place_on_grid": lambda it_, a, k: a[0].replace(_config=(a[2] if len(a) > 2 else k.get("config"))), f"{PML}._physical_thickness": lambda it_, a, k: Rat.atom("thick")})
    guards = []

    def nan_to_num(it_, a, k):
        guards.append(to_rat(k.get("nan", 0)))
        return apply_fn("nan_to_num", to_rat(a[0]))  # kept visible: the 0/0 guard is part of the coefficient's definition

    it.ext_handlers["np.nan_to_num"] = nan_to_num
    cfg = sc.config(dtype=Unknown("dtype"))
    attrs = dict(name="pml", axis=0, direction="-", sigma_start=Rat.atom("s0"), sigma_end=Rat.atom("s1"), sigma_order=Rat.atom("so"), kappa_start=Rat.atom("k0"), kappa_end=Rat.atom("k1"), kappa_order=Rat.atom("ko"), alpha_start=Rat.atom("a0"), alpha_end=Rat.atom("a1"), alpha_order=Rat.atom("ao"))
    try:
        out = it.call_method(Obj(P, attrs, "pml"), "place_on_grid", ((0, 8), (0, 4), (0, 4)), cfg, Rat.atom("key"))
    except Raised as r:
        raise AnalysisError(f"PerfectlyMatchedLayer.place_on_grid raises: {r}")
    want_calls = [("s0", "s1", "so"), ("k0", "k1", "ko"), ("a0", "a1", "ao")]
    got_calls = [tuple(to_rat(x).fmt() for x in c) for c in calls]
    ctx.ob("R12.3", f"{PML}.place_on_grid:profiles", got_calls == want_calls, "sigma, kappa and alpha profiles are each built from their own (start, end, order)", got_calls, want_calls)
    dt = Rat.atom("dt")
    for f in ("E", "H"):
        sg, kp, al = Rat.atom(f"sig{f}"), Rat.atom(f"kap{f}"), Rat.atom(f"alp{f}")
        b_want = apply_fn("exp", -dt / eps0 * (sg / kp + al))
        b_got = to_rat(out.attrs[f"pml_b_{f}"])
        # expm1(u) + 1 == exp(u)
        b_norm = b_got.subs({x: apply_fn("exp", x[2]) - 1 for x in b_got.atoms() if isinstance(x, tuple) and x[:2] == ("call", "expm1")})
        ctx.ob("R12.3", f"{PML}.place_on_grid:b_{f}", b_norm.equals(b_want), "b = exp(-dt/eps0 (sigma/kappa + alpha)) from the profile of the same staggering", b_norm.fmt()[:200], b_want.fmt()[:200])
        a_got = to_rat(out.attrs[f"pml_a_{f}"])
        g_atoms = [x for x in a_got.atoms() if isinstance(x, tuple) and x[:2] == ("call", "nan_to_num")]
        guarded = len(g_atoms) == 1 and a_got.equals(Rat.atom(g_atoms[0]))
        ctx.ob("R12.3", f"{PML}.place_on_grid:a_{f}:guard", guarded and all(g.is_zero() for g in guards), "the quotient is wrapped in nan_to_num(..., nan=0): where sigma + alpha kappa = 0 (sigma_start = 0 at the inner face with alpha = 0, the classic setting) the coefficient is 0 instead of 0/0", a_got.fmt()[:160], "nan_to_num((b - 1) sigma / ((sigma + alpha kappa) kappa), nan=0)")
        if guarded:
            a_got = to_rat(g_atoms[0][2])
        a_norm = a_got.subs({x: apply_fn("exp", x[2]) - 1 for x in a_got.atoms() if isinstance(x, tuple) and x[:2] == ("call", "expm1")})
        a_want = (b_want - 1) * sg / (sg + al * kp) / kp
        ctx.ob("R12.3", f"{PML}.place_on_grid:a_{f}", a_norm.equals(a_want), "a = (b - 1) sigma / ((sigma + alpha kappa) kappa): non-positive for sigma, alpha >= 0, kappa >= 1 (b <= 1), i.e. a contractive memory", a_norm.fmt()[:200], a_want.fmt()[:200])
        ik = to_rat(out.attrs[f"inv_kappa_{f}"])
        ctx.ob("R12.3", f"{PML}.place_on_grid:inv_kappa_{f}", ik.equals(1 / kp), "inv_kappa = 1/kappa of the same staggering", ik.fmt(), (1 / kp).fmt())
    # default sigma_end
    it2 = ctx.fresh_interp()
    calls.clear()
    stub_repo_calls(it2, {f"{PML}._compute_pml_profile": profile, "fdtdx.objects.object.SimulationObject.place_on_grid": lambda it_, a, k: a[0].replace(_config=(a[2] if len(a) > 2 else k.get("config"))), f"{PML}._physical_thickness": lambda it_, a, k: Rat.atom("thick")})
    it2.ext_handlers["np.nan_to_num"] = lambda it_, a, k: a[0]
    out2 = it2.call_method(Obj(P, dict(attrs, sigma_end=None), "pml"), "place_on_grid", ((0, 8), (0, 4), (0, 4)), cfg, Rat.atom("key"))
    se = to_rat(out2.attrs["sigma_end"])
    want = -(Rat.atom("so") + 1) * apply_fn("log", Rat.const(Fr(1, 10**6))) / (2 * eta0 * Rat.atom("thick"))
    ctx.ob("R12.3", f"{PML}.place_on_grid:sigma_end-default", se.equals(want), "default sigma_end = -(order + 1) ln(1e-6) / (2 eta0 thickness) (theoretical reflection 1e-6)", se.fmt()[:200], want.fmt()[:200])


def _profile(ctx):
    ix = ctx.index
    P = ix.cls(PML)
    m = P.lookup_method("_compute_pml_profile")
    ctx.unit(m.where())
    L = 5
    tables = {}
    for axis, direction in itertools.product(range(3), "-+"):
        it = ctx.fresh_interp()
        sc = Scene(ix, it)

        def arange(it_, a, k):
            vals = [Fr(to_rat(x).const_value()) for x in a]
            start, stop, step = (vals + [Fr(1)])[:3] if len(vals) == 3 else (vals[0], vals[1], Fr(1)) if len(vals) == 2 else (Fr(0), vals[0], Fr(1))
            out, v = [], start
            while (step > 0 and v < stop) or (step < 0 and v > stop):
                out.append(v)
                v += step
            return NdArr((len(out),), out)

        it.ext_overrides["np.arange"] = arange
        it.ext_overrides["np.append"] = lambda it_, a, k: NdArr((len(a[0].data) + 1,), list(a[0].data) + [a[1]])
        it.ext_overrides["np.insert"] = lambda it_, a, k: NdArr((len(a[0].data) + 1,), list(a[0].data[: int(a[1])]) + [a[2]] + list(a[0].data[int(a[1]) :]))
        it.ext_overrides["np.power"] = lambda it_, a, k: (a[0].map(lambda v: apply_fn("pow", to_rat(v), to_rat(a[1])) if not to_rat(v).is_zero() else Rat.const(0)) if isinstance(a[0], NdArr) else apply_fn("pow", to_rat(a[0]), to_rat(a[1])))
        gshape = tuple(L if a == axis else 3 for a in range(3))
        obj = Obj(P, dict(name="pml", axis=axis, direction=direction, grid_shape=gshape, _config=sc.config(has_nonuniform_grid=False)), "pml")
        pe, ph = it.call_method(obj, "_compute_pml_profile", Rat.atom("v0"), Rat.atom("v1"), Rat.atom("p"), Unknown("dtype"))
        want_shape = tuple(L if a == axis else 1 for a in range(3))
        depth = {}
        bad = None
        for nm, prof in (("E", pe), ("H", ph)):
            if not (isinstance(prof, NdArr) and prof.shape == want_shape):
                bad = bad or (nm, getattr(prof, "shape", prof), want_shape)
                continue
            ds = []
            for v in prof.data:
                r = to_rat(v)
                # r = v0 + (v1 - v0) * pow(d/L, p)  -> recover d
                pows = [x for x in r.atoms() if isinstance(x, tuple) and x[:2] == ("call", "pow")]
                if not pows:
                    ds.append(Fr(0) if r.equals(Rat.atom("v0")) else None)
                    continue
                d_over_L = pows[0][2]
                ok = r.equals(Rat.atom("v0") + (Rat.atom("v1") - Rat.atom("v0")) * Rat.atom(pows[0])) and pows[0][3].equals(Rat.atom("p")) and d_over_L.is_const()
                ds.append(d_over_L.const_value() * L if ok else None)
            depth[nm] = ds
            if any(d is None for d in ds):
                bad = bad or (nm, [str(d) for d in ds], "start + (end - start) (depth/L)^order")
        tables[(axis, direction)] = depth
        if bad is None:
            inner = -1 if direction == "-" else 0  # array index of the cell next to the interior
            for nm in "EH":
                ds = depth[nm]
                mono = all(x <= y for x, y in zip(ds, ds[1:])) if direction == "+" else all(x >= y for x, y in zip(ds, ds[1:]))
                if ds[inner] != 0 or not mono or max(ds) >= L or min(ds) < 0:
                    bad = bad or (nm, [str(d) for d in ds], "depth 0 at the interior face, growing into the layer, below L")
        ctx.ob("R12.4", f"{PML}._compute_pml_profile[axis{axis},{direction}]", bad is None, "profile = start + (end - start) (depth/L)^order along the layer's own axis, depth 0 on the interior face (no loss, no stretching there with the default starts) and monotone into the layer", bad[1] if bad else {k: [str(x) for x in v] for k, v in depth.items()}, bad[2] if bad else "graded profile")
    for axis in range(3):
        lo, hi = tables.get((axis, "-")), tables.get((axis, "+"))
        ok = bool(lo and hi) and hi.get("E") == list(reversed(lo.get("H", []))) and hi.get("H") == list(reversed(lo.get("E", [])))
        ctx.ob("R12.4", f"{PML}._compute_pml_profile[axis{axis}]:mirror", ok, "the max-side depth tables are the mirror image of the min-side ones with the E and H staggering swapped", {k: {n: [str(x) for x in v] for n, v in t.items()} for k, t in (("-", lo or {}), ("+", hi or {}))}, "dE(+) = reverse(dH(-)), dH(+) = reverse(dE(-))")


def _config_wiring(ctx):
    ix = ctx.index
    f = ix.function("fdtdx.objects.boundaries.initialization.boundary_objects_from_config")
    ctx.unit(f.where())
    BC = ix.cls("fdtdx.objects.boundaries.initialization.BoundaryConfig")
    it = ctx.fresh_interp()
    attrs = {}
    faces = {"min_x": "minx", "max_x": "maxx", "min_y": "miny", "max_y": "maxy", "min_z": "minz", "max_z": "maxz"}
    props = ("kappa_start", "kappa_end", "kappa_order", "alpha_start", "alpha_end", "alpha_order", "sigma_start", "sigma_end", "sigma_order")
    for kind, sfx in faces.items():
        attrs[f"thickness_grid_{sfx}"] = Rat.atom(f"thick_{sfx}")
        attrs[f"boundary_type_{sfx}"] = "pml"
        for p in props:
            attrs[f"{p}_{sfx}"] = Rat.atom(f"{p}_{sfx}")
    attrs["bloch_vector"] = (0, 0, 0)
    made = {}
    P = ix.cls(PML)

    def mk(it_, a, k):
        o = Obj(P, dict(k), "pml")
        o.attrs["place_relative_to"] = Builtin("place_relative_to", lambda i2, a2, k2: ("constraint", k2.get("axes"), k2.get("own_positions"), k2.get("other_positions")))
        return o

    it.call_hooks.append(lambda it_, callee, args, kwargs: mk(it_, args, kwargs) if isinstance(callee, ClassRef) and callee.ci is P else NotImplemented)
    bnds, cons = it.call(it.closure_of(f), [Obj(BC, attrs, "bc"), Obj(None, {"name": "volume"}, "volume")], {})
    bad = []
    for kind, sfx in faces.items():
        b = bnds.get(kind)
        if not isinstance(b, Obj):
            bad.append((kind, "missing"))
            continue
        for p in props:
            if not to_rat(b.attrs.get(p)).equals(Rat.atom(f"{p}_{sfx}")):
                bad.append((kind, p, to_rat(b.attrs.get(p)).fmt()))
        axis = "xyz".index(kind[-1])
        if b.attrs.get("axis") != axis or b.attrs.get("direction") != ("-" if kind.startswith("min") else "+"):
            bad.append((kind, "axis/direction", b.attrs.get("axis"), b.attrs.get("direction")))
        pg = b.attrs.get("partial_grid_shape")
        if not (pg and to_rat(pg[axis]).equals(Rat.atom(f"thick_{sfx}")) and all(pg[a] is None for a in range(3) if a != axis)):
            bad.append((kind, "thickness", pg))
    ctx.ob("R12.5", "boundary_objects_from_config:pml-fields", not bad, "each of the nine grading parameters, the thickness, the axis and the direction of every face reaches the PML field of the same name on that face (54 + 18 wires)", bad[:4], "identity wiring per face")


def run(ctx):
    _wiring(ctx)
    _coefficients(ctx)
    _profile(ctx)
    _config_wiring(ctx)
    ctx.require_count("C12", len(ctx.obligations), 80)
    ctx.trusted_base += ["Levi-Civita oracle of the discrete curl (C01)", "exp/expm1/log as opaque functions with expm1(u)+1 = exp(u)", "models of arange / append / insert / power on concrete depth tables"]
    ctx.assume("sigma, alpha >= 0 and kappa >= 1 (documented parameter domains) for the sign statements on a and b")
