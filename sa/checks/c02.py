"""C02 — one backward step exactly undoes one forward step."""

from __future__ import annotations

import itertools

from ..harness import stub_repo_calls
from ..index import AnalysisError
from ..kernel import clean
from ..ndarr import NdArr, field_atom, strip_pad
from ..poly import Rat
from ..scene import SP, Scene, vec
from ..values import Builtin, Obj, Raised, SymBool, to_rat

LEVEL = "proof"
EXPLANATION = (
    "Proves, as polynomial identities over the reals, that backward(forward(state)) == state for E and H: the "
    "repo's forward() and backward() are composed by the abstract interpreter on symbolic fields, materials, "
    "conductivities, step counter and abstract sources, and the result is compared with the initial fields "
    "(wall cells: with the wall projection of the initial field, i.e. equality for every state satisfying the "
    "wall conditions).  Covered paths: isotropic / diagonal tiers x {lossless, electric loss, magnetic loss, "
    "both}, fully anisotropic lossless permittivity and permeability (uniform grid), zero / periodic halos, "
    "PEC and PMC walls on every axis, always-on and scheduled sources.  Sources are abstract here (inject "
    "sign*J(time argument)); that every public source class has this form is decided per class "
    "(additive, field-independent injection whose only dependence on `inverse` is the sign).  Round-off, "
    "dispersive media and absorbing layers are outside the property."
)


class Src:
    """Abstract source: update_X(F, ..., time_step, inverse) = F + (-1 if inverse else 1) * J_X(name, time_step)."""

    def __init__(self, ix, name, default_switch):
        self.name = name
        S = ix.cls("fdtdx.objects.sources.source.Source")
        W = ix.cls("fdtdx.core.switch.OnOffSwitch")
        switch = Obj(W, {"is_default_always_on": default_switch}, f"{name}.switch")

        def upd(kind):
            def f(it, a, k):
                F = k.get(kind, a[0] if a else None)
                t = k.get("time_step")
                inv = k.get("inverse")
                if not isinstance(inv, bool):
                    raise AnalysisError("source update called with a non-literal `inverse`")
                J = NdArr((3,), [Rat.atom(("J", name, kind, c, to_rat(t))) for c in range(3)], SP)
                from ..ndarr import elementwise

                sgn = -1 if inv else 1
                return elementwise(lambda x, y: to_rat(x) + sgn * to_rat(y), F if isinstance(F, NdArr) else NdArr((), [F]), J)

            return Builtin(f"update_{kind}", f)

        self.obj = Obj(
            S,
            {
                "name": name,
                "switch": switch,
                "update_E": upd("E"),
                "update_H": upd("H"),
                "is_on_at_time_step": Builtin("is_on", lambda it, a, k: SymBool(("on", name, to_rat(a[0]).fmt()))),
                "adjust_time_step_by_on_off": Builtin("adjust", lambda it, a, k: Rat.atom(("adj", name, to_rat(a[0])))),
            },
            name,
        )


def _roundtrip(ctx, label, arrays_kw, boundaries=(), with_sources=True, sym=(0, 0, 0)):
    ix = ctx.index
    it = ctx.fresh_interp()
    sc = Scene(ix, it)
    it.ext_handlers["np.linalg.solve"] = _solve
    bs = [sc.boundary(q, a, d) for (q, a, d) in boundaries]
    srcs = [Src(ix, "s_default", True).obj, Src(ix, "s_sched", False).obj] if with_sources else []
    objs = sc.objects(bs + srcs)
    cfg = sc.config(symmetry=sym)
    arrays = sc.arrays(**arrays_kw)
    if bs:
        # the property quantifies over states that satisfy the wall conditions: project the
        # symbolic initial fields with the repo's own wall hooks
        flds = arrays.attrs["fields"]
        E0 = it.call_function("fdtdx.fdtd.update.apply_boundary_post_E_update", flds.attrs["E"], objs)
        H0 = it.call_function("fdtdx.fdtd.update.apply_boundary_post_H_update", flds.attrs["H"], objs)
        arrays = arrays.replace(fields=flds.replace(E=E0, H=H0))
    stub_repo_calls(it, {"fdtdx.fdtd.update.add_interfaces": lambda it_, a, k: k.get("arrays", a[1] if len(a) > 1 else None)})
    fwd = ix.function("fdtdx.fdtd.forward.forward")
    bwd = ix.function("fdtdx.fdtd.backward.backward")
    ctx.unit(fwd.where())
    ctx.unit(bwd.where())
    t = Rat.atom("t")
    try:
        s1 = it.call(it.closure_of(fwd), [], dict(state=(t, arrays), config=cfg, objects=objs, key=Rat.atom("key"), record_detectors=False, record_boundaries=False, simulate_boundaries=True))
        s2 = it.call(it.closure_of(bwd), [], dict(state=s1, config=cfg, objects=objs, key=Rat.atom("key"), record_detectors=False, reset_fields=True))
    except Raised as r:
        raise AnalysisError(f"{label}: forward/backward raises on the symbolic scene: {r}")
    t2, arr2 = s2
    ctx.ob("R2.4", f"{label}:time", to_rat(t2).equals(t), "backward returns to the step index forward started from", to_rat(t2).fmt(), "t")
    for F in ("E", "H"):
        new = arr2.attrs["fields"].attrs[F]
        old = arrays.attrs["fields"].attrs[F]
        ok = isinstance(new, NdArr) and new.shape == (3,)
        bad = None
        for c in range(3):
            got = clean(new.data[c]) if ok else None
            want = to_rat(old.data[c])
            if got is None or not got.equals(want):
                ok = False
                bad = bad or (c, got.fmt()[:260] if got is not None else None, want.fmt()[:200])
        ctx.ob(
            "R2.1",
            f"{label}:{F}",
            ok,
            f"backward(forward(state)).{F} == state.{F} (initial state projected onto the wall conditions where walls exist)",
            bad[1] if bad else "3 components identical",
            bad[2] if bad else "initial field",
        )


def _solve(it, a, k):
    """linalg.solve(M1, M2) for the lossless case M1 = I: returns M2 (anything else is not modelled)."""
    M1, M2 = a[0], a[1]
    if isinstance(M1, NdArr):
        # (Nx,Ny,Nz,3,3) view of (3,3,...) data: spatial block is implicit, so the explicit part is 3x3
        vals = [to_rat(x) for x in M1.data]
        shp = M1.shape
        if shp[-2:] == (3, 3) or shp == (3, 3):
            ident = all(v.equals(1 if (i // 3) == (i % 3) else 0) for i, v in enumerate(vals[-9:])) and len(vals) == 9
            if ident:
                return M2
    raise AnalysisError("linalg.solve with a non-identity left matrix (lossy full-tensor update is outside C02)")


PEC = "fdtdx.objects.boundaries.pec.PerfectElectricConductor"
PMC = "fdtdx.objects.boundaries.pmc.PerfectMagneticConductor"
BLO = "fdtdx.objects.boundaries.bloch.BlochBoundary"


def run(ctx):
    # material tiers x loss
    for comps, se, sh in itertools.product((1, 3), (False, True), (False, True)):
        kw = dict(eps_comps=comps, mu_comps=comps, sigma_e=(comps if se else None), sigma_h=(comps if sh else None))
        tag = f"{'iso' if comps == 1 else 'diag'}:{'sigmaE' if se else ''}{'sigmaH' if sh else ''}" + ("lossless" if not (se or sh) else "")
        _roundtrip(ctx, f"roundtrip:{tag}", kw)
    # scalar (non-magnetic) permeability
    _roundtrip(ctx, "roundtrip:scalar-mu", dict(eps_comps=3, mu_comps=0))
    # walls on every axis
    for axis in range(3):
        _roundtrip(ctx, f"roundtrip:pec-pmc:axis{axis}", dict(eps_comps=3, mu_comps=3, sigma_e=3), boundaries=[(PEC, axis, "-"), (PMC, axis, "+")])
    # periodic halos (no phase)
    _roundtrip(ctx, "roundtrip:periodic", dict(eps_comps=1, mu_comps=1), boundaries=[(BLO, a, d) for a in range(3) for d in "-+"])
    # fully anisotropic lossless tensors
    _roundtrip(ctx, "roundtrip:full-eps", dict(eps_comps=9, mu_comps=3))
    _roundtrip(ctx, "roundtrip:full-mu", dict(eps_comps=3, mu_comps=9))
    _roundtrip(ctx, "roundtrip:full-both", dict(eps_comps=9, mu_comps=9), with_sources=False)
    _source_classes(ctx)
    ctx.require_count("C02", len(ctx.obligations), 40)
    ctx.trusted_base.append("abstract source model sign*J(time argument), justified per public source class by R2.5")


def _source_classes(ctx):
    """R2.5: every public Source class injects additively, independent of the field, and `inverse` only
    flips the sign — decided by interpreting update_E / update_H with both values of `inverse`."""
    from . import c10

    c10.source_linearity(ctx, rule="R2.5", for_c02=True)
