"""C02 — one backward step exactly undoes one forward step."""

from __future__ import annotations

import itertools

from ..harness import stub_repo_calls
from ..index import AnalysisError
from ..kernel import clean, metric_stub
from ..ndarr import NdArr, field_atom, strip_pad
from ..poly import Rat
from ..scene import SP, Scene, vec
from ..values import Builtin, Obj, Raised, SymBool, to_rat

LEVEL = "other"
EXPLANATION = (
    "Decides, as polynomial identities over the reals, that backward(forward(state)) == state for E and H "
    "and that the step counter returns: the repo's forward() and backward() are composed by the abstract "
    "interpreter on symbolic fields, materials, conductivities, step counter and abstract sources, and the "
    "result is compared with the initial fields (with walls: with the wall projection of the initial field, "
    "i.e. for every state satisfying the wall conditions).  Paths covered: isotropic / diagonal tiers x "
    "{lossless, electric loss, magnetic loss, both}, scalar permeability, fully anisotropic lossless "
    "permittivity and / or permeability, zero / periodic halos, Bloch phases per axis on complex fields, "
    "PEC and PMC walls on every axis, non-uniform metric scales, always-on and scheduled sources.  Sources "
    "are abstract in that composition (F + sign*J(time argument), switch and on/off time map opaque); that "
    "every exported source class has exactly this form is decided per class by a def-use rule on the "
    "syntax tree: additive .at[].add injection, one inverse-controlled sign factor, magnitude and region "
    "independent of the field and of `inverse`.  Not decided: round-off, the temporal profile values, "
    "dispersive media and absorbing layers (outside the property), lossy full tensors (outside)."
)


class Src:
    """Abstract source: update_X(F, ..., time_step, inverse) = F + (-1 if inverse else 1) * J_X(name, time_step)."""

    def __init__(self, ix, name, default_switch):
        self.name = name
        S = ix.cls("fdtdx.objects.sources.source.Source")
        W = ix.cls("fdtdx.core.switch.OnOffSwitch")
        switch = Obj(W, {"is_default_always_on": default_switch}, f"{name}.switch")

        def upd(kind):
            def f(it, a, k):
                F = k.get(kind, a[0] if a else None)
                t = k.get("time_step")
                inv = k.get("inverse")
                if not isinstance(inv, bool):
                    raise AnalysisError("source update called with a non-literal `inverse`")
                J = NdArr((3,), [Rat.atom(("J", name, kind, c, to_rat(t))) for c in range(3)], SP)
                from ..ndarr import elementwise

                sgn = -1 if inv else 1
                return elementwise(lambda x, y: to_rat(x) + sgn * to_rat(y), F if isinstance(F, NdArr) else NdArr((), [F]), J)

            return Builtin(f"update_{kind}", f)

        self.obj = Obj(
            S,
            {
                "name": name,
                "switch": switch,
                "update_E": upd("E"),
                "update_H": upd("H"),
                "is_on_at_time_step": Builtin("is_on", lambda it, a, k: SymBool(("on", name, to_rat(a[0]).fmt()))),
                "adjust_time_step_by_on_off": Builtin("adjust", lambda it, a, k: Rat.atom(("adj", name, to_rat(a[0])))),
            },
            name,
        )


def _roundtrip(ctx, label, arrays_kw, boundaries=(), with_sources=True, sym=(0, 0, 0), nonuniform=False, bkw=None):
    ix = ctx.index
    it = ctx.fresh_interp()
    sc = Scene(ix, it)
    it.ext_handlers["np.linalg.solve"] = _solve
    if nonuniform:
        metric_stub(it)  # one distinct scale atom per (axis, stencil); its value is C01's rule R1.3

        def widths(it_, a, k):
            # per-axis cell widths on the padded window: one symbol per axis that varies along that axis only
            from ..ndarr import field_atom
            from ..scene import SP

            padded = tuple(d.with_(lo=d.lo - 1, hi=d.hi + 1) for d in SP)
            return tuple(NdArr((), [field_atom(f"aw{ax}", (0, 0, 0), (ax,))], padded) for ax in range(3))

        stub_repo_calls(it, {"fdtdx.fdtd.update.get_anisotropic_averaging_widths": widths})
    grid = Obj(None, {"min_spacing": Rat.atom("res")}, "grid") if nonuniform else None
    cfg = sc.config(symmetry=sym, has_nonuniform_grid=nonuniform, resolved_grid=grid)
    bs = [sc.boundary(q, a, d, **(dict(bkw, _config=cfg) if bkw else {})) for (q, a, d) in boundaries]
    srcs = [Src(ix, "s_default", True).obj, Src(ix, "s_sched", False).obj] if with_sources else []
    objs = sc.objects(bs + srcs)
    arrays = sc.arrays(**arrays_kw)
    if bs:
        # the property quantifies over states that satisfy the wall conditions: project the
        # symbolic initial fields with the repo's own wall hooks
        flds = arrays.attrs["fields"]
        E0 = it.call_function("fdtdx.fdtd.update.apply_boundary_post_E_update", flds.attrs["E"], objs)
        H0 = it.call_function("fdtdx.fdtd.update.apply_boundary_post_H_update", flds.attrs["H"], objs)
        arrays = arrays.replace(fields=flds.replace(E=E0, H=H0))
    stub_repo_calls(it, {"fdtdx.fdtd.update.add_interfaces": lambda it_, a, k: k.get("arrays", a[1] if len(a) > 1 else None)})
    fwd = ix.function("fdtdx.fdtd.forward.forward")
    bwd = ix.function("fdtdx.fdtd.backward.backward")
    ctx.unit(fwd.where())
    ctx.unit(bwd.where())
    t = Rat.atom("t")
    try:
        s1 = it.call(it.closure_of(fwd), [], dict(state=(t, arrays), config=cfg, objects=objs, key=Rat.atom("key"), record_detectors=False, record_boundaries=False, simulate_boundaries=True))
        s2 = it.call(it.closure_of(bwd), [], dict(state=s1, config=cfg, objects=objs, key=Rat.atom("key"), record_detectors=False, reset_fields=True))
    except Raised as r:
        raise AnalysisError(f"{label}: forward/backward raises on the symbolic scene: {r}")
    t2, arr2 = s2
    ctx.ob("R2.4", f"{label}:time", to_rat(t2).equals(t), "backward returns to the step index forward started from", to_rat(t2).fmt(), "t")
    for F in ("E", "H"):
        new = arr2.attrs["fields"].attrs[F]
        old = arrays.attrs["fields"].attrs[F]
        ok = isinstance(new, NdArr) and new.shape == (3,)
        bad = None
        for c in range(3):
            got = clean(new.data[c]) if ok else None
            want = to_rat(old.data[c])
            if got is None or not got.equals(want):
                ok = False
                bad = bad or (c, got.fmt()[:260] if got is not None else None, want.fmt()[:200])
        ctx.ob(
            "R2.1",
            f"{label}:{F}",
            ok,
            f"backward(forward(state)).{F} == state.{F} (initial state projected onto the wall conditions where walls exist)",
            bad[1] if bad else "3 components identical",
            bad[2] if bad else "initial field",
        )


def _solve(it, a, k):
    """linalg.solve(M1, M2) for the lossless case M1 = I: returns M2 (anything else is not modelled)."""
    M1, M2 = a[0], a[1]
    if isinstance(M1, NdArr):
        # (Nx,Ny,Nz,3,3) view of (3,3,...) data: spatial block is implicit, so the explicit part is 3x3
        vals = [to_rat(x) for x in M1.data]
        shp = M1.shape
        if shp[-2:] == (3, 3) or shp == (3, 3):
            ident = all(v.equals(1 if (i // 3) == (i % 3) else 0) for i, v in enumerate(vals[-9:])) and len(vals) == 9
            if ident:
                return M2
    raise AnalysisError("linalg.solve with a non-identity left matrix (lossy full-tensor update is outside C02)")


PEC = "fdtdx.objects.boundaries.pec.PerfectElectricConductor"
PMC = "fdtdx.objects.boundaries.pmc.PerfectMagneticConductor"
BLO = "fdtdx.objects.boundaries.bloch.BlochBoundary"


def _scenarios(tier):
    """(label, arrays_kw, keyword arguments of _roundtrip) for every composed scene."""
    sc, later = [], []
    # material tiers x loss
    for comps, se, sh in itertools.product((1, 3), (False, True), (False, True)):
        kw = dict(eps_comps=comps, mu_comps=comps, sigma_e=(comps if se else None), sigma_h=(comps if sh else None))
        tag = f"{'iso' if comps == 1 else 'diag'}:{'sigmaE' if se else ''}{'sigmaH' if sh else ''}" + ("lossless" if not (se or sh) else "")
        (later if se and sh else sc).append((f"roundtrip:{tag}", kw, {}))
    # scalar (non-magnetic) permeability
    sc.append(("roundtrip:scalar-mu", dict(eps_comps=3, mu_comps=0), {}))
    n1 = len(sc)  # phase 1 ends here: the plain material tiers with at most one loss
    sc += later
    # walls on every axis, with the loss on the same and on the other half step
    for axis in range(3):
        sc.append((f"roundtrip:pec-pmc:axis{axis}", dict(eps_comps=3, mu_comps=3, sigma_e=3), dict(boundaries=[(PEC, axis, "-"), (PMC, axis, "+")])))
        sc.append((f"roundtrip:pmc-pec:sigmaH:axis{axis}", dict(eps_comps=1, mu_comps=1, sigma_h=1), dict(boundaries=[(PMC, axis, "-"), (PEC, axis, "+")])))
    sc.append(("roundtrip:walls-all-axes", dict(eps_comps=3, mu_comps=3), dict(boundaries=[(PEC, a, "-") for a in range(3)] + [(PMC, a, "+") for a in range(3)])))
    # periodic halos (no phase) on all axes; Bloch phase exp(+-ikL) per axis, complex fields
    sc.append(("roundtrip:periodic", dict(eps_comps=1, mu_comps=1), dict(boundaries=[(BLO, a, d) for a in range(3) for d in "-+"])))
    for axis in range(3):
        sc.append((f"roundtrip:bloch:axis{axis}", dict(eps_comps=3, mu_comps=3, sigma_e=3), dict(boundaries=[(BLO, axis, d) for d in "-+"], bloch=True)))
    # non-uniform grid: each derivative scaled by an opaque metric atom per (axis, stencil)
    sc.append(("roundtrip:nonuniform:diag:sigmaEsigmaH", dict(eps_comps=3, mu_comps=3, sigma_e=3, sigma_h=3), dict(nonuniform=True)))
    sc.append(("roundtrip:nonuniform:walls", dict(eps_comps=1, mu_comps=1), dict(nonuniform=True, boundaries=[(PEC, 0, "-"), (PMC, 1, "+"), (PEC, 2, "+")])))
    sc.append(("roundtrip:nonuniform:periodic", dict(eps_comps=3, mu_comps=3), dict(nonuniform=True, boundaries=[(BLO, a, d) for a in range(3) for d in "-+"])))
    # fully anisotropic lossless tensors
    sc.append(("roundtrip:full-eps", dict(eps_comps=9, mu_comps=3), {}))
    sc.append(("roundtrip:full-mu", dict(eps_comps=3, mu_comps=9), {}))
    sc.append(("roundtrip:full-both", dict(eps_comps=9, mu_comps=9), dict(with_sources=False)))
    # full tensors next to a Bloch face: the off-diagonal averages read the ghost layer, which must carry the phase in
    # the forward and in the reverse update alike
    sc.append(("roundtrip:full-mu:bloch:axis0", dict(eps_comps=3, mu_comps=9), dict(with_sources=False, boundaries=[(BLO, 0, d) for d in "-+"], bloch=True)))
    sc.append(("roundtrip:full-eps:bloch:axis2", dict(eps_comps=9, mu_comps=3), dict(with_sources=False, boundaries=[(BLO, 2, d) for d in "-+"], bloch=True)))
    # full tensors on a non-uniform grid: the off-diagonal averages are weighted by the cell widths
    sc.append(("roundtrip:nonuniform:full-eps", dict(eps_comps=9, mu_comps=3), dict(nonuniform=True, with_sources=False)))
    sc.append(("roundtrip:nonuniform:full-mu", dict(eps_comps=3, mu_comps=9), dict(nonuniform=True, with_sources=False)))
    n2 = len(sc)
    if tier == "thorough":
        # heavier compositions: Bloch phases on two and three axes at once (minutes)
        for axes in ((0, 1), (1, 2), (0, 2)):
            sc.append((f"roundtrip:bloch:axes{axes[0]}{axes[1]}", dict(eps_comps=1, mu_comps=1), dict(boundaries=[(BLO, a, d) for a in axes for d in "-+"], bloch=True)))
        sc.append(("roundtrip:bloch:all-axes", dict(eps_comps=1, mu_comps=1), dict(boundaries=[(BLO, a, d) for a in range(3) for d in "-+"], bloch=True)))
        sc.append(("roundtrip:full-both:sources", dict(eps_comps=9, mu_comps=9), {}))
    return sc, (n1, n2, len(sc))


def _one(ctx, scen):
    label, akw, kw = scen
    kw = dict(kw)
    if kw.pop("bloch", False):
        kw["bkw"] = dict(bloch_vector=(Rat.atom("k0"), Rat.atom("k1"), Rat.atom("k2")), needs_complex_fields=True)
    _roundtrip(ctx, label, akw, **kw)


def _work(args):
    """Worker process: one scene on a private Ctx; returns plain data."""
    repo, tier, k = args
    from ..report import Ctx

    c = Ctx("C02", tier, repo, 0)
    from .. import par as _par

    if _par._SHARED_INDEX is not None and _par._SHARED_INDEX.repo_root == __import__("os").path.abspath(repo):
        c._index = _par._SHARED_INDEX
    err = None
    try:
        _one(c, _scenarios(tier)[0][k])
    except AnalysisError as e:
        err = ("analysis", str(e))
    except RecursionError:
        err = ("analysis", "RecursionError in analyser")
    except Exception as e:  # analyser bug (e.g. polynomial guard): never a verdict
        err = ("analysis", f"internal {type(e).__name__}: {e}")
    obs = [(o.rule, o.construct, o.ok, o.detail, str(o.extracted), str(o.oracle), o.nontrivial) for o in c.obligations]
    return k, obs, list(c.units), dict(c.index.consulted), err


def _run_scenes(ctx):
    """All scenes, independent of each other, spread over the cores (serial fallback) and merged in scene
    order.  Three phases (plain tiers; boundaries / metric / tensors; thorough-only heavy scenes): a phase
    with a failed obligation ends the run, because on a tree whose round trip is broken the later, larger
    compositions no longer cancel and only cost time."""
    import os

    scen, bounds = _scenarios(ctx.tier)
    from .. import par as _par

    _par._SHARED_INDEX = ctx.index
    first_err = None
    done = 0
    lo = 0
    pool = None
    workers = min(max(b - a for a, b in zip((0,) + bounds, bounds)), os.cpu_count() or 1, 16)
    if workers > 1 and not os.environ.get("VERIF_SERIAL"):
        try:
            import multiprocessing as mp
            from concurrent.futures import ProcessPoolExecutor

            pool = ProcessPoolExecutor(max_workers=workers, mp_context=mp.get_context("fork"))
        except Exception as e:  # no usable process pool here: same work in this process
            ctx.note(f"process pool unavailable ({type(e).__name__}); scenes run serially")
    try:
        for hi in bounds:
            jobs = [(ctx.repo, ctx.tier, k) for k in range(lo, hi)]
            lo = hi
            if not jobs:
                continue
            results = None
            if pool is not None:
                try:
                    results = list(pool.map(_work, jobs))
                except Exception as e:
                    ctx.note(f"process pool failed ({type(e).__name__}); scenes run serially")
                    pool = None
            if results is None:
                results = [_work(j) for j in jobs]
            failed = False
            for k, obs, units, consulted, err in sorted(results, key=lambda r: r[0]):
                for o in obs:
                    failed |= not ctx.ob(*o[:4], o[4], o[5], nontrivial=o[6])
                for u in units:
                    ctx.unit(u)
                ctx.index.consulted.update(consulted)
                if err is not None and first_err is None:
                    first_err = f"{scen[k][0]}: {err[1]}"
            done += len(jobs)
            if failed or first_err is not None:
                if done < len(scen):
                    ctx.note(f"stopped after {done} of {len(scen)} scenes: an earlier phase failed")
                break
    finally:
        if pool is not None:
            pool.shutdown(wait=True, cancel_futures=True)
    return done, first_err


def run(ctx):
    n, err = _run_scenes(ctx)
    try:
        _source_classes(ctx)
        _tensor_kernel_pairing(ctx)
        if ctx.tier == "thorough":
            _tensor_kernel_pairing(ctx, thorough=True)
    except AnalysisError as e:
        err = err or str(e)
    if err is not None:
        raise AnalysisError(err)
    ctx.note(f"{n} forward-then-backward compositions interpreted")
    if all(o.ok for o in ctx.obligations):  # a failed phase ends the run early; the verdict is then the violation
        ctx.require_count("C02", len(ctx.obligations), 90)
    ctx.trusted_base.append("abstract source model F + sign*J(name, time argument); that every public source class has this form is rule R2.5 (syntax-tree dataflow, sa/srcflow.py)")
    ctx.trusted_base.append("non-uniform scenarios use one opaque metric atom per (axis, stencil) (its value is C01 rule R1.3)")
    ctx.assume("field state satisfies the wall conditions (the symbolic initial fields are projected with the repo's own wall hooks)")
    ctx.assume("real arithmetic: the identities are exact over the rationals extended by the symbolic atoms; round-off is outside the property")


def _solve3(it_, a, k):
    """exact linalg.solve for batches of 3x3 matrices of rational forms (adjugate / determinant)"""
    L, R = a[0], a[1]
    if not (isinstance(L, NdArr) and isinstance(R, NdArr) and not L.sp and not R.sp and L.shape[-2:] == (3, 3) and R.shape == L.shape):
        raise AnalysisError(f"linalg.solve model: operands {getattr(L, 'shape', L)} / {getattr(R, 'shape', R)}")
    out = []
    for b in range(len(L.data) // 9):
        m = [[to_rat(L.data[b * 9 + i * 3 + j]) for j in range(3)] for i in range(3)]
        r = [[to_rat(R.data[b * 9 + i * 3 + j]) for j in range(3)] for i in range(3)]
        cof = [[m[(i + 1) % 3][(j + 1) % 3] * m[(i + 2) % 3][(j + 2) % 3] - m[(i + 1) % 3][(j + 2) % 3] * m[(i + 2) % 3][(j + 1) % 3] for j in range(3)] for i in range(3)]
        det = m[0][0] * cof[0][0] + m[0][1] * cof[0][1] + m[0][2] * cof[0][2]
        if det.is_zero():
            raise Raised("LinAlgError", "singular matrix")
        for i in range(3):
            for j in range(3):
                out.append(sum((cof[k_][i] * r[k_][j] for k_ in range(3)), Rat.const(0)) / det)
    return NdArr(R.shape, out)


def _tensor_kernel_pairing(ctx, thorough=False):
    """R2.6: the lossy full-tensor kernels.  forward: F' = A F + B curl; reverse: F = A_r F' - B_r curl.  The reverse
    undoes the forward exactly when A_r A = 1 and A_r B = B_r as 3x3 matrices per cell (the sign / operand wiring of
    the two updates is what the lossless full-tensor round trips of R2.1 decide, where A = 1 and B = c inv)."""
    ix = ctx.index
    z = Rat.const(0)
    names = ("compute_anisotropic_update_matrices", "compute_anisotropic_update_matrices_reverse")
    fs = [ix.function("fdtdx.fdtd.misc." + nm) for nm in names]
    for f in fs:
        ctx.unit(f.where())
    tiers = [
        ("diagonal tensors", lambda i, j: Rat.atom(f"a{i}") if i == j else z, lambda i, j: Rat.atom(f"s{i}") if i == j else z),
        ("symmetric inverse tensor, isotropic conductivity", lambda i, j: Rat.atom(f"a{min(i, j)}{max(i, j)}"), lambda i, j: Rat.atom("s") if i == j else z),
        ("isotropic inverse tensor, full conductivity", lambda i, j: Rat.atom("a") if i == j else z, lambda i, j: Rat.atom(f"s{i}{j}")),
    ]
    if thorough:
        tiers = [("general tensors", lambda i, j: Rat.atom(f"a{i}{j}"), lambda i, j: Rat.atom(f"s{i}{j}"))]
    for label, fa, fsg in tiers:
        inv = NdArr((3, 3, 1, 1, 1), [fa(i, j) for i in range(3) for j in range(3)])
        sig = NdArr((3, 3, 1, 1, 1), [fsg(i, j) for i in range(3) for j in range(3)])
        res = []
        for f in fs:
            it = ctx.fresh_interp()
            it.ext_handlers["np.linalg.solve"] = _solve3
            try:
                AB = it.call(it.closure_of(f), [inv, sig, Rat.atom("c"), Rat.atom("eta")], {})
            except Raised as r:
                raise AnalysisError(f"{f.name} raises: {r}")
            if not (isinstance(AB, tuple) and len(AB) == 2 and all(isinstance(M, NdArr) and len(M.data) == 9 for M in AB)):
                raise AnalysisError(f"{f.name} returns {AB!r}")
            res.append(AB)
        (A, B), (Ar, Br) = res
        g = lambda M, i, j: to_rat(M.data[i * 3 + j])
        bad = []
        for i in range(3):
            for j in range(3):
                p = sum((g(Ar, i, k_) * g(A, k_, j) for k_ in range(3)), Rat.const(0))
                if not p.equals(1 if i == j else 0):
                    bad.append((f"(A_r A)[{i}][{j}]", p.fmt()[:200]))
                q = sum((g(Ar, i, k_) * g(B, k_, j) for k_ in range(3)), Rat.const(0))
                if not q.equals(g(Br, i, j)):
                    bad.append((f"(A_r B)[{i}][{j}] vs B_r", q.fmt()[:160], g(Br, i, j).fmt()[:160]))
        nontrivial = not g(A, 0, 0).equals(1)
        ctx.ob("R2.6", f"anisotropic-update-matrices[{label}]", not bad and nontrivial, "with conductivity the reverse matrices undo the forward ones per cell: A_r A = 1 and A_r B = B_r (so A_r (A F + B curl) - B_r curl = F)", bad[:2], "identity / B_r")


def _source_classes(ctx):
    """R2.5: every public Source class injects additively, independent of the field, and `inverse` only
    flips the sign — decided by the def-use rule of sa/srcflow.py on update_E / update_H and their helpers."""
    from . import c10

    c10.source_linearity(ctx, rule="R2.5", for_c02=True)


# ---------------------------------------------------------------------- reuse by C03 / C04
SHARED_SCENES = [
    ("roundtrip:diag:lossless", dict(eps_comps=3, mu_comps=3), {}),
    ("roundtrip:full-eps", dict(eps_comps=9, mu_comps=3), dict(with_sources=False)),
    ("roundtrip:full-mu", dict(eps_comps=3, mu_comps=9), dict(with_sources=False)),
    ("roundtrip:nonuniform:full-eps", dict(eps_comps=9, mu_comps=3), dict(nonuniform=True, with_sources=False)),
    ("roundtrip:nonuniform:full-mu", dict(eps_comps=3, mu_comps=9), dict(nonuniform=True, with_sources=False)),
    ("roundtrip:nonuniform:diag", dict(eps_comps=3, mu_comps=3), dict(nonuniform=True)),
]


def _shared_job(ctx, payload):
    _one(ctx, SHARED_SCENES[payload])


def reverse_is_inverse(ctx, rule):
    """The reverse step undoes the forward step on the lossless tiers the reconstruction relies on (rule ids of
    C02 relabelled for the calling check)."""
    from .. import par

    n0 = len(ctx.obligations)
    err = par.run_jobs(ctx, "sa.checks.c02", "_shared_job", list(range(len(SHARED_SCENES))), [s_[0] for s_ in SHARED_SCENES])
    for o in ctx.obligations[n0:]:
        o.rule = rule
    if err:
        raise AnalysisError(err)
