"""C41 — wave descriptions and temporal profiles are self-consistent."""

from __future__ import annotations

import math
from fractions import Fraction

from ..index import AnalysisError
from ..poly import Rat, apply_fn
from ..ranges import Iv
from ..values import Obj, Raised, SymBool, to_rat
from ..arrays import SymVec

LEVEL = "proof"
EXPLANATION = (
    "Decides, as identities over all real inputs: period*frequency == 1 and wavelength == c*period on each "
    "of the three WaveCharacter input paths (abstract interpretation into rational normal forms); range "
    "obligations |amplitude| <= 1 and ramp in [0,1], non-decreasing, zero at t=0 (interval/derivative domain "
    "over all t >= 0, period > 0, widths > 0); the custom signal's interpolation formula and its value at "
    "sample times.  Does not decide floating-point rounding."
)


def run(ctx):
    ix = ctx.index
    it = ctx.fresh_interp()
    W = ix.cls("fdtdx.core.wavelength.WaveCharacter")
    ctx.unit(W.where())
    cval = it.lookup_global(ix.module("fdtdx.constants"), "c")
    ctx.ob("R41.0", "fdtdx.constants.c", cval == 299792458, "speed of light constant", cval, 299792458)
    c = Rat.lift(cval)

    # R41.1 conversions on the three input paths
    for given in ("period", "wavelength", "frequency"):
        o = Obj(W, {given: Rat.atom(given)}, "wc")
        try:
            p = it.call_method(o, "get_period")
            f = it.call_method(o, "get_frequency")
            w = it.call_method(o, "get_wavelength")
        except Raised as r:
            ctx.ob("R41.1", f"WaveCharacter[{given}]", False, f"conversion raises: {r}")
            continue
        ctx.ob("R41.1a", f"WaveCharacter[{given}]:period*frequency", (Rat.lift(p) * f).equals(1), "period*frequency == 1", (Rat.lift(p) * f).fmt(), "1")
        ctx.ob("R41.1b", f"WaveCharacter[{given}]:wavelength", Rat.lift(w).equals(c * p), "wavelength == c*period", Rat.lift(w).fmt(), (c * p).fmt())
        own = {"period": p, "frequency": f, "wavelength": w}[given]
        ctx.ob("R41.1c", f"WaveCharacter[{given}]:identity", Rat.lift(own).equals(Rat.atom(given)), "the given quantity is returned unchanged", Rat.lift(own).fmt(), given)

    # exactly-one-of validation
    for mask in range(8):
        attrs = {n: (Rat.atom(n) if mask >> i & 1 else None) for i, n in enumerate(("period", "wavelength", "frequency"))}
        o = Obj(W, attrs, "wc")
        try:
            it.call_method(o, "_check_input")
            raised = False
        except Raised:
            raised = True
        want = bin(mask).count("1") != 1
        ctx.ob("R41.1d", f"WaveCharacter._check_input[{mask:03b}]", raised == want, "raises iff not exactly one of period/wavelength/frequency is given", raised, want)

    # R41.2 ranges
    t = Iv(0, math.inf, 1, 1)  # time >= 0, d/dt = 1
    pos = Iv(Fraction(1, 10**30), 10**30, 0, 0)  # strictly positive, bounded box
    anyreal = Iv(-math.inf, math.inf, 0, 0)
    win = ix.module("fdtdx.core.window")
    r = it.call_function("fdtdx.core.window.linear_rampup", t, pos)
    ok = isinstance(r, Iv) and r.lo >= 0 and r.hi <= 1
    ctx.ob("R41.2a", "linear_rampup:range", ok, "ramp in [0,1] for t>=0, duration>0", r, "[0,1]")
    ctx.ob("R41.2b", "linear_rampup:monotone", isinstance(r, Iv) and r.nondecreasing(), "ramp non-decreasing in t", r, "d/dt >= 0")
    r0 = it.call_function("fdtdx.core.window.linear_rampup", 0, Rat.atom("T"))
    ctx.ob("R41.2c", "linear_rampup:t=0", Rat.lift(r0).equals(0), "ramp starts at 0", r0, 0)
    rT = it.call_function("fdtdx.core.window.linear_rampup", Rat.atom("T"), Rat.atom("T"))
    ctx.ob("R41.2c", "linear_rampup:t=T", Rat.lift(rT).equals(1), "ramp reaches 1 at the end of the ramp", rT, 1)
    g = it.call_function("fdtdx.core.window.gaussian_envelope", Iv(-math.inf, math.inf, 1, 1), anyreal, pos)
    ctx.ob("R41.2d", "gaussian_envelope:range", isinstance(g, Iv) and g.lo >= 0 and g.hi <= 1, "envelope in (0,1]", g, "[0,1]")
    gc = it.call_function("fdtdx.core.window.gaussian_envelope", Rat.atom("c0"), Rat.atom("c0"), Rat.atom("s"))
    ctx.ob("R41.2e", "gaussian_envelope:peak", Rat.lift(gc).equals(1), "envelope equals 1 at its centre", gc, 1)

    SF = ix.cls("fdtdx.objects.sources.profile.SingleFrequencyProfile")
    ctx.unit(SF.where())
    prof = Obj(SF, {"phase_shift": anyreal, "num_startup_periods": Iv(1, 10**6, 0, 0)}, "sf")
    a = it.call_method(prof, "get_amplitude", t, pos, anyreal)
    ctx.ob("R41.2f", "SingleFrequencyProfile.get_amplitude:range", isinstance(a, Iv) and a.lo >= -1 and a.hi <= 1, "|amplitude| <= 1", a, "[-1,1]")
    # structure: ramp * real(exp(-i*phase))
    prof_s = Obj(SF, {"phase_shift": Rat.atom("φ0"), "num_startup_periods": Rat.atom("K")}, "sf")
    a_s = it.call_method(prof_s, "get_amplitude", Rat.atom("t"), Rat.atom("P"), Rat.atom("φ"))
    ramp = it.call_function("fdtdx.core.window.linear_rampup", Rat.atom("t"), Rat.atom("K") * Rat.atom("P"))
    a0 = it.call_method(prof_s, "get_amplitude", 0, Rat.atom("P"), Rat.atom("φ"))
    ctx.ob("R41.2g", "SingleFrequencyProfile.get_amplitude:t=0", Rat.lift(a0).equals(0), "CW profile starts from zero amplitude (ramps up)", a0, 0)
    from ..extlib import real_rat
    from ..poly import I

    phase = 2 * Rat.atom("π") * Rat.atom("t") / Rat.atom("P") + Rat.atom("φ") + Rat.atom("φ0")
    want = Rat.lift(ramp) * real_rat(apply_fn("exp", -Rat.atom(I) * phase))
    ctx.ob("R41.2h", "SingleFrequencyProfile.get_amplitude:formula", Rat.lift(a_s).equals(want), "amplitude == rampup(t, K*P) * Re exp(-i(2πt/P+φ+φ0))", Rat.lift(a_s).fmt(), want.fmt())

    GP = ix.cls("fdtdx.objects.sources.profile.GaussianPulseProfile")
    ctx.unit(GP.where())
    sw = Obj(W, {"frequency": pos, "phase_shift": 0}, "sw")
    cw = Obj(W, {"frequency": pos, "phase_shift": anyreal}, "cw")
    gp = Obj(GP, {"spectral_width": sw, "center_wave": cw}, "gp")
    a = it.call_method(gp, "get_amplitude", t, pos, anyreal)
    ctx.ob("R41.2i", "GaussianPulseProfile.get_amplitude:range", isinstance(a, Iv) and a.lo >= -1 and a.hi <= 1, "|amplitude| <= 1", a, "[-1,1]")

    # R41.3 custom sampled signal
    CP = ix.cls("fdtdx.objects.sources.profile.CustomTimeSignalProfile")
    ctx.unit(CP.where())
    n = Rat.atom("n")
    sig = SymVec("signal", n)
    it2 = ctx.fresh_interp()
    it2.integer_atoms = {"k", "n"}

    def mk(interp_mode):
        return Obj(CP, {"signal": sig, "time_step_duration": Rat.atom("dt"), "start_time": Rat.atom("t0"), "interpolation": interp_mode, "outside_value": Rat.atom("out")}, "cp")

    tt = Rat.atom("t")
    idx = (tt - Rat.atom("t0")) / Rat.atom("dt")
    fl = apply_fn("floor", idx)
    i0 = Rat.atom(("call", "clip", fl, Rat.const(0), n - 1))
    i1 = Rat.atom(("call", "clip", i0 + 1, Rat.const(0), n - 1))
    y0 = Rat.atom(("idx", "signal", i0))
    y1 = Rat.atom(("idx", "signal", i1))
    frac = idx - fl
    # valid branch / invalid branch through assume on the symbolic `valid`
    # a cast to the samples' own element type is not the identity (the samples may be integers): keep it visible
    from .. import absint
    from ..values import Builtin

    old_scalar_attr = absint.scalar_attr

    def scalar_attr(interp, v, name):
        if name == "astype":
            return Builtin("astype", lambda it_, a, k_, _v=v: Rat.atom(("cast", to_rat(_v).fmt(), "element type of the samples")) if a and isinstance(a[0], tuple) and a[0][:1] == ("dtype-of",) else _v)
        return old_scalar_attr(interp, v, name)

    absint.scalar_attr = scalar_attr
    try:
        res = it2.call_method(mk("linear"), "get_amplitude", tt, Rat.atom("P"), 0)
    finally:
        absint.scalar_attr = old_scalar_attr
    res = Rat.lift(res)
    inds = [a for a in res.atoms() if isinstance(a, tuple) and a and a[0] == "ind"]
    ok = len(inds) == 1
    ctx.ob("R41.3a", "CustomTimeSignalProfile.get_amplitude:guard", ok, "result is a single select on the validity predicate", [repr(a) for a in inds], "one indicator")
    if ok:
        ind = inds[0]
        inside = res.subs({ind: Rat.const(1)})
        outside = res.subs({ind: Rat.const(0)})
        want = (1 - frac) * y0 + frac * y1
        ctx.ob("R41.3b", "CustomTimeSignalProfile.get_amplitude:linear", inside.equals(want), "inside: (1-frac)*y[i0] + frac*y[i1], i0=clip(floor(idx)), i1=clip(i0+1)", inside.fmt(), want.fmt())
        ctx.ob("R41.3c", "CustomTimeSignalProfile.get_amplitude:outside", outside.equals(Rat.atom("out")), "outside the sampled range the outside_value is returned", outside.fmt(), "out")
        key = ind[1]
        ctx.ob("R41.3d", "CustomTimeSignalProfile.get_amplitude:valid", _valid_is_range(key, fl, n), "validity predicate is 0 <= floor(idx) < n", repr(key)[:300], "0 <= i0 and i0 < n")
    # at sample times t = t0 + k*dt the sample k is returned
    tk = Rat.atom("t0") + Rat.atom("k") * Rat.atom("dt")
    res_k = Rat.lift(it2.call_method(mk("linear"), "get_amplitude", tk, Rat.atom("P"), 0))
    inds = [a for a in res_k.atoms() if isinstance(a, tuple) and a and a[0] == "ind"]
    if len(inds) == 1:
        inside = res_k.subs({inds[0]: Rat.const(1)})
        k0 = Rat.atom(("call", "clip", Rat.atom("k"), Rat.const(0), n - 1))
        want = Rat.atom(("idx", "signal", k0))
        ctx.ob("R41.3e", "CustomTimeSignalProfile.get_amplitude:sample-times", inside.equals(want), "at t = t0 + k*dt (integer k) the stored sample k is reproduced exactly (frac == 0)", inside.fmt(), want.fmt())
    else:
        ctx.ob("R41.3e", "CustomTimeSignalProfile.get_amplitude:sample-times", False, "unexpected guard structure", [repr(a) for a in inds], "one indicator")
    ctx.require_count("C41", len(ctx.obligations), 28)
    ctx.assume("t >= 0, period > 0, spectral width > 0 (documented parameter domains)")
    ctx.trusted_base += ["sa/ranges.py interval+derivative domain", "encodings of jnp.clip/exp/real/floor/where in sa/extlib.py"]


def _valid_is_range(key, fl: Rat, n: Rat) -> bool:
    """key is the SymBool key of `(idx0 >= 0) & (idx0 < n)`."""
    if not (isinstance(key, tuple) and key and key[0] == "and" and len(key) == 3):
        return False
    parts = list(key[1:])
    want_a = ("not", ("lt0", fl.key(), fl.fmt()))  # not (i0 < 0)
    d = fl - n
    want_b = ("lt0", d.key(), d.fmt())  # i0 - n < 0
    return sorted(map(repr, parts)) == sorted(map(repr, [want_a, want_b]))
