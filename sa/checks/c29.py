"""C29 — sources/detectors see the device materials after parameters are applied."""

from __future__ import annotations

import ast
import itertools

from ..index import AnalysisError, find_nodes
from ..poly import Rat
from ..values import Obj, Raised, to_rat

LEVEL = "other"
EXPLANATION = (
    "Decides the overlap predicate exhaustively: check_overlap touches the eight slice endpoints only through "
    "comparisons (verified by a dataflow scan), so its behaviour is a function of the per-axis order type of "
    "(s_start, s_end, o_start, o_end); every combination of order types on the three axes is evaluated by the "
    "abstract interpreter (exhaustive over regions, hence over all integers) and compared with the oracle "
    "'a true 3-D half-open interval intersection must yield True'.  Also decides the two call sites: "
    "place_objects applies an object iff no device overlaps it, apply_params re-applies iff some device does, "
    "with the same receiver/argument orientation and after the last device write.  Does not decide what "
    "apply() computes."
)


def _order_types(K=0):
    """One representative (s,e,o,p) per region of the difference-bound abstraction with
    constants <= K (K=0: the 13 weak-order types / Allen relations), with s<e and o<p."""
    reps = {}
    clip = lambda d: max(-K - 1, min(K + 1, d))
    for s, e, o, p in itertools.product(range(3 * K + 4), repeat=4):
        if not (s < e and o < p):
            continue
        v = (s, e, o, p)
        sig = tuple(clip(v[i] - v[j]) for i in range(4) for j in range(i + 1, 4))
        reps.setdefault(sig, v)
    return list(reps.values())


def _only_compared(fn_node: ast.FunctionDef) -> tuple[bool, str]:
    """The endpoint variables flow only into comparisons / boolean tests."""
    names = set()
    for n in ast.walk(fn_node):
        if isinstance(n, ast.Assign) and isinstance(n.value, ast.Subscript) and "_grid_slice_tuple" in ast.unparse(n.value):
            for t in n.targets:
                for x in ast.walk(t):
                    if isinstance(x, ast.Name):
                        names.add(x.id)
    if len(names) < 4:
        return False, f"endpoint variables not recognised: {sorted(names)}"
    parents = {}
    offsets = _only_compared.offsets = []
    for n in ast.walk(fn_node):
        for c in ast.iter_child_nodes(n):
            parents[c] = n
    for n in ast.walk(fn_node):
        if isinstance(n, ast.Name) and n.id in names and isinstance(n.ctx, ast.Load):
            p = parents.get(n)
            while isinstance(p, (ast.Tuple,)):
                p = parents.get(p)
            if isinstance(p, ast.BinOp) and isinstance(p.op, (ast.Add, ast.Sub)):
                other = p.right if p.left is n else p.left
                if isinstance(other, ast.Constant) and isinstance(other.value, int) and abs(other.value) <= 1 and isinstance(parents.get(p), ast.Compare):
                    offsets.append(abs(other.value))
                    continue
            if isinstance(p, ast.Compare):
                continue
            if isinstance(p, ast.Call) and ast.unparse(p.func) in ("min", "max"):
                continue
            return False, f"{n.id} used outside a comparison at line {n.lineno}: {ast.unparse(p)[:80]}"
    return True, f"endpoints {sorted(names)} flow only into comparisons"


def run(ctx):
    ix = ctx.index
    S = ix.cls("fdtdx.objects.object.SimulationObject")
    fi = S.methods.get("check_overlap")
    if fi is None:
        raise AnalysisError("SimulationObject.check_overlap vanished")
    ctx.unit(fi.where())
    ok, why = _only_compared(fi.node)
    if not ok:
        raise AnalysisError(f"check_overlap is not comparison-only ({why}); the order-type enumeration would not be exhaustive")
    ctx.note(why)
    it = ctx.fresh_interp()
    it.step_limit = 10**9
    f = it.closure_of(fi)
    K = max(_only_compared.offsets, default=0)
    types = _order_types(K)
    ctx.note(f"difference-bound constant K={K}: {len(types)} per-axis regions")
    ctx.require_count("R29.1 order types (Allen relations)", len(types), 13)
    combos = itertools.product(types, repeat=3)
    n = 0
    bad = []

    def inter(t):
        s, e, o, p = t
        return max(s, o) < min(e, p)

    nontrivial = 0
    for c in combos:
        a = Obj(S, {"_grid_slice_tuple": tuple((t[0], t[1]) for t in c)}, "self")
        b = Obj(S, {"_grid_slice_tuple": tuple((t[2], t[3]) for t in c)}, "other")
        try:
            r = it.call(f, [a, b], {})
        except Raised as ex:
            raise AnalysisError(f"check_overlap raises on {c}: {ex}")
        n += 1
        want = all(inter(t) for t in c)
        if want:
            nontrivial += 1
            if r is not True:
                bad.append(c)
    ctx.note(f"R29.1 evaluated {n} order-type combinations, {nontrivial} with a true 3-D intersection")
    # group failures by per-axis type for a readable report
    ctx.ob(
        "R29.1",
        "fdtdx.objects.object.SimulationObject.check_overlap",
        not bad,
        f"true 3-D interval intersection must return True; {len(bad)} of {nontrivial} intersecting order-type combinations return False"
        + (f"; e.g. per-axis (s_start,s_end,o_start,o_end) = {bad[0]}" if bad else ""),
        [list(b) for b in bad[:3]],
        "intersects on all three axes => True",
    )
    # symmetric call: d.check_overlap(obj) must also detect obj containing d etc. (covered: all order types)
    _reapply_behaviour(ctx)
    _call_sites(ctx)
    ctx.rule_text = "R29.1 enumerates every combination of per-axis weak-order types of the four slice endpoints (exhaustive over all integer inputs because the function only compares them); R29.2 are syntax-tree/ordering rules on the two call sites"


def _reapply_behaviour(ctx):
    """apply_params interpreted end to end on a scene with two devices and three other objects (one overlapping only
    the first device, one only the second, one neither): each object that overlaps some device is re-applied exactly
    once, with every material-state argument equal to the array the function returns (i.e. after all devices wrote),
    and the object that overlaps no device is left alone."""
    from ..harness import stub_repo_calls
    from ..ndarr import NdArr
    from ..values import Builtin
    from . import c18

    ix = ctx.index
    f = ix.function("fdtdx.fdtd.initialization.apply_params")
    for with_c4 in (True, False):
        s = c18.Scn(ctx, 1, disp=(2, 1, 1, with_c4))
        it, sc = s.it, s.sc
        it.ext_overrides["jax.lax.stop_gradient"] = lambda it_, a, k: a[0]
        it.ext_overrides["jax.random.split"] = lambda it_, a, k: (Rat.atom(("key", to_rat(a[0]).fmt(), 0)), Rat.atom(("key", to_rat(a[0]).fmt(), 1)))
        mats = c18._mats(it, 1)
        # concrete stand-in boxes decide the gate through the repo's own predicate (whatever it is called): srcA is
        # flush against D1 (extents meet at x = 10, no shared cell — a TFSF region reads the materials one cell outside
        # its own slice, so a flush device is part of what it is set up against), srcB shares cells with D2, srcC is
        # separated from both devices on every axis
        boxes = {"D1": ((10, 16), (4, 10), (4, 10)), "D2": ((30, 36), (30, 36), (30, 36)), "srcA": ((4, 10), (4, 10), (4, 10)), "srcB": ((32, 34), (28, 40), (31, 33)), "srcC": ((20, 24), (18, 22), (20, 24)), "srcD": ((31, 33), (32, 35), (31, 34)), "srcE": ((11, 15), (5, 9), (10, 14)), "srcF": ((28, 40), (28, 40), (28, 40))}
        # srcD lies entirely inside D2, srcE is flush against D1 along z, srcF contains D2 entirely
        applied = {}

        def mk_apply(name):
            def ap(it_, a, k, _n=name):
                applied.setdefault(_n, []).append(dict(k))
                return objs_by_name[_n]

            return Builtin("apply", ap)

        devices = []
        for dn in ("D1", "D2"):
            d = s.device(dn, "continuous", False, mats)
            d.attrs["apply"] = mk_apply(dn)
            devices.append(d)
        S = ix.cls("fdtdx.objects.object.SimulationObject")
        others = [Obj(S, dict(name=n, apply=mk_apply(n)), n) for n in ("srcA", "srcB", "srcC", "srcD", "srcE", "srcF")]

        vol_ref = [None]

        def gate(it_, callee, args, kwargs):
            # a one-argument predicate of SimulationObject asked of a device about another object: run the repo's own
            # method on the stand-in boxes
            from ..values import Bound

            if isinstance(callee, Bound) and isinstance(callee.self_obj, Obj) and callee.self_obj in devices and len(args) == 1 and not kwargs and isinstance(args[0], Obj) and (args[0] in devices or args[0] in others or args[0] is vol_ref[0]):
                me, other = callee.self_obj.attrs.get("name"), args[0].attrs.get("name", "volume")
                if other not in boxes:
                    return False  # the volume: its apply is not the subject
                a = Obj(S, {"_grid_slice_tuple": boxes[me], "name": me}, me)
                b = Obj(S, {"_grid_slice_tuple": boxes[other], "name": other}, other)
                return it_.call(Bound(a, callee.func), [b], {})
            return NotImplemented

        it.call_hooks.insert(0, gate)
        objs = sc.objects(devices + others)
        vol = objs.attrs["object_list"][0]
        vol_ref[0] = vol
        vol.attrs["apply"] = mk_apply(vol.attrs.get("name", "volume"))
        objs_by_name = {o.attrs.get("name", "volume"): o for o in objs.attrs["object_list"]}
        poles, comps, ccomps, _ = s.disp
        from ..scene import SP

        mkd = lambda nm, c: NdArr((poles, c), [Rat.atom(("at", f"{nm}_{p}_{q}", (0, 0, 0), (0, 1, 2))) for p in range(poles) for q in range(c)], SP)
        arrays = sc.arrays(eps_comps=1, mu_comps=0, sigma_e=1, dispersive_c1=mkd("d1", comps), dispersive_c2=mkd("d2", comps), dispersive_c3=mkd("d3", ccomps), dispersive_c4=mkd("d4", ccomps) if with_c4 else None)
        params = {d.attrs["name"]: Rat.atom(f"p_{d.attrs['name']}") for d in devices}
        try:
            res = it.call(it.closure_of(f), [arrays, objs, params], {})
        except Raised as r:
            raise AnalysisError(f"apply_params raises on the two-device scene: {r}")
        out = res[0] if isinstance(res, tuple) else res
        label = f"apply_params[two devices{', c4 allocated' if with_c4 else ''}]"
        who = {n: len(v) for n, v in applied.items() if n not in ("D1", "D2")}  # a device asked about itself: its own apply is not the subject
        ctx.ob("R29.3", f"{label}:who-is-re-applied", who == {"srcA": 1, "srcB": 1, "srcD": 1, "srcE": 1, "srcF": 1}, "exactly the objects that share cells with, or sit flush against, some device — the first device as well as the last — are re-applied, once each (decided by the repo's own predicate on concrete boxes); an object overlapping none is left as place_objects set it up", who, {"srcA": 1, "srcB": 1})
        state_args = {"inv_permittivities": "inv_permittivities", "inv_permeabilities": "inv_permeabilities", "dispersive_c1": "dispersive_c1", "dispersive_c2": "dispersive_c2", "dispersive_c3": "dispersive_c3", "dispersive_c4": "dispersive_c4", "electric_conductivity": "electric_conductivity"}
        bad = []
        for n in ("srcA", "srcB", "srcD", "srcE", "srcF"):
            for kw in applied.get(n, [])[:1]:
                for arg, field in state_args.items():
                    want = out.attrs.get(field)
                    got = kw.get(arg, "absent")
                    same = (got is None and want is None) or (isinstance(got, NdArr) and isinstance(want, NdArr) and got.shape == want.shape and all(to_rat(x).equals(to_rat(y)) for x, y in zip(got.data, want.data))) or (not isinstance(got, (NdArr, str)) and got is not None and want is not None and not isinstance(want, NdArr) and to_rat(got).equals(to_rat(want)))
                    if not same:
                        bad.append((n, arg, "absent" if isinstance(got, str) else ("None" if got is None else "differs from the returned array")))
        ctx.ob("R29.3", f"{label}:post-device-state", not bad and len(applied.get("srcA", [])) == 1, "every material-state argument handed to the re-applied objects (inverse permittivity / permeability, the dispersive coefficient arrays c1..c4, the conductivity) is the array apply_params returns, i.e. the state after both devices wrote their materials", bad[:4], "arguments == returned arrays")


def _call_sites(ctx):
    ix = ctx.index
    S = ix.cls("fdtdx.objects.object.SimulationObject")
    mi = ix.module("fdtdx.fdtd.initialization")
    sites = []
    for fn_name in ("place_objects", "apply_params"):
        fi = mi.functions.get(fn_name)
        if fi is None:
            raise AnalysisError(f"{fn_name} vanished")
        ctx.unit(fi.where())
        for node in ast.walk(fi.node):
            if isinstance(node, ast.If):
                # the gate: a one-argument predicate of SimulationObject (check_overlap today; R29.3 decides what it
                # computes, so the name is not frozen) asked inside the test
                calls = [c for c in find_nodes(node.test, ast.Call) if isinstance(c.func, ast.Attribute) and len(c.args) == 1 and not c.keywords and S.lookup_method(c.func.attr) is not None]
                if calls:
                    sites.append((fn_name, fi, node, calls[0]))
    ctx.require_count("R29.2 call sites", len(sites), 2)
    for fn_name, fi, ifnode, call in sites:
        test = ifnode.test
        negated = isinstance(test, ast.UnaryOp) and isinstance(test.op, ast.Not)
        inner = test.operand if negated else test
        is_any = isinstance(inner, ast.Call) and isinstance(inner.func, ast.Name) and inner.func.id == "any"
        comp = None
        if is_any and inner.args:
            comp = inner.args[0]
        recv_is_device = False
        arg_is_obj = False
        if isinstance(comp, (ast.ListComp, ast.GeneratorExp)) and len(comp.generators) == 1:
            g = comp.generators[0]
            it_src = ast.unparse(g.iter)
            recv = ast.unparse(call.func.value)
            recv_is_device = isinstance(g.target, ast.Name) and recv == g.target.id and "devices" in it_src
            # the argument is the object of the enclosing loop: a plain name other than the comprehension's own variable
            arg_is_obj = len(call.args) == 1 and isinstance(call.args[0], ast.Name) and isinstance(g.target, ast.Name) and call.args[0].id != g.target.id
        applies = any(isinstance(c.func, ast.Attribute) and c.func.attr == "apply" for c in find_nodes(ifnode, ast.Call) if c is not call)
        want_neg = fn_name == "place_objects"
        ctx.ob(
            "R29.2",
            f"fdtdx.fdtd.initialization.{fn_name}:overlap-gate",
            is_any and negated == want_neg and recv_is_device and arg_is_obj and applies,
            ("place_objects applies an object iff NOT any(device.<overlap predicate>(obj))" if want_neg else "apply_params re-applies an object iff any(device.<overlap predicate>(obj))"),
            ast.unparse(test)[:200],
            ("not any(d.check_overlap(obj) for d in devices)" if want_neg else "any(d.check_overlap(obj) for d in devices)"),
        )
        if fn_name == "apply_params":
            # the re-apply loop comes after the last store into arrays by the device loop
            body = fi.node.body
            dev_loops = [i for i, st in enumerate(body) if isinstance(st, ast.For) and "device" in ast.unparse(st.target)]
            gate_idx = [i for i, st in enumerate(body) if ifnode in list(ast.walk(st))]
            ok = bool(dev_loops) and bool(gate_idx) and max(dev_loops) < gate_idx[0]
            ctx.ob("R29.2", "fdtdx.fdtd.initialization.apply_params:order", ok, "objects are re-applied after the device loop's last material write", f"device loops at stmt {dev_loops}, gate at {gate_idx}", "device loop precedes re-apply loop")
            # and reads the post-device arrays
            kw = {}
            for c in find_nodes(ifnode, ast.Call):
                if isinstance(c.func, ast.Attribute) and c.func.attr == "apply":
                    kw = {k.arg: ast.unparse(k.value) for k in c.keywords}
            ok = "arrays.inv_permittivities" in kw.get("inv_permittivities", "") and "arrays.inv_permeabilities" in kw.get("inv_permeabilities", "")
            ctx.ob("R29.2", "fdtdx.fdtd.initialization.apply_params:materials", ok, "re-applied objects are set up against the current (post-device) material arrays", kw, "inv_permittivities=...arrays.inv_permittivities")
            # every other material-state argument too: read from `arrays` in the call itself, or through a local
            # whose every definition reads `arrays` and lies after the last device loop
            last_dev = max(dev_loops) if dev_loops else -1
            # the container's own name: the parameter annotated ArrayContainer (not a frozen identifier)
            arr_name = next((a.arg for a in fi.node.args.args + fi.node.args.kwonlyargs if a.annotation is not None and "ArrayContainer" in ast.unparse(a.annotation)), "arrays")
            reads = lambda src: f"{arr_name}." in src
            top_defs = {}
            for i, st in enumerate(body):
                if isinstance(st, ast.Assign) and len(st.targets) == 1 and isinstance(st.targets[0], ast.Name):
                    top_defs.setdefault(st.targets[0].id, []).append((i, st.value))
            stale = []
            n_state = 0
            for c in find_nodes(ifnode, ast.Call):
                if not (isinstance(c.func, ast.Attribute) and c.func.attr == "apply"):
                    continue
                for k in c.keywords:
                    if k.arg in (None, "key"):
                        continue
                    n_state += 1
                    src = ast.unparse(k.value)
                    if reads(src):
                        continue
                    if isinstance(k.value, ast.Name) and k.value.id in top_defs:
                        defs = top_defs[k.value.id]
                        if all(i > last_dev and reads(ast.unparse(v)) for i, v in defs):
                            continue
                        stale.append((k.arg, [f"stmt {i}: {ast.unparse(v)[:60]}" for i, v in defs]))
                    else:
                        stale.append((k.arg, src[:60]))
            ctx.ob("R29.2", "fdtdx.fdtd.initialization.apply_params:post-device-state", not stale and n_state >= 2, "every material-state argument of the re-apply (permittivity, permeability, the four dispersive coefficient arrays, conductivity) is read from `arrays` after the last device loop, never from a snapshot taken before the devices wrote their materials", stale[:3] if stale else f"{n_state} arguments", f"defined after stmt {last_dev}")
