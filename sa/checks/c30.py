"""C30 — recorded boundary data decompresses to what was recorded (symbolic values, the property's own finite index domain)."""

from __future__ import annotations

import itertools
from fractions import Fraction as Fr

from ..harness import stub_repo_calls
from ..index import AnalysisError
from ..ndarr import NdArr
from ..poly import Rat
from ..values import Builtin, Obj, Raised, to_rat

LEVEL = "other"
EXPLANATION = (
    "The statement quantifies over a finite index domain (total steps, k, start step) and over arbitrary recorded "
    "values.  The values are kept symbolic — the record of step t is a free symbol v_t, the buffers start with "
    "arbitrary content — and the index domain is covered exhaustively (quick: total steps <= 9, k <= 4; thorough: "
    "total steps <= 40, k <= 8; every start step): for each triple the repo's Recorder with a LinearReconstructEveryK "
    "module is initialised (the save-step list and the step -> slot table are built by the repo's own init_shapes, "
    "interpreted), every step is compressed in order, and for every t at or after the start step decompress(t) is "
    "compared as a rational expression with v_t when t is a saved step and with v_p + (t - p)/(q - p) (v_q - v_p) "
    "for the enclosing saved steps p < t < q otherwise; steps that are not saved leave every buffer slot untouched.  "
    "The same for a two-module pipeline (dtype conversion in front of the time filter), where the conversion must "
    "cast to the module's dtype on the way in and back to the recorded input dtype on the way out, excluded keys "
    "untouched.  Whether a particular widening cast is exact is a property of the float formats and is not decided."
)

LR = "fdtdx.interfaces.time_filter.LinearReconstructEveryK"
REC = "fdtdx.interfaces.recorder.Recorder"


def _ints(v):
    if isinstance(v, NdArr):
        return [int(to_rat(x).const_value()) for x in v.data]
    return [int(to_rat(x).const_value()) for x in v]


def _interp(ctx):
    ix = ctx.index
    it = ctx.fresh_interp()
    ov = it.ext_overrides

    def arange(it_, a, k):
        vals = [int(to_rat(x).const_value()) for x in a]
        r = list(range(*vals))
        return NdArr((len(r),), r)

    ov["np.arange"] = arange
    def zeros(it_, a, k):
        shape = k.get("shape", a[0] if a else ())
        if not isinstance(shape, (tuple, list)):
            shape = (shape,)
        shape = tuple(int(to_rat(x).const_value()) for x in shape)
        if not shape:
            return 0
        n = 1
        for x in shape:
            n *= x
        return NdArr(shape, [0] * n)

    ov["np.zeros"] = zeros
    ov["np.asarray"] = lambda it_, a, k: NdArr.from_nested(a[0]) if isinstance(a[0], (list, tuple)) else a[0]

    def where(it_, a, k):
        c, x, y = a
        return NdArr(x.shape, [xv if bool(cv) else yv for cv, xv, yv in zip(c.data, x.data, y.data)])

    ov["np.where"] = where
    ov["np.roll"] = lambda it_, a, k: NdArr(a[0].shape, [a[0].data[(i - int(a[1])) % len(a[0].data)] for i in range(len(a[0].data))])
    ov["np.any"] = lambda it_, a, k: any(bool(x) for x in (a[0].data if isinstance(a[0], NdArr) else [a[0]]))

    def argmax(it_, a, k):
        vs = [bool(x) if isinstance(x, bool) else (to_rat(x).const_value() != 0) for x in a[0].data]
        return vs.index(True) if True in vs else 0

    ov["np.argmax"] = argmax

    def take(it_, a, k):
        arr = a[0]
        idx = k.get("indices", a[1] if len(a) > 1 else None)
        if not (isinstance(arr, NdArr) and len(arr.shape) == 1 and not arr.sp and k.get("axis", 0) == 0):
            return NotImplemented
        ids = _ints(idx) if isinstance(idx, (NdArr, list, tuple)) else [int(to_rat(idx).const_value())]
        # jnp.take fills out-of-range positions (NaN); such a value must never reach a result
        return NdArr((len(ids),), [arr.data[i] if 0 <= i < arr.shape[0] else Rat.atom(("out-of-range", i)) for i in ids])

    ov["np.take"] = take
    ov["jax.random.split"] = lambda it_, a, k: (a[0], a[0])
    ov["jax.ShapeDtypeStruct"] = lambda it_, a, k: Obj(None, dict(shape=k.get("shape", a[0] if a else ()), dtype=k.get("dtype", a[1] if len(a) > 1 else None)), "sds")

    def init_state(it_, a, k):
        shapes = k.get("data_shape_dtypes", a[0] if a else None)
        RS = ix.cls("fdtdx.interfaces.state.RecordingState")
        data = {}
        for name, sds in shapes.items():
            n = int(to_rat(sds.attrs["shape"][0]).const_value())
            data[name] = NdArr((n,), [Rat.atom(("old", name, i)) for i in range(n)])
        return Obj(RS, dict(data=data, state={}), "recording_state")

    stub_repo_calls(it, {"fdtdx.core.jax.utils.check_shape_dtype": lambda it_, a, k: None, "fdtdx.interfaces.state.init_recording_state": init_state})
    return it


def _saved_steps(T, k, s):
    return sorted(set(list(range(s, T, k)) + [T - 1]))


def _triple(ctx, T, k, s, with_dtype=False):
    """Returns None or (t, what, got, want)."""
    ix = ctx.index
    it = _interp(ctx)
    mods = [Obj(ix.cls(LR), dict(k=k, start_recording_after=s), "every_k")]
    if with_dtype:
        D = ix.cls("fdtdx.interfaces.modules.DtypeConversion")
        mods = [Obj(D, dict(dtype="target_dtype", exclude_filter=["skip"]), "dtype")] + mods
    rec = Obj(ix.cls(REC), dict(modules=mods), "recorder")
    inp = {"v": Obj(None, dict(shape=(), dtype="input_dtype"), "sds")}
    if with_dtype:
        inp["skip_w"] = Obj(None, dict(shape=(), dtype="other_dtype"), "sds")
        it.ext_overrides["np.issubdtype"] = lambda it_, a, k_: False
    try:
        rec, state = it.call_method(rec, "init_state", input_shape_dtypes=inp, max_time_steps=T, backend="cpu")
    except Raised as r:
        return (-1, "init_state raises", str(r)[:120], "initialised recorder")
    saved = _saved_steps(T, k, s)
    tf = rec.attrs["modules"][-1]
    got_saved = _ints(tf.attrs["_save_time_steps"])
    if got_saved != saved:
        return (-1, "save steps", got_saved, saved)
    n_slots = len(saved)
    casts = []

    class Val:
        pass

    def mkval(name, t):
        v = Rat.atom((name, t))
        return v

    # astype on scalars: record the cast, keep the value
    def attr_hook(it_, obj, name):
        return NotImplemented

    from .. import absint

    old_scalar_attr = absint.scalar_attr

    def scalar_attr(interp, v, name):
        if name == "astype":
            return Builtin("astype", lambda it_, a, k_: (casts.append((to_rat(v).fmt()[:40], a[0])), v)[1])
        if name in ("shape",):
            return ()
        if name == "dtype":
            return "value_dtype"
        return old_scalar_attr(interp, v, name)

    absint.scalar_attr = scalar_attr
    try:
        for t in range(T):
            before = {nm: list(b.data) for nm, b in state.attrs["data"].items()}
            vals = {"v": mkval("v", t)}
            if with_dtype:
                vals["skip_w"] = mkval("w", t)
            try:
                state = it.call_method(rec, "compress", values=vals, state=state, time_step=t, key=Rat.atom("key"))
            except Raised as r:
                return (t, "compress raises", str(r)[:120], "recorded")
            for nm, b in state.attrs["data"].items():
                changed = [i for i, (x, y) in enumerate(zip(before[nm], b.data)) if not to_rat(x).equals(to_rat(y))]
                want_changed = [saved.index(t)] if t in saved else []
                if changed != want_changed:
                    return (t, f"slots of '{nm}' written at step {t}", changed, want_changed)
        for t in range(s, T):
            try:
                out, _ = it.call_method(rec, "decompress", state=state, time_step=t, key=Rat.atom("key"))
            except Raised as r:
                return (t, "decompress raises", str(r)[:120], "value")
            for nm, sym in (("v", "v"),) + ((("skip_w", "w"),) if with_dtype else ()):
                if t in saved:
                    want = Rat.atom((sym, t))
                else:
                    p = max(x for x in saved if x < t)
                    q = min(x for x in saved if x > t)
                    want = Rat.atom((sym, p)) + Fr(t - p, q - p) * (Rat.atom((sym, q)) - Rat.atom((sym, p)))
                g = out[nm]
                if isinstance(g, NdArr) and len(g.data) == 1:
                    g = g.data[0]
                got = to_rat(g)
                if not got.equals(want):
                    return (t, f"decompress('{nm}', t={t})", got.fmt()[:200], want.fmt()[:200])
    finally:
        absint.scalar_attr = old_scalar_attr
    return None


def _dtype_module(ctx):
    """DtypeConversion alone: cast to the module's dtype going in, back to the recorded input dtype coming out."""
    from .. import absint

    ix = ctx.index
    D = ix.cls("fdtdx.interfaces.modules.DtypeConversion")
    for m in ("init_shapes", "compress", "decompress"):
        ctx.unit(D.lookup_method(m).where())
    it = _interp(ctx)
    it.ext_overrides["np.issubdtype"] = lambda it_, a, k_: False
    casts = []
    old_scalar_attr = absint.scalar_attr

    def scalar_attr(interp, v, name):
        if name == "astype":
            return Builtin("astype", lambda it_, a, k_: (casts.append((to_rat(v).fmt(), a[0])), Rat.atom(("cast", to_rat(v).fmt(), a[0])))[1])
        return old_scalar_attr(interp, v, name)

    absint.scalar_attr = scalar_attr
    try:
        # keys are named "<layer>_<field>": the natural filter entry matches in the middle / at the end of the key
        mod = Obj(D, dict(dtype="target_dtype", exclude_filter=["_w"]), "dtype")
        inp = {"v": Obj(None, dict(shape=(), dtype="dtype_of_v"), "sds"), "skip_w": Obj(None, dict(shape=(), dtype="dtype_of_w"), "sds"), "u": Obj(None, dict(shape=(), dtype="dtype_of_u"), "sds")}
        mod, out_shapes, _ = it.call_method(mod, "init_shapes", inp)
        vals = {"v": Rat.atom("v"), "skip_w": Rat.atom("w"), "u": Rat.atom("u")}
        comp, _ = it.call_method(mod, "compress", vals, Obj(None, {}, "state"), key=Rat.atom("key"))
        back = it.call_method(mod, "decompress", comp, Obj(None, {}, "state"), key=Rat.atom("key"))
    except Raised as r:
        raise AnalysisError(f"DtypeConversion raises: {r}")
    finally:
        absint.scalar_attr = old_scalar_attr
    want_comp = {"v": ("cast", "v", "target_dtype"), "u": ("cast", "u", "target_dtype")}
    ok_in = all(to_rat(comp[k]).equals(Rat.atom(w)) for k, w in want_comp.items()) and to_rat(comp["skip_w"]).equals(Rat.atom("w"))
    ok_shapes = out_shapes["v"].attrs["dtype"] == "target_dtype" and out_shapes["skip_w"].attrs["dtype"] == "dtype_of_w"
    ok_out = all(to_rat(back[k]).equals(Rat.atom(("cast", Rat.atom(want_comp[k]).fmt(), f"dtype_of_{k}"))) for k in ("v", "u"))
    ctx.ob("R30.2", "DtypeConversion", ok_in and ok_shapes and ok_out, "values are cast to the module's dtype on the way in (keys containing an exclude_filter entry anywhere in their name untouched, declared output dtypes accordingly) and each back to the dtype recorded for its own key on the way out", dict(compress={k: to_rat(v).fmt() for k, v in comp.items()}, decompress={k: to_rat(v).fmt() for k, v in back.items()}), "cast(target) / cast(own input dtype)")


def _pipeline_sizes(ctx):
    """Recorder.init_state: every time filter is sized for the number of steps that reach it — the total step count
    for the first one, the latent size the previous time filter reported for every later one — and the storage is
    sized by the last latent size."""
    ix = ctx.index
    R = ix.cls("fdtdx.interfaces.recorder.Recorder")
    f = R.lookup_method("init_state")
    ctx.unit(f.where())
    CM = ix.cls("fdtdx.interfaces.modules.CompressionModule")
    TF = ix.cls("fdtdx.interfaces.time_filter.TimeStepFilter")
    it = _interp(ctx)
    seen = []

    def tf_init(name, out_latent):
        def init_shapes(it_, a, k_):
            args = list(a) + [k_.get("time_steps_max")]
            seen.append((name, to_rat(args[1]).fmt() if args[1] is not None else None))
            return (mods[name], out_latent, a[0], {})

        return Builtin("init_shapes", init_shapes)

    mods = {}
    mods["first"] = Obj(TF, dict(name="first"), "first")
    mods["first"].attrs["init_shapes"] = tf_init("first", Rat.atom("A1"))
    mods["cast"] = Obj(CM, dict(name="cast"), "cast")
    mods["cast"].attrs["init_shapes"] = Builtin("init_shapes", lambda it_, a, k_: (mods["cast"], a[0], {}))
    mods["second"] = Obj(TF, dict(name="second"), "second")
    mods["second"].attrs["init_shapes"] = tf_init("second", Rat.atom("A2"))
    rec = Obj(R, dict(modules=[mods["first"], mods["cast"], mods["second"]]), "recorder")
    made = {}

    def irs(it_, a, k_):
        made.update(k_)
        return Obj(None, {}, "recording_state")

    from ..harness import stub_repo_calls

    stub_repo_calls(it, {"init_recording_state": irs})
    it.call_hooks.insert(0, it.call_hooks.pop())  # ahead of the generic model installed by _interp
    it.ext_overrides["jax.ShapeDtypeStruct"] = lambda it_, a, k_: Obj(None, dict(shape=k_.get("shape", a[0] if a else ()), dtype=k_.get("dtype", a[1] if len(a) > 1 else None)), "sds")
    shapes = {"x": Obj(None, dict(shape=(3,), dtype="f32"), "sds")}
    try:
        out = it.call_method(rec, "init_state", shapes, Rat.atom("T"), "cpu")
    except Raised as r:
        raise AnalysisError(f"Recorder.init_state raises on a two-filter pipeline: {r}")
    new_rec = out[0] if isinstance(out, tuple) else out
    lat = new_rec.attrs.get("_latent_array_size") if isinstance(new_rec, Obj) else None
    dshape = (made.get("data_shape_dtypes") or {}).get("x")
    if dshape is None:
        ctx.note(f"init_recording_state received {list(made)}: {made}"[:300])
    lead = dshape.attrs["shape"][0] if isinstance(dshape, Obj) and dshape.attrs.get("shape") else None
    ok = seen == [("first", "T"), ("second", "A1")] and lat is not None and to_rat(lat).equals(Rat.atom("A2")) and lead is not None and to_rat(lead).equals(Rat.atom("A2"))
    ctx.ob("R30.3", "Recorder.init_state:chained-time-filters", ok, "the first time filter is sized for the total number of steps T, the second for the number of latents A1 the first one keeps (a compression module in between does not change it), and the storage has A2 rows — so the second filter's always-saved last slot is the last latent that actually arrives", dict(sized_for=seen, latent=to_rat(lat).fmt() if lat is not None else None, rows=to_rat(lead).fmt() if lead is not None else None), "first: T, second: A1, storage: A2")


def _job(ctx, payload):
    T, kmax, with_dtype = payload
    bad, n = [], 0
    for k in range(1, kmax + 1):
        for s in range(0, T - 1):
            r = _triple(ctx, T, k, s, with_dtype)
            n += 1
            if r is not None:
                bad.append((f"k={k}, start={s}", r))
    classes = {}
    for where, r in bad:
        k = int(where.split(",")[0][2:])
        s = int(where.split("=")[-1])
        cls = "total steps <= k" if T <= k else ("start > 0" if s > 0 else "start = 0, total steps > k")
        classes.setdefault(cls, []).append((where, r))
    label = f"Recorder[{'DtypeConversion, ' if with_dtype else ''}LinearReconstructEveryK]:T={T}"
    if not bad:
        ctx.ob("R30.1", label, True, f"for every k <= {kmax} and every start step ({n} configurations): only saved steps write, each into its own slot; decompress(t) is v_t at saved steps and the linear interpolation between the enclosing saved steps otherwise, for all t >= start", f"{n} configurations", "recorded / interpolated value")
    for cls, items in classes.items():
        where, r = items[0]
        ctx.ob("R30.1", f"{label}[{cls}]", False, f"{len(items)} of {n} configurations fail, e.g. {where}: {r[1]}", r[2], r[3])


def _payloads(tier):
    tmax, kmax = (40, 8) if tier == "thorough" else (9, 4)
    jobs = [(T, kmax, False) for T in range(2, tmax + 1)]
    jobs += [(T, min(kmax, 3), True) for T in (5, 8)]
    return jobs


def run(ctx):
    from .. import par

    ix = ctx.index
    for m in ("init_shapes", "time_to_array_index", "indices_to_decompress", "compress", "decompress"):
        ctx.unit(ix.cls(LR).lookup_method(m).where())
    for m in ("init_state", "compress", "decompress"):
        ctx.unit(ix.cls(REC).lookup_method(m).where())
    jobs = _payloads(ctx.tier)
    err = par.run_jobs(ctx, "sa.checks.c30", "_job", jobs, [f"T={j[0]}{',dtype' if j[2] else ''}" for j in jobs])
    if err:
        raise AnalysisError(err)
    _dtype_module(ctx)
    _pipeline_sizes(ctx)
    ctx.require_count("C30", len(ctx.obligations), len(jobs))
    ctx.trusted_base += [
        "integer table code (arange / roll / where / argmax / .at[].set) interpreted on concrete index arrays; recorded values and prior buffer content are free symbols",
        "lax.cond on a decided predicate takes that branch",
    ]
    ctx.assume("one scalar record per key (the pipeline is shape-agnostic: it only indexes the leading time axis)")
