"""C22 — Gaussian smoothing preserves constants and stays within the input range."""

from __future__ import annotations

import itertools
import math

from ..index import AnalysisError
from ..ndarr import NdArr, concatenate, getitem
from ..poly import Rat, apply_fn, derivative
from ..values import Obj, Raised, to_rat

LEVEL = "other"
EXPLANATION = (
    "Decides GaussianSmoothing2D._apply_smoothing by abstract interpretation on designs of free symbolic entries "
    "(singleton axis in each position, shapes both larger and smaller than the kernel half-width, std 1 and 2) "
    "with default (edge-replicated) and explicit symbolic padding arrays in several combinations, the kernel entries "
    "kept as one weight atom per squared radius (their value exp(-r^2/(2 sigma^2))/sum, symmetry and normalisation "
    "are decided on the real kernel function): every output entry is an affine form in the design and padding "
    "entries whose coefficients are non-negative combinations of kernel weights over the kernel sum and add up to "
    "exactly 1 (so constants are preserved, nothing leaks into the convolution's implicit zero fill, and every "
    "output lies within the range of the design and padding values); and the transform commutes with mirroring "
    "along either in-plane axis when the padding arrays are mirrored accordingly (entry-wise polynomial identity "
    "between two interpretations).  The kernel is symmetric in both coordinates.  Holds for all real inputs of "
    "the interpreted shapes; float rounding is not decided."
)

Q = "fdtdx.objects.device.parameters.continuous.GaussianSmoothing2D"


def _lift(x):
    return x if isinstance(x, NdArr) else NdArr.from_nested(x) if isinstance(x, (list, tuple)) else NdArr((), [x])


def _tile(it, a, k):
    arr, reps = _lift(a[0]), a[1]
    reps = (reps,) if isinstance(reps, int) else tuple(int(r) for r in reps)
    while len(reps) < arr.ndim:
        reps = (1,) + reps
    out = arr
    for axis, r in enumerate(reps):
        if r != 1:
            out = concatenate([out] * r, axis=axis) if r > 0 else getitem(out, tuple([slice(None)] * axis + [slice(0, 0)]))
    return out


def _full(it, a, k):
    shape = a[0]
    shape = (shape,) if isinstance(shape, int) else tuple(int(s) for s in shape)
    return NdArr(shape, [a[1] if not isinstance(a[1], NdArr) else a[1].data[0]] * math.prod(shape))


def _meshgrid(it, a, k):
    xs, ys = [list(_lift(v).data) for v in a[:2]]
    X = NdArr((len(ys), len(xs)), [x for _ in ys for x in xs])
    Y = NdArr((len(ys), len(xs)), [y for y in ys for _ in xs])
    return [X, Y]


def _convolve(it, a, k):
    arr, ker = _lift(a[0]), _lift(a[1])
    mode = k.get("mode", a[2] if len(a) > 2 else "full")
    if mode != "same" or len(arr.shape) != 2 or len(ker.shape) != 2:
        raise AnalysisError(f"convolve model: mode={mode!r} shapes {arr.shape} {ker.shape}")
    H, W = arr.shape
    kh, kw = ker.shape
    oh, ow = (kh - 1) // 2, (kw - 1) // 2
    out = []
    for i in range(H):
        for j in range(W):
            tot = Rat.const(0)
            for p in range(kh):
                for q in range(kw):
                    ii, jj = i + oh - p, j + ow - q  # true convolution (kernel flipped), zero outside
                    if 0 <= ii < H and 0 <= jj < W:
                        tot = tot + to_rat(arr.data[ii * W + jj]) * to_rat(ker.data[p * kw + q])
            out.append(tot)
    return NdArr((H, W), out)


def _arange(it, a, k):
    vals = [int(to_rat(x).const_value()) if not isinstance(x, int) else x for x in a]
    return NdArr((len(range(*vals)),), list(range(*vals)))


def _interp(ctx):
    it = ctx.fresh_interp()
    it.ext_handlers["np.tile"] = _tile
    it.ext_handlers["np.full"] = _full
    it.ext_handlers["np.meshgrid"] = _meshgrid
    it.ext_handlers["np.arange"] = _arange
    it.ext_handlers["jax.scipy.signal.convolve"] = _convolve
    it.ext_handlers["scipy.signal.convolve"] = _convolve
    return it


def arr(name, shape):
    return NdArr(shape, [Rat.atom((name,) + ix) for ix in itertools.product(*[range(n) for n in shape])])


def _sym_kernel(it_, a, k):
    """stand-in for the normalised Gaussian kernel: one weight atom per squared radius (its value, symmetry and
    normalisation are rule R22.3 on the real _create_gaussian_kernel); built for the size the caller asks for"""
    size = int(to_rat(k.get("size", a[1] if len(a) > 1 else None)).const_value())
    h = size // 2
    return NdArr((size, size), [Rat.atom(("w", (i - h) ** 2 + (j - h) ** 2)) for i in range(size) for j in range(size)])


def _kernel_sum(std):
    size = 6 * std + 1
    h = size // 2
    return sum((Rat.atom(("w", (i - h) ** 2 + (j - h) ** 2)) for i in range(size) for j in range(size)), Rat.const(0))


def _smooth(ctx, ci, x, std, pads):
    from ..harness import stub_repo_calls

    it = _interp(ctx)
    stub_repo_calls(it, {f"{Q}._create_gaussian_kernel": _sym_kernel})
    o = Obj(ci, dict(std_discrete=std, padding_low_axis0=pads.get("low0"), padding_high_axis0=pads.get("high0"), padding_low_axis1=pads.get("low1"), padding_high_axis1=pads.get("high1")), "gs")
    try:
        res = it.call_method(o, "__call__", {"p": x})["p"]
    except Raised as r:
        return r
    if not (isinstance(res, NdArr) and res.shape == x.shape):
        raise AnalysisError(f"GaussianSmoothing2D returned {res!r} for input shape {x.shape}")
    return res


def _is_exp(a):
    return isinstance(a, tuple) and a[:1] == ("w",)


def _nonneg_kernel_form(r: Rat) -> bool:
    """r = (sum of positive multiples of exp atoms and positive constants) / (same): non-negative for real args"""
    for p in (r.n, r.d):
        for m, c in p.t.items():
            if not (c > 0):
                return False
            if any(not _is_exp(a) for a, e in m):
                return False
    return True


def _flip2(x: NdArr, plane_axes, which):
    idx = [slice(None)] * 3
    idx[plane_axes[which]] = slice(None, None, -1)
    return getitem(x, tuple(idx))


def _rev(v):
    return None if v is None else getitem(v, (slice(None, None, -1),))


def _case(ctx, payload):
    shape, std, padset = payload
    ix = ctx.index
    ci = ix.cls(Q)
    ctx.unit(ci.lookup_method("_apply_smoothing").where())
    x = arr("x", shape)
    p = list(shape).index(1)
    plane = [a for a in range(3) if a != p]
    nx, ny = shape[plane[0]], shape[plane[1]]
    pads = {}
    if "low0" in padset:
        pads["low0"] = arr("pl0", (ny,))
    if "high0" in padset:
        pads["high0"] = arr("ph0", (ny,))
    if "low1" in padset:
        pads["low1"] = arr("pl1", (nx,))
    if "high1" in padset:
        pads["high1"] = arr("ph1", (nx,))
    label = f"{Q}[shape{shape},std{std},pads={'+'.join(sorted(padset)) or 'default'}]"
    res = _smooth(ctx, ci, x, std, pads)
    ctx.ob("R22.0", f"{label}:accepted", isinstance(res, NdArr), "a design with one singleton axis and padding arrays of the matching edge lengths is smoothed, not rejected", str(res)[:200] if not isinstance(res, NdArr) else "smoothed", "an array of the input's shape")
    if not isinstance(res, NdArr):
        return
    inputs = [to_rat(v) for v in x.data] + [to_rat(v) for pv in pads.values() for v in pv.data]
    in_atoms = [next(iter(v.atoms())) for v in inputs]
    bad_aff = bad_sum = bad_pos = None
    for k, v in enumerate(res.data):
        r = to_rat(v)
        coefs = [derivative(r, a) for a in in_atoms]
        # affine: coefficients free of the inputs, and r is exactly sum coef*input (no constant, no higher order)
        if any(any(b in in_atoms for b in c.atoms()) for c in coefs):
            bad_aff = bad_aff or (k, "a coefficient depends on the input")
        lin = sum((c * Rat.atom(a) for c, a in zip(coefs, in_atoms)), Rat.const(0))
        if not r.equals(lin):
            bad_aff = bad_aff or (k, "not a linear form in the design and padding entries")
        tot = sum(coefs, Rat.const(0))
        if not tot.equals(_kernel_sum(std)):
            bad_sum = bad_sum or (k, tot.fmt()[:200])
        for c in coefs:
            if not c.is_zero() and not _nonneg_kernel_form(c):
                bad_pos = bad_pos or (k, c.fmt()[:200])
    ctx.ob("R22.1", f"{label}:affine", bad_aff is None, "every output entry is a linear form in the design and padding entries with input-independent coefficients", bad_aff, "affine")
    ctx.ob("R22.1", f"{label}:weights-sum-to-1", bad_sum is None, "the weights of every output entry add up to the full kernel sum (= 1 by R22.3): constants are preserved and the convolution's zero fill never contributes", bad_sum, "sum == sum of all kernel entries")
    ctx.ob("R22.1", f"{label}:weights-nonnegative", bad_pos is None, "every weight is a non-negative combination of kernel entries (each > 0 by R22.3): outputs stay within the range of design and padding values", bad_pos, "positive combinations of kernel weights")
    # mirroring
    for which in (0, 1):
        xf = _flip2(x, plane, which)
        if which == 0:
            padf = {"low0": pads.get("high0"), "high0": pads.get("low0"), "low1": _rev(pads.get("low1")), "high1": _rev(pads.get("high1"))}
        else:
            padf = {"low1": pads.get("high1"), "high1": pads.get("low1"), "low0": _rev(pads.get("low0")), "high0": _rev(pads.get("high0"))}
        padf = {k_: v for k_, v in padf.items() if v is not None}
        resf = _smooth(ctx, ci, xf, std, padf)
        if not isinstance(resf, NdArr):
            ctx.ob("R22.4", f"{label}:mirror-axis{which}", False, "smoothing the mirrored design with mirrored padding equals mirroring the smoothed design", str(resf)[:200], "flip(T(x))")
            continue
        want = _flip2(res, plane, which)
        bad = None
        for k, (g, w) in enumerate(zip(resf.data, want.data)):
            if not to_rat(g).equals(to_rat(w)):
                bad = bad or (k, to_rat(g).fmt()[:160], to_rat(w).fmt()[:160])
        ctx.ob("R22.4", f"{label}:mirror-axis{which}", bad is None, "smoothing the mirrored design with mirrored padding equals mirroring the smoothed design", bad[1:] if bad else "all entries", "flip(T(x))")


def _kernel(ctx):
    ix = ctx.index
    ci = ix.cls(Q)
    m = ci.lookup_method("_create_gaussian_kernel")
    ctx.unit(m.where())
    # how _apply_smoothing asks for the kernel: odd size 6*std+1 and sigma = std
    from ..harness import stub_repo_calls

    for std in (1, 2, 3):
        it = _interp(ctx)
        calls = []

        def rec(it_, a, k, _c=calls):
            _c.append((k.get("size", a[1] if len(a) > 1 else None), k.get("sigma", a[2] if len(a) > 2 else None)))
            return _sym_kernel(it_, a, k)

        stub_repo_calls(it, {f"{Q}._create_gaussian_kernel": rec})
        it.call_method(Obj(ci, dict(std_discrete=std, padding_low_axis0=None, padding_high_axis0=None, padding_low_axis1=None, padding_high_axis1=None), "gs"), "__call__", {"p": arr("x", (2, 1, 2))})
        ok = len(calls) == 1 and to_rat(calls[0][0]).equals(6 * std + 1) and to_rat(calls[0][1]).equals(std)
        ctx.ob("R22.3", f"{Q}._apply_smoothing:kernel-request[std={std}]", ok, "the kernel is requested once with odd size 6*std+1 and sigma = std", calls, [(6 * std + 1, std)])
    for sigma in (1, 2):
        it = _interp(ctx)
        size = 6 * sigma + 1
        kern = it.call_method(Obj(ci, {}, "gs"), "_create_gaussian_kernel", size, sigma)
        ok = isinstance(kern, NdArr) and kern.shape == (size, size)
        h = size // 2
        bad = None
        if ok:
            S = sum((to_rat(v) for v in kern.data), Rat.const(0))
            ok = S.equals(1)
            for i in range(size):
                for j in range(size):
                    r2 = (i - h) ** 2 + (j - h) ** 2
                    e = to_rat(kern.data[i * size + j])
                    m1 = to_rat(kern.data[(size - 1 - i) * size + j])
                    m2 = to_rat(kern.data[i * size + (size - 1 - j)])
                    if not (e.equals(m1) and e.equals(m2)):
                        bad = bad or ("symmetry", i, j)
                    # proportional to exp(-r^2/(2 sigma^2)): ratio to the centre entry
                    c = to_rat(kern.data[h * size + h])
                    want = apply_fn("exp", Rat.const(-r2) / (2 * sigma * sigma)) if r2 else Rat.const(1)
                    if not (e / c).equals(want):
                        bad = bad or ("value", i, j, (e / c).fmt(), want.fmt())
        ctx.ob("R22.3", f"{Q}._create_gaussian_kernel[sigma={sigma}]", ok and bad is None, "kernel = exp(-(x^2+y^2)/(2 sigma^2)) over arange(-h, h+1)^2, normalised to sum 1, even in both coordinates", bad, "normalised Gaussian")


def _position(ctx, payload):
    """the smoothed plane does not depend on which of the three axes is the singleton one"""
    _, (nx, ny), std, padset = payload
    ix = ctx.index
    ci = ix.cls(Q)
    plane = [Rat.atom(("x", i, j)) for i in range(nx) for j in range(ny)]
    pads = {}
    for nm, n in (("low0", ny), ("high0", ny), ("low1", nx), ("high1", nx)):
        if nm in padset:
            pads[nm] = arr("p" + nm, (n,))
    outs = {}
    for p_ in range(3):
        shape = [nx, ny]
        shape.insert(p_, 1)
        res = _smooth(ctx, ci, NdArr(tuple(shape), list(plane)), std, pads)
        outs[p_] = [to_rat(v) for v in res.data] if isinstance(res, NdArr) else str(res)[:120]
    bad = [p_ for p_ in (1, 2) if not (isinstance(outs[p_], list) and isinstance(outs[0], list) and all(a.equals(b) for a, b in zip(outs[p_], outs[0])))]
    ctx.ob("R22.5", f"{Q}[plane {nx}x{ny},std{std},pads={'+'.join(sorted(padset)) or 'default'}]:singleton-position", not bad, "the same plane with the same padding arrays is smoothed to the same result whether the singleton axis comes first, in the middle or last", [(p_, outs[p_] if not isinstance(outs[p_], list) else "differs") for p_ in bad], "identical planes")


def _job(ctx, payload):
    if payload == "kernel":
        _kernel(ctx)
    elif payload[0] == "position":
        _position(ctx, payload)
    else:
        _case(ctx, payload)


def run(ctx):
    from ..par import run_jobs

    shapes = [((3, 1, 4), 1), ((1, 2, 2), 1), ((2, 5, 1), 1), ((1, 4, 3), 1)]
    if ctx.tier == "thorough":
        shapes += [((4, 4, 1), 2), ((1, 2, 3), 2)]
    padsets = [(), ("low0", "high0", "low1", "high1"), ("high1",), ("low0", "low1"), ("high0",)]
    jobs = ["kernel"]
    for (shape, std), ps in itertools.product(shapes, padsets):
        if shape == (1, 4, 3) and ps not in ((), ("low0", "high0", "low1", "high1")):
            continue
        jobs.append((shape, std, ps))
    jobs += [("position", (3, 3), 1, ("low0", "high0", "low1", "high1")), ("position", (2, 3), 1, ("low0", "high1")), ("position", (3, 2), 1, ())]
    err = run_jobs(ctx, "sa.checks.c22", "_job", jobs, [str(j) for j in jobs])
    if err is not None:
        raise AnalysisError(err)
    ctx.require_count("C22", len(ctx.obligations), 60)
    ctx.trusted_base += ["models of jnp.tile / full / meshgrid / arange and of scipy.signal.convolve(mode='same') (true 2-D convolution with zero fill)", "exp(.) atoms are positive reals"]
