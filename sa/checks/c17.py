"""C17 — phasor detectors compute the windowed discrete Fourier transform."""

from __future__ import annotations

import itertools
from fractions import Fraction

from ..arrays import SymVec
from ..extlib import conj_rat, real_rat
from ..harness import open_obj, stub_ext, stub_repo_calls
from ..index import AnalysisError
from ..ndarr import Dim, NdArr, field_atom
from ..poly import I, Rat, apply_fn
from ..values import AbsVal, Builtin, Obj, Raised, Unknown, to_rat

LEVEL = "other"
EXPLANATION = (
    "Decides the per-step accumulation formula of every update() body in the PhasorDetector family by "
    "abstract interpretation on symbolic fields: each stored entry grows by exactly "
    "component * exp(+i*2*pi*f*t) * scale * window[t] with t = time_step*dt, scale = 2/sum(window) "
    "(continuous) or the stride (pulse); inverse detectors subtract the same term; the component selector "
    "table; the window / window-sum construction in place_on_grid; the stride thinning of the on-list "
    "(exhaustive over on-lists of length <= 7 and strides <= 4); and the phasor Poynting post-processing "
    "formulas Re(E x H*) with the 1/2 factor only in continuous mode.  Does not decide floating-point "
    "accumulation error."
)

COMPS = ("Ex", "Ey", "Ez", "Hx", "Hy", "Hz")
SP = (Dim(0, "Nx"), Dim(1, "Ny"), Dim(2, "Nz"))


class StateArr(AbsVal):
    """Previous detector state of unknown layout: adopts the shape of what is added to it."""

    is_array = True

    def __init__(self, key):
        self.key = key

    def av_getitem(self, idx):
        return self

    def av_binop(self, op, other, reflected):
        if not isinstance(other, NdArr):
            raise AnalysisError("state combined with a non-array")
        shape = other.shape
        data = []
        for k, x in enumerate(other.data):
            old = Rat.atom(("state", self.key, k))
            if op == "add":
                data.append(old + to_rat(x))
            elif op == "sub":
                data.append((to_rat(x) - old) if reflected else (old - to_rat(x)))
            else:
                raise AnalysisError(f"state {op}")
        return NdArr(shape, data, other.sp)


class StateDict(AbsVal):
    def __init__(self):
        self.seen = []

    def av_getitem(self, key):
        self.seen.append(key)
        return StateArr(key)

    def av_iter(self):
        return []

    def av_getattr(self, name):
        if name in ("items", "keys", "values"):
            return Builtin(name, lambda it, a, k: [])
        if name == "copy":
            return Builtin(name, lambda it, a, k: self)
        raise AnalysisError(f"state.{name}")


def _fields():
    E = NdArr((3,), [field_atom(c) for c in COMPS[:3]], SP)
    H = NdArr((3,), [field_atom(c) for c in COMPS[3:]], SP)
    return E, H


def _mk_detector(ctx, ci, it, mode, inverse, components=COMPS, extra=None):
    ix = ctx.index
    W = ix.cls("fdtdx.core.wavelength.WaveCharacter")
    wcs = [Obj(W, {"frequency": Rat.atom("f0")}, "wc0"), Obj(W, {"frequency": Rat.atom("f1")}, "wc1")]
    attrs = {
        "_config": open_obj(None, "config", time_step_duration=Rat.atom("dt")),
        "wave_characters": wcs,
        "scaling_mode": mode,
        "_window_at_time_step_arr": SymVec("window", Rat.atom("T")),
        "_is_on_at_time_step_arr": SymVec("is_on", Rat.atom("T")),  # the on/off table is not the window: reading it instead shows up as a different atom
        "_window_sum": Rat.atom("WS"),
        "_dft_stride": Rat.atom("stride"),
        "components": tuple(components),
        "reduce_volume": False,
        "inverse": inverse,
        "dtype": Unknown("dtype"),
        "name": "det",
        "switch": open_obj(ix.cls("fdtdx.core.switch.OnOffSwitch"), "switch"),
        "grid_shape": (Rat.atom("Nx"), Rat.atom("Ny"), Rat.atom("Nz")),
    }
    attrs.update(extra or {})
    return Obj(ci, attrs, ci.name)


def _expected_factor(mode, f):
    t = Rat.atom("n") * Rat.atom("dt")
    w = Rat.atom(("idx", "window", Rat.atom("n")))
    ph = apply_fn("exp", Rat.atom(I) * (2 * Rat.atom("π") * Rat.atom(f) * t))
    scale = 2 / Rat.atom("WS") if mode == "continuous" else Rat.atom("stride")
    return ph * scale * w


def _dedup_exp(r: Rat) -> Rat:
    return r


def _check_update(ctx, ci, label, extra=None, comps=COMPS, expect_keys=None, rule=None):
    """Interpret ci.update for both scaling modes and both directions."""
    n_checked = 0
    for mode, inverse in itertools.product(("continuous", "pulse"), (False, True)):
        it = ctx.fresh_interp()
        det = _mk_detector(ctx, ci, it, mode, inverse, comps, extra)
        E, H = _fields()
        state = StateDict()
        try:
            res = it.call_method(det, "update", time_step=Rat.atom("n"), E=E, H=H, state=state, inv_permittivity=Rat.atom("ie"), inv_permeability=Rat.atom("im"))
        except Raised as r:
            raise AnalysisError(f"{label}.update raises on the symbolic state: {r}")
        if not isinstance(res, dict) or not res:
            raise AnalysisError(f"{label}.update did not return a state dict")
        for key, arr in res.items():
            if not isinstance(arr, NdArr):
                raise AnalysisError(f"{label}.update[{key}] is not an array")
            if len(arr.shape) != 3 or arr.shape[0] != 1 or arr.shape[1] != 2:
                ctx.ob(rule or "R17.3", f"{ci.qualname}.update:{key}:layout", False, "state entry must be (1, num_freqs, num_components, *spatial)", arr.shape, "(1, 2, C)")
                continue
            ncomp = arr.shape[2]
            sel = [c for c in COMPS if c in comps]
            okc = ncomp == len(sel)
            bad = None
            for k, v in enumerate(arr.data):
                fi, c = divmod(k, ncomp)
                old = Rat.atom(("state", key, k))
                delta = to_rat(v) - old
                if inverse:
                    delta = -delta
                want_comp = field_atom(sel[c]) if c < len(sel) else None
                fac = _expected_factor(mode, f"f{fi}")
                q = delta / fac
                # the quotient must be exactly the selected field component (at some face position)
                ok = _is_component(q, sel[c] if c < len(sel) else None)
                if not ok and bad is None:
                    bad = (k, mode, inverse, delta.fmt()[:200], (want_comp * fac).fmt()[:200] if want_comp is not None else None)
            n_checked += 1
            ctx.ob(
                rule or ("R17.3" if label != "PhasorDetector" else "R17.1"),
                f"{ci.qualname}.update:{key}:{mode}:{'inverse' if inverse else 'forward'}",
                okc and bad is None,
                "each entry grows by component * exp(+i*2*pi*f*n*dt) * scale * window[n] (subtracted when inverse)"
                + ("" if bad is None else f"; first mismatch at flat index {bad[0]}"),
                bad[3] if bad else f"{len(arr.data)} entries",
                bad[4] if bad else "component * exp(i w t) * scale * window[n]",
            )
    return n_checked


def _is_component(q: Rat, comp) -> bool:
    if comp is None:
        return False
    if not (q.d.is_const() and len(q.n.t) == 1):
        return False
    (m, c), = q.n.t.items()
    if c / q.d.const_value() != 1 or len(m) != 1:
        return False
    (a, e), = m
    if e != 1 or not (isinstance(a, tuple) and a and a[0] == "at"):
        return False
    name = a[1]
    while isinstance(name, tuple):
        name = name[0]
    return name == comp and tuple(a[2]) == (0, 0, 0)


def run(ctx):
    ix = ctx.index
    P = ix.cls("fdtdx.objects.detectors.phasor.PhasorDetector")
    ctx.unit(P.methods["update"].where())
    # R17.1 base class, all components and a subset (component selector table)
    _check_update(ctx, P, "PhasorDetector")
    _check_update(ctx, P, "PhasorDetector", comps=("Hx", "Ey"))
    # R17.2 static scale table
    for mode, want in (("continuous", 2 / Rat.atom("WS")), ("pulse", Rat.atom("stride"))):
        it = ctx.fresh_interp()
        det = _mk_detector(ctx, P, it, mode, False)
        s = it.call_method(det, "_static_scale")
        ctx.ob("R17.2", f"{P.qualname}._static_scale:{mode}", to_rat(s).equals(want), "scale is 2/sum(window) in continuous mode and the stride in pulse mode", to_rat(s).fmt(), want.fmt())
    it = ctx.fresh_interp()
    det = _mk_detector(ctx, P, it, "other", False)
    try:
        it.call_method(det, "_static_scale")
        raised = False
    except Raised:
        raised = True
    ctx.ob("R17.2", f"{P.qualname}._static_scale:invalid", raised, "an unknown scaling mode is rejected", raised, True)
    # R17.3 every override in the family
    fam = ix.subclasses(P)
    overrides = {}
    for c in fam:
        m = c.lookup_method("update")
        if m is not None and m.cls is not P:
            overrides.setdefault(m.qualname, (m, c))
    ctx.note(f"PhasorDetector family: {len(fam)} subclasses, update overrides: {sorted(overrides)}")
    ctx.require_count("R17.3 overrides", len(overrides), 2)
    for q, (m, c) in sorted(overrides.items()):
        ctx.unit(m.where())
        extra = {"axes": (0, 1, 2), "exclude_surfaces": (), "_projection_mode": "box", "orientation": "outward"}
        _check_update(ctx, m.cls, m.cls.name, extra=extra)
    _window_rules(ctx, P)
    _stride_rules(ctx, P)
    _poynting_rules(ctx)
    # R17.7 / R17.8: the plane the phasor Poynting detector integrates over and the closed-surface integral, composed
    # from the rules of C16 (relabelled): the axis table of the phasor classes (axis 0 included) and the per-frequency
    # net flux over the closed surface for one and for two frequencies
    from . import c16

    c16._axis_tables(ctx, rule="R17.7", only=lambda ci: "Phasor" in ci.name)
    c16._closed_phasor_net(ctx, rule="R17.8", nfreq=1)
    c16._closed_phasor_net(ctx, rule="R17.8", nfreq=2)
    if ctx.tier == "thorough":
        c16._closed_phasor_net(ctx, rule="R17.8", nfreq=3)
    ctx.require_count("C17", len(ctx.obligations), 80)


def _window_rules(ctx, P):
    """place_on_grid: window = apodization(t) * on_mask (or on_mask), stored per step, and its sum."""
    ix = ctx.index
    for with_apod in (False, True):
        it = ctx.fresh_interp()
        TD = (Dim(0, "T"),)
        on = NdArr((), [field_atom("on", (0, 0, 0), (0,))], TD)
        apod_vals = NdArr((), [field_atom("apod", (0, 0, 0), (0,))], TD)
        seen_time = []

        def get_window(it_, a, k):
            seen_time.append(a[0] if a else k.get("time"))
            return apod_vals

        apod = Obj(None, {"get_window": Builtin("get_window", get_window)}, "apod") if with_apod else None
        det = _mk_detector(ctx, P, it, "continuous", False, extra={"apodization": apod, "_is_on_at_time_step_arr": on, "dft_subsample": 1})
        det.attrs["_config"] = open_obj(None, "config", time_step_duration=Rat.atom("dt"), time_steps_total=Rat.atom("T"))
        stub_repo_calls(it, {"Detector.place_on_grid": lambda it_, a, k: a[0]})
        stub_ext(
            it,
            {
                "np.arange": lambda it_, a, k: NdArr((), [field_atom("step", (0, 0, 0), (0,))], TD),
                "math.isfinite": lambda it_, a, k: True,
            },
        )
        results = []
        for path, out in it.explore(lambda: it.call_method(det, "place_on_grid", grid_slice_tuple=((0, 1), (0, 1), (0, 1)), config=det.attrs["_config"], key=Rat.atom("key"))):
            if out[0] == "ok":
                results.append(out[1])
        if len(results) != 1:
            raise AnalysisError(f"place_on_grid: expected one non-raising path, got {len(results)}")
        d2 = results[0]
        w = d2.attrs.get("_window_at_time_step_arr")
        ws = d2.attrs.get("_window_sum")
        want_w = to_rat(on.data[0]) * (to_rat(apod_vals.data[0]) if with_apod else 1)
        okw = isinstance(w, NdArr) and len(w.data) == 1 and to_rat(w.data[0]).equals(want_w)
        tag = "apodized" if with_apod else "rectangular"
        ctx.ob("R17.2", f"{P.qualname}.place_on_grid:window:{tag}", okw, "window[t] = apodization(t) * on_mask[t] (on_mask alone without apodization)", w.data[0].fmt() if isinstance(w, NdArr) else w, want_w.fmt())
        from ..extlib import linear_op

        want_ws = linear_op("sum[0:T[0:0]]", want_w)
        okws = isinstance(ws, Rat) and ws.equals(want_ws)
        ctx.ob("R17.2", f"{P.qualname}.place_on_grid:window_sum:{tag}", okws, "_window_sum = sum over all steps of the stored window", ws.fmt() if isinstance(ws, Rat) else ws, want_ws.fmt())
        if with_apod:
            tm = seen_time[0] if seen_time else None
            want_t = to_rat(field_atom("step", (0, 0, 0), (0,))) * Rat.atom("dt")
            okt = isinstance(tm, NdArr) and to_rat(tm.data[0]).equals(want_t)
            ctx.ob("R17.2", f"{P.qualname}.place_on_grid:window_time", okt, "the apodization window is sampled at t = step * dt", tm.data[0].fmt() if isinstance(tm, NdArr) else tm, want_t.fmt())


def _stride_rules(ctx, P):
    """_calculate_on_list keeps every stride-th *active* step, starting with the first."""
    it = ctx.fresh_interp()
    cur = {}
    stub_repo_calls(it, {"Detector._calculate_on_list": lambda it_, a, k: list(cur["on"])})
    bad = None
    n = 0
    for L in range(0, 8):
        for bits in itertools.product([False, True], repeat=L):
            for stride in (1, 2, 3, 4):
                cur["on"] = list(bits)
                det = _mk_detector(ctx, P, it, "pulse", False, extra={"dft_subsample": stride})
                got = it.call_method(det, "_calculate_on_list")
                active = [t for t, b in enumerate(bits) if b]
                want = [t in active[::stride] for t in range(L)]
                n += 1
                if list(got) != want and bad is None:
                    bad = (bits, stride, list(got), want)
    ctx.ob("R17.4", f"{P.qualname}._calculate_on_list", bad is None, f"stride thinning keeps active[::stride] ({n} on-list/stride combinations, exhaustive up to length 7)", bad[2] if bad else "all equal", bad[3] if bad else "active[::stride]")
    # the stride is read from dft_subsample (int path): max(1, int(sub))
    for sub, want in ((1, 1), (3, 3), (0, 1), (-2, 1)):
        det = _mk_detector(ctx, P, it, "pulse", False, extra={"dft_subsample": sub})
        got = it.call_method(det, "_resolve_dft_stride")
        ctx.ob("R17.4", f"{P.qualname}._resolve_dft_stride[{sub}]", got == want, "explicit stride is max(1, int(dft_subsample))", got, want)


def _poynting_rules(ctx):
    """Re(E x H*) of the phasors, 1/2 only in continuous mode, direction / orientation signs."""
    ix = ctx.index
    it = ctx.fresh_interp()
    it.complex_atoms = set(COMPS)
    ph = NdArr((1, 6), [field_atom(c) for c in COMPS], SP)
    pv = it.call_function("fdtdx.objects.detectors.poynting_flux._phasor_poynting_vector", ph)
    if not isinstance(pv, NdArr) or pv.shape != (1, 3):
        raise AnalysisError(f"_phasor_poynting_vector returned {pv!r}")
    E = [to_rat(field_atom(c)) for c in COMPS[:3]]
    Hc = [conj_rat(to_rat(field_atom(c)), it) for c in COMPS[3:]]
    for i in range(3):
        j, k = (i + 1) % 3, (i + 2) % 3
        want = real_rat(E[j] * Hc[k] - E[k] * Hc[j], it)
        ctx.ob("R17.5", f"_phasor_poynting_vector[{i}]", to_rat(pv.data[i]).equals(want), "S = Re(E x conj(H)) with E = phasors[:, :3], H = phasors[:, 3:]", to_rat(pv.data[i]).fmt()[:200], want.fmt()[:200])
    # plane detector: direction sign, component selection, 1/2 in continuous mode only
    PP = ix.cls("fdtdx.objects.detectors.poynting_flux.PhasorPoyntingFluxDetector")
    ctx.unit(PP.methods["compute_poynting_flux"].where())
    S = NdArr((1, 3), [field_atom(f"S{i}") for i in range(3)], SP)
    from ..extlib import linear_op

    for mode, direction, keep, axis in itertools.product(("continuous", "pulse"), ("+", "-"), (False, True), (0, 1, 2)):
        it2 = ctx.fresh_interp()
        stub_repo_calls(it2, {"_phasor_poynting_vector": lambda it_, a, k: S})
        if keep:
            weights = NdArr((3,), [field_atom(f"A{i}") for i in range(3)], SP)
        else:
            weights = NdArr((), [field_atom(f"A{axis}")], SP)
        det = Obj(PP, {"direction": direction, "scaling_mode": mode, "keep_all_components": keep, "_cached_face_area_weights": weights, "fixed_propagation_axis": axis, "grid_shape": tuple(1 if a == axis else 5 for a in range(3))}, "pp")
        flux = it2.call_method(det, "compute_poynting_flux", {"phasor": NdArr((1, 1, 6), [field_atom(c) for c in COMPS], SP)})
        sgn = -1 if direction == "-" else 1
        half = Fraction(1, 2) if mode == "continuous" else 1
        tag = "0:Nx[0:0],1:Ny[0:0],2:Nz[0:0]"
        if keep:
            want = [linear_op(f"sum[{tag}]", to_rat(field_atom(f"S{i}")) * to_rat(field_atom(f"A{i}"))) * sgn * half for i in range(3)]
            got = list(flux.data) if isinstance(flux, NdArr) else None
            ok = got is not None and len(got) == 3 and all(to_rat(g).equals(w) for g, w in zip(got, want))
        else:
            want = [linear_op(f"sum[{tag}]", to_rat(field_atom(f"S{axis}")) * to_rat(field_atom(f"A{axis}"))) * sgn * half]
            got = list(flux.data) if isinstance(flux, NdArr) else [flux]
            ok = len(got) == 1 and to_rat(got[0]).equals(want[0])
        ctx.ob("R17.6", f"{PP.qualname}.compute_poynting_flux:{mode}:{direction}:{'all' if keep else 'single'}:axis={axis}", ok, "flux = (1/2 in continuous mode) * sign(direction) * sum(S_axis * area) with the component of the propagation axis", [to_rat(g).fmt()[:120] for g in (got or [])], [w.fmt()[:120] for w in want])
