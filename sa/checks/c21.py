"""C21 — design symmetry transforms produce symmetric designs."""

from __future__ import annotations

import itertools

from ..index import AnalysisError
from ..ndarr import NdArr
from ..poly import Rat
from ..values import Obj, Raised, to_rat

LEVEL = "proof"
EXPLANATION = (
    "For every symmetry transform class found in the symmetries module (through the class index) and every "
    "option value, __call__ is abstractly interpreted on arrays whose every entry is a distinct symbolic atom, "
    "for every admissible layout (2-D designs with the singleton axis in each of the three positions, non-square "
    "where allowed, square where required; 3-D boxes with pairwise different sizes where allowed and with only "
    "the swapped pair equal, plus a cube).  The extracted output is compared entry-wise, as a polynomial identity, "
    "with (v + g.v)/2 where g is the documented reflection / rotation / transposition, g is checked to be an "
    "involution of the index set, and the four consequences named by the property are then also checked "
    "directly on the extracted output: invariance under g, idempotence (second interpretation on the output), "
    "unchanged symmetric inputs, equal entry sum.  Because the entries are free symbols the identities hold for "
    "every real input of that shape; flips, transposes and reversed slices act uniformly in the sizes, which is "
    "the only extrapolation (trusted base).  Floating-point rounding is not decided."
)

MOD = "fdtdx.objects.device.parameters.symmetries"


def _atoms(shape, name="v"):
    data = [Rat.atom((name,) + ix) for ix in itertools.product(*[range(n) for n in shape])]
    return NdArr(shape, data)


def _flat(shape, ix):
    k = 0
    for n, i in zip(shape, ix):
        k = k * n + i
    return k


# ---- oracle group elements: index -> index on the full 3-D shape -------------------------------
def g_flip(axes):
    def g(shape, ix):
        return tuple(shape[a] - 1 - i if a in axes else i for a, i in enumerate(ix))

    return g


def g_swap(a, b, anti):
    def g(shape, ix):
        out = list(ix)
        if anti:
            out[a], out[b] = shape[b] - 1 - ix[b], shape[a] - 1 - ix[a]
        else:
            out[a], out[b] = ix[b], ix[a]
        return tuple(out)

    return g


def _plane_axes(shape):
    """in-plane axes of a 2-D design stored as a 3-D array with one singleton axis"""
    p = list(shape).index(1)
    return [a for a in range(3) if a != p]


def oracle_cases(cname):
    """-> list of (label, attrs, shapes, g_factory(shape) -> g, needs_square_axes)"""
    two_d = [(1, 3, 4), (3, 1, 4), (3, 4, 1), (1, 2, 2), (5, 1, 2), (2, 3, 1)]
    two_d_sq = [(1, 3, 3), (3, 1, 3), (3, 3, 1), (2, 2, 1), (1, 4, 4)]
    three_d = [(2, 3, 4), (4, 2, 3), (3, 3, 3), (1, 2, 5), (2, 1, 2)]
    if cname == "HorizontalSymmetry2D":
        return [("", {}, two_d, lambda sh: g_flip({_plane_axes(sh)[0]}))]
    if cname == "VerticalSymmetry2D":
        return [("", {}, two_d, lambda sh: g_flip({_plane_axes(sh)[1]}))]
    if cname == "PointSymmetry2D":
        return [("", {}, two_d, lambda sh: g_flip(set(_plane_axes(sh))))]
    if cname == "DiagonalSymmetry2D":
        return [
            (f"min_min_to_max_max={mm}", {"min_min_to_max_max": mm}, two_d_sq, (lambda sh, mm=mm: g_swap(*_plane_axes(sh), anti=not mm)))
            for mm in (True, False)
        ]
    if cname == "HorizontalSymmetry3D":
        return [(f"mirror_axis={ax}", {"mirror_axis": ax}, three_d, (lambda sh, k=k: g_flip({k}))) for k, ax in enumerate("xy")]
    if cname == "VerticalSymmetry3D":
        return [("", {}, three_d, lambda sh: g_flip({2}))]
    if cname == "PointSymmetry3D":
        return [("", {}, three_d, lambda sh: g_flip({0, 1, 2}))]
    if cname == "DiagonalSymmetry3D":
        out = []
        for plane, (a, b) in (("xy", (0, 1)), ("xz", (0, 2)), ("yz", (1, 2))):
            c = 3 - a - b
            shapes = []
            for n, m in ((3, 2), (2, 4), (3, 3), (2, 1)):
                sh = [0, 0, 0]
                sh[a] = sh[b] = n
                sh[c] = m
                shapes.append(tuple(sh))
            for mm in (True, False):
                out.append((f"diagonal_plane={plane},min_min_to_max_max={mm}", {"diagonal_plane": plane, "min_min_to_max_max": mm}, shapes, (lambda sh, a=a, b=b, mm=mm: g_swap(a, b, anti=not mm))))
        return out
    return None


def _apply(it, ci, attrs, arr):
    o = Obj(ci, dict(attrs), ci.name)
    res = it.call_method(o, "__call__", {"p": arr})
    if not isinstance(res, dict) or set(res) != {"p"}:
        raise AnalysisError(f"{ci.name}.__call__ returned {res!r}")
    r = res["p"]
    if not isinstance(r, NdArr) or r.sp or r.trail:
        raise AnalysisError(f"{ci.name}.__call__ result is not a concrete-shape array: {r!r}")
    return r


def _canon(node, ren):
    """canonical form of an arithmetic expression modulo commutativity of + and * only (no reassociation, no
    distribution: what IEEE arithmetic guarantees), with names renamed through `ren`"""
    import ast

    if isinstance(node, ast.Name):
        return ("n", ren.get(node.id, node.id))
    if isinstance(node, ast.Constant):
        return ("c", repr(node.value))
    if isinstance(node, ast.UnaryOp):
        return ("u", type(node.op).__name__, _canon(node.operand, ren))
    if isinstance(node, ast.BinOp):
        l, r = _canon(node.left, ren), _canon(node.right, ren)
        if isinstance(node.op, (ast.Add, ast.Mult)):
            l, r = sorted((l, r), key=repr)
        return ("b", type(node.op).__name__, l, r)
    raise AnalysisError(f"mean expression outside the arithmetic grammar: {ast.unparse(node)}")


def _exact_mean_form(ctx, classes):
    """'exactly invariant' in floating point: the entry at p is computed from (v[p], v[g p]) and the entry at g p from
    (v[g p], v[p]) by the same expression, so the two are bit-identical iff the expression is unchanged by swapping its
    two operands up to the commutativity of + and * — (a + b) / 2 is, a + (b - a) / 2 is not."""
    import ast

    n = 0
    for ci in sorted(classes, key=lambda c: c.name):
        fn = ci.methods["__call__"].node
        defs = {}
        for st in ast.walk(fn):
            if isinstance(st, ast.Assign) and len(st.targets) == 1 and isinstance(st.targets[0], ast.Name):
                defs.setdefault(st.targets[0].id, []).append(st.value)
        stored = []
        for st in ast.walk(fn):
            if isinstance(st, ast.Assign) and len(st.targets) == 1 and isinstance(st.targets[0], ast.Subscript):
                stored.append(st.value)
        if not stored:
            raise AnalysisError(f"{ci.name}.__call__: no per-key store of the result found")
        for val in stored:
            e = val
            # unwrap layout-only calls (expand_dims / reshape / astype of the mean)
            while isinstance(e, ast.Call) and e.args:
                e = e.args[0]
            hops = 0
            while isinstance(e, ast.Name) and e.id in defs and len(defs[e.id]) == 1 and isinstance(defs[e.id][0], (ast.BinOp, ast.Name)) and hops < 4:
                e = defs[e.id][0]
                hops += 1
            if not isinstance(e, ast.BinOp):
                raise AnalysisError(f"{ci.name}.__call__: the stored value is not an arithmetic mean expression: {ast.unparse(val)}")
            names = sorted({x.id for x in ast.walk(e) if isinstance(x, ast.Name)})
            if len(names) != 2:
                raise AnalysisError(f"{ci.name}.__call__: mean expression over {names} (expected the array and its image)")
            a, b = names
            same = _canon(e, {}) == _canon(e, {a: b, b: a})
            n += 1
            ctx.ob("R21.6", f"{ci.qualname}.__call__:mean-expression", same, "the symmetrised value is an expression in the array and its image that is unchanged by swapping the two up to commutativity of + and * alone, so an entry and its mirror entry are the same floating-point computation (exact invariance, not invariance up to rounding)", ast.unparse(e), "swap-symmetric, e.g. (a + b) / 2")
    ctx.require_count("R21.6 mean expressions", n, 8)


def run(ctx):
    ix = ctx.index
    mi = ix.module(MOD)
    base = ix.cls("fdtdx.objects.device.parameters.transform.SameShapeTypeParameterTransform")
    classes = [c for c in mi.classes.values() if base in c.mro() and "__call__" in c.methods]
    ctx.require_count("R21 transform classes", len(classes), 8)
    n_cases = 0
    for ci in sorted(classes, key=lambda c: c.name):
        ctx.unit(ci.methods["__call__"].where())
        cases = oracle_cases(ci.name)
        if cases is None:
            raise AnalysisError(f"symmetry transform {ci.name} has no documented group element in the checker's oracle table (new class: extend the table)")
        for label, attrs, shapes, gf in cases:
            for shape in shapes:
                n_cases += 1
                con = f"{ci.qualname}.__call__[{label}]{shape}"
                g = gf(shape)
                idxs = list(itertools.product(*[range(n) for n in shape]))
                # oracle sanity: g is an involution of the index set
                if not all(g(shape, g(shape, i)) == i and all(0 <= x < n for x, n in zip(g(shape, i), shape)) for i in idxs):
                    raise AnalysisError(f"oracle group element for {con} is not an involution")
                v = _atoms(shape)
                it = ctx.fresh_interp()
                try:
                    r = _apply(it, ci, attrs, v)
                except Raised as e:
                    ctx.ob("R21.0", con, False, f"the transform raises on an admissible shape: {e}", str(e), "an array of the input's shape")
                    continue
                if r.shape != tuple(shape):
                    ctx.ob("R21.0", con, False, "output shape differs from the input shape", r.shape, shape)
                    continue
                want = [(to_rat(v.data[_flat(shape, i)]) + to_rat(v.data[_flat(shape, g(shape, i))])) / 2 for i in idxs]
                bad = [i for i, w in zip(idxs, want) if not to_rat(r.data[_flat(shape, i)]).equals(w)]
                ctx.ob(
                    "R21.1", con, not bad, "output == (v + g.v)/2 entry-wise, g the documented reflection/rotation/transposition",
                    {str(i): to_rat(r.data[_flat(shape, i)]).fmt() for i in bad[:2]},
                    {str(i): want[idxs.index(i)].fmt() for i in bad[:2]},
                )
                inv = [i for i in idxs if not to_rat(r.data[_flat(shape, i)]).equals(to_rat(r.data[_flat(shape, g(shape, i))]))]
                ctx.ob("R21.2", con, not inv, "output is invariant under g", [str(i) for i in inv[:3]], "out[g(i)] == out[i] for all i")
                tot_in = sum((to_rat(x) for x in v.data), Rat.const(0))
                tot_out = sum((to_rat(x) for x in r.data), Rat.const(0))
                ctx.ob("R21.3", con, tot_out.equals(tot_in), "entry sum (hence mean) preserved", tot_out.fmt()[:200], tot_in.fmt()[:200])
                try:
                    r2 = _apply(ctx.fresh_interp(), ci, attrs, r)
                    idem = r2.shape == r.shape and all(to_rat(x).equals(to_rat(y)) for x, y in zip(r2.data, r.data))
                except Raised as e:
                    idem = False
                ctx.ob("R21.4", con, idem, "idempotent; a g-symmetric input (the first output) is returned unchanged", "T(T(v))", "T(v)")
    # several parameter arrays: each key gets its own array back (insertion order deliberately not alphabetical)
    for ci in sorted(classes, key=lambda c: c.name):
        cases = oracle_cases(ci.name)
        label, attrs, shapes, gf = cases[0]
        shape = shapes[0]
        g = gf(shape)
        idxs = list(itertools.product(*[range(n) for n in shape]))
        ins = {"rho": _atoms(shape, "r"), "eps": _atoms(shape, "e"), "alpha": _atoms(shape, "a")}
        it = ctx.fresh_interp()
        try:
            res = it.call_method(Obj(ci, dict(attrs), ci.name), "__call__", dict(ins))
        except Raised as e:
            ctx.ob("R21.5", f"{ci.qualname}.__call__[three arrays]", False, f"raises on a dictionary of three arrays: {e}", str(e), "three arrays")
            continue
        ok = isinstance(res, dict) and list(res) == list(ins)
        bad = []
        if ok:
            for key, v in ins.items():
                r = res[key]
                if not (isinstance(r, NdArr) and r.shape == tuple(shape)):
                    bad.append((key, "shape"))
                    continue
                for i in idxs:
                    w = (to_rat(v.data[_flat(shape, i)]) + to_rat(v.data[_flat(shape, g(shape, i))])) / 2
                    if not to_rat(r.data[_flat(shape, i)]).equals(w):
                        bad.append((key, str(i), to_rat(r.data[_flat(shape, i)]).fmt()[:80]))
                        break
        ctx.ob("R21.5", f"{ci.qualname}.__call__[three arrays]", ok and not bad, "with several parameter arrays every key gets the symmetrisation of its own array back (keys 'rho', 'eps', 'alpha' in that insertion order)", bad[:3] if ok else (list(res) if isinstance(res, dict) else res), "out[key] == (v[key] + g.v[key]) / 2")
    _exact_mean_form(ctx, classes)
    ctx.note(f"{len(classes)} classes, {n_cases} (class, option, shape) cases, all entries free symbols")
    ctx.require_count("C21 cases", n_cases, 60)
    ctx.trusted_base += ["sa/ndarr.py model of squeeze/expand_dims/[::-1]/.T/jnp.flip/jnp.transpose on concrete-shape arrays", "uniformity of those index maps in the axis sizes"]
    ctx.assume("2-D designs are stored with exactly one singleton axis and in-plane sizes > 1; diagonal transforms require the swapped axes to have equal size (documented)")
