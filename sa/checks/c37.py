"""C37 — grid geometry helpers are exact."""

from __future__ import annotations

import itertools
import math
from fractions import Fraction as Fr

from ..harness import open_obj
from ..index import AnalysisError
from ..ndarr import NdArr
from ..poly import Rat, normalise_sqrt
from ..values import AbsVal, Builtin, Obj, Raised, Unknown, to_rat

LEVEL = "other"
EXPLANATION = (
    "Decides the RectilinearGrid helpers by abstract interpretation.  Snapping (coord_to_index) touches the "
    "coordinate only through comparisons with the edges (lower / upper) or with distances to them (nearest), so "
    "interpreting it on one representative of every order type of the coordinate relative to the edges and their "
    "midpoints of a generic non-uniform axis (on an edge, on a midpoint, in every open gap, beyond both ends) is "
    "exhaustive for that axis: lower = last edge <= c, upper = first edge >= c, nearest = closest edge (first on "
    "ties); the same for bounds_for_center / bounds_for_anchor over all sizes and anchor positions (size-preserving "
    "interval whose centre / anchor is closest, first on ties) and length_to_cell_count.  Formulas on symbolic "
    "edges: axis_extent = e[u] - e[l], centers = (e_i + e_{i+1})/2, anchor_coordinate, cell_volume = dx*dy*dz and "
    "face_area = product of the two transverse widths laid out along their own axes.  CFL: uniform grids "
    "f*s/(c*sqrt 3), general f/(c*sqrt(sum 1/dmin^2)), config.time_step_duration per grid policy, courant_number = "
    "f/sqrt 3.  Uniform detection: the constructor classifies representative grids (exactly uniform; within / "
    "beyond the relative tolerance; a narrower or a wider interior cell; deviation on y or z only) as documented.  "
    "reduce_symmetric keeps edges[n//2:] of validated symmetric axes.  Float rounding inside numpy is not decided."
)

G = "fdtdx.core.grid.RectilinearGrid"
EDGES = [Fr(0), Fr(1), Fr(3), Fr(7, 2), Fr(6), Fr(13, 2)]  # generic non-uniform axis, no two midpoints coincide


# -------------------------------------------------------------------- concrete numpy model on Fractions
def _vals(a):
    if isinstance(a, NdArr):
        return [_num(x) for x in a.data]
    if isinstance(a, (list, tuple)):
        return [_num(x) for x in a]
    return [_num(a)]


def sc(x):
    """0-d array -> its scalar"""
    return x.data[0] if isinstance(x, NdArr) and len(x.data) == 1 and not x.sp and not x.shape else x


def _num(x):
    r = to_rat(sc(x))
    if not r.is_const():
        raise AnalysisError(f"concrete numpy model met a symbolic value {r.fmt()}")
    return r.const_value()


def _np_model(it):
    H = it.ext_overrides

    def searchsorted(it_, a, k):
        edges, v = _vals(a[0]), _num(a[1])
        side = k.get("side", a[2] if len(a) > 2 else "left")
        if side == "left":
            return sum(1 for e in edges if e < v)
        if side == "right":
            return sum(1 for e in edges if e <= v)
        raise Raised("ValueError", f"side {side!r}")

    def argmin(it_, a, k):
        vs = _vals(a[0])
        return min(range(len(vs)), key=lambda i: (vs[i], i))

    def arange(it_, a, k):
        args = [int(_num(x)) for x in a]
        return NdArr((len(range(*args)),), list(range(*args)))

    def diff(it_, a, k):
        vs = _vals(a[0])
        return NdArr((len(vs) - 1,), [y - x for x, y in zip(vs, vs[1:])])

    H["np.searchsorted"] = searchsorted
    H["np.argmin"] = argmin
    H["np.arange"] = arange
    H["np.diff"] = diff
    H["np.min"] = lambda it_, a, k: min(_vals(a[0]))
    H["np.max"] = lambda it_, a, k: max(_vals(a[0]))
    H["np.any"] = lambda it_, a, k: any(bool(x) for x in (a[0].data if isinstance(a[0], NdArr) else [a[0]]))
    H["np.round"] = lambda it_, a, k: a[0]
    H["np.issubdtype"] = lambda it_, a, k: True
    H["np.finfo"] = lambda it_, a, k: Obj(None, {"eps": Fr(1, 2**23)}, "finfo")
    H["np.floor"] = lambda it_, a, k: math.floor(_num(a[0]))
    H["np.ceil"] = lambda it_, a, k: math.ceil(_num(a[0]))


def _grid(ctx, it, ex=EDGES, ey=None, ez=None, **extra):
    ci = ctx.index.cls(G)
    mk = lambda e: NdArr((len(e),), list(e))
    attrs = dict(x_edges=mk(ex), y_edges=mk(ey or [Fr(0), Fr(2), Fr(5)]), z_edges=mk(ez or [Fr(-1), Fr(0), Fr(4)]))
    attrs.update(extra)
    return Obj(ci, attrs, "grid")


def _coord_classes(edges):
    """one representative per order type of a coordinate w.r.t. the edges and all midpoints of edge pairs"""
    marks = sorted(set(edges) | {(a + b) / 2 for a, b in itertools.combinations(edges, 2)})
    reps = [marks[0] - 1]
    for m, nxt in zip(marks, marks[1:] + [None]):
        reps.append(m)
        reps.append((m + nxt) / 2 if nxt is not None else m + 1)
    return reps


def _snapping(ctx):
    ci = ctx.index.cls(G)
    for m in ("coord_to_index", "length_to_cell_count", "bounds_for_center", "bounds_for_anchor", "anchor_coordinate"):
        ctx.unit(ci.lookup_method(m).where())
    it = ctx.fresh_interp()
    _np_model(it)
    g = _grid(ctx, it)
    n = len(EDGES)
    reps = _coord_classes(EDGES)
    for snap in ("nearest", "lower", "upper"):
        bad = []
        for c in reps:
            got = it.call_method(g, "coord_to_index", 0, c, snap=snap)
            if snap == "lower":
                want = max([k for k in range(n) if EDGES[k] <= c], default=-1)
            elif snap == "upper":
                want = min([k for k in range(n) if EDGES[k] >= c], default=n)
            else:
                want = min(range(n), key=lambda k: (abs(EDGES[k] - c), k))
            if got != want:
                bad.append((str(c), got, want))
        ctx.ob("R37.1", f"{G}.coord_to_index[{snap}]", not bad, f"exhaustive over the {len(reps)} order types of the coordinate relative to edges and midpoints: " + {"nearest": "closest edge, first on ties", "lower": "last edge <= coordinate", "upper": "first edge >= coordinate"}[snap], bad[:4], "as named")
    try:
        it.call_method(g, "coord_to_index", 0, Fr(1), snap="sideways")
        unk = False
    except Raised:
        unk = True
    ctx.ob("R37.1", f"{G}.coord_to_index[unknown]", unk, "an unknown snapping rule is rejected", unk, True)
    # length_to_cell_count: coord_to_index(edges[0] + length)
    bad = []
    for L in (Fr(0), Fr(1, 2), Fr(1), Fr(2), Fr(3), Fr(13, 4), Fr(6), Fr(7)):
        for snap in ("nearest", "lower", "upper"):
            got = it.call_method(g, "length_to_cell_count", 0, L, snap=snap)
            want = it.call_method(g, "coord_to_index", 0, EDGES[0] + L, snap=snap)
            if got != want:
                bad.append((str(L), snap, got, want))
    ctx.ob("R37.1", f"{G}.length_to_cell_count", not bad, "cells from the lower domain edge: the snapped index of edges[0] + length", bad[:3], "coord_to_index(e0 + L)")
    # interval choice
    for meth in ("bounds_for_center", "bounds_for_anchor"):
        bad = []
        ncase = 0
        positions = (0,) if meth == "bounds_for_center" else (-1, 0, 1, Fr(1, 2))
        for size in range(1, n):
            for pos in positions:
                cands = list(range(n - size))
                anchors = [EDGES[l] + Fr(1, 2) * (pos + 1) * (EDGES[l + size] - EDGES[l]) for l in cands]
                marks = sorted(set(anchors) | {(a + b) / 2 for a, b in itertools.combinations(anchors, 2)})
                targets = [marks[0] - 1] + [t for m, nx in zip(marks, marks[1:] + [None]) for t in (m, (m + nx) / 2 if nx is not None else m + 1)]
                for t in targets:
                    ncase += 1
                    if meth == "bounds_for_center":
                        got = it.call_method(g, meth, 0, t, size)
                    else:
                        got = it.call_method(g, meth, 0, size, t, pos)
                    lo = min(cands, key=lambda l: (abs(anchors[l] - t), l))
                    if tuple(got) != (lo, lo + size):
                        bad.append((size, str(pos), str(t), tuple(got), (lo, lo + size)))
        ctx.ob("R37.4", f"{G}.{meth}", not bad, f"{ncase} cases (all sizes, anchor positions, every order type of the target relative to candidate anchors and their midpoints): returns (lower, lower+size) with the closest centre / anchor, first on ties", bad[:3], "size-preserving closest interval")
        for size in (0, n):
            try:
                (it.call_method(g, meth, 0, Fr(1), size) if meth == "bounds_for_center" else it.call_method(g, meth, 0, size, Fr(1), 0))
                rej = False
            except Raised:
                rej = True
            ctx.ob("R37.4", f"{G}.{meth}[size={size}]", rej, "non-positive sizes and sizes that do not fit are rejected", rej, True)


def _formulas(ctx):
    ci = ctx.index.cls(G)
    it = ctx.fresh_interp()
    sym = lambda nm, n: NdArr((n,), [Rat.atom((nm, i)) for i in range(n)])
    ex, ey, ez = sym("x", 5), sym("y", 4), sym("z", 4)
    widths = tuple(NdArr((len(e.data) - 1,), [to_rat(b) - to_rat(a) for a, b in zip(e.data, e.data[1:])]) for e in (ex, ey, ez))
    g = Obj(ci, dict(x_edges=ex, y_edges=ey, z_edges=ez, _cell_widths=widths), "grid")
    E = {0: ex, 1: ey, 2: ez}
    for m in ("axis_extent", "centers", "cell_volume", "face_area", "anchor_coordinate"):
        ctx.unit(ci.lookup_method(m).where())
    bad = []
    for axis in range(3):
        n = len(E[axis].data)
        for lo, hi in itertools.combinations(range(n), 2):
            got = to_rat(sc(it.call_method(g, "axis_extent", axis, (lo, hi))))
            want = to_rat(E[axis].data[hi]) - to_rat(E[axis].data[lo])
            if not got.equals(want):
                bad.append((axis, lo, hi, got.fmt(), want.fmt()))
    ctx.ob("R37.3", f"{G}.axis_extent", not bad, "extent of an index interval = e[upper] - e[lower] on the same axis", bad[:3], "e[u] - e[l]")
    bad = []
    for axis in range(3):
        c = it.call_method(g, "centers", axis)
        n = len(E[axis].data)
        if not (isinstance(c, NdArr) and c.shape == (n - 1,)):
            bad.append((axis, getattr(c, "shape", c)))
            continue
        for i in range(n - 1):
            want = (to_rat(E[axis].data[i]) + to_rat(E[axis].data[i + 1])) / 2
            if not to_rat(c.data[i]).equals(want):
                bad.append((axis, i))
    ctx.ob("R37.3", f"{G}.centers", not bad, "cell centres = midpoints of consecutive edges", bad[:3], "(e_i + e_{i+1})/2")
    bad = []
    for axis, pos in itertools.product(range(3), (-1, 0, 1, Fr(1, 3))):
        got = to_rat(sc(it.call_method(g, "anchor_coordinate", axis, (1, 3), pos)))
        lo, hi = to_rat(E[axis].data[1]), to_rat(E[axis].data[3])
        want = lo + Fr(1, 2) * (pos + 1) * (hi - lo)
        if not got.equals(want):
            bad.append((axis, str(pos), got.fmt(), want.fmt()))
    ctx.ob("R37.3", f"{G}.anchor_coordinate", not bad, "anchor = lower + (position+1)/2 * (upper - lower): -1 lower side, 0 centre, +1 upper side", bad[:3], "affine in position")
    st = ((1, 3), (0, 2), (1, 3))
    w = lambda axis, i: to_rat(E[axis].data[i + 1]) - to_rat(E[axis].data[i])
    vol = it.call_method(g, "cell_volume", st)
    bad = []
    shape = tuple(hi - lo for lo, hi in st)
    if not (isinstance(vol, NdArr) and vol.shape == shape):
        bad.append(("shape", getattr(vol, "shape", vol), shape))
    else:
        for ix in itertools.product(*[range(m) for m in shape]):
            want = w(0, st[0][0] + ix[0]) * w(1, st[1][0] + ix[1]) * w(2, st[2][0] + ix[2])
            k = (ix[0] * shape[1] + ix[1]) * shape[2] + ix[2]
            if not to_rat(vol.data[k]).equals(want):
                bad.append((ix, to_rat(vol.data[k]).fmt(), want.fmt()))
    ctx.ob("R37.3", f"{G}.cell_volume", not bad, "per-cell volume = dx_i * dy_j * dz_k over the slice", bad[:3], "dx*dy*dz")
    from ..ndarr import elementwise

    for axis in range(3):
        fa = it.call_method(g, "face_area", axis=axis, slice_tuple=st)
        t = [a for a in range(3) if a != axis]
        want_shape = tuple(1 if a == axis else shape[a] for a in range(3))
        bad = []
        if not (isinstance(fa, NdArr) and fa.shape == want_shape):
            bad.append(("shape", getattr(fa, "shape", fa), want_shape))
        else:
            for ix in itertools.product(*[range(m) for m in want_shape]):
                want = w(t[0], st[t[0]][0] + ix[t[0]]) * w(t[1], st[t[1]][0] + ix[t[1]])
                k = (ix[0] * want_shape[1] + ix[1]) * want_shape[2] + ix[2]
                if not to_rat(fa.data[k]).equals(want):
                    bad.append((ix, to_rat(fa.data[k]).fmt(), want.fmt()))
        ctx.ob("R37.3", f"{G}.face_area[axis{axis}]", not bad, "per-cell face area = product of the two transverse widths, laid out along their own axes, size one along the normal", bad[:3], "w_t0 * w_t1")


def _cfl(ctx):
    ix = ctx.index
    ci = ix.cls(G)
    ctx.unit(ci.lookup_method("cfl_time_step").where())
    it = ctx.fresh_interp()
    c = to_rat(it.lookup_global(ix.module("fdtdx.constants"), "c"))
    f, s = Rat.atom("f"), Rat.atom("s")
    from ..poly import sqrt

    g = Obj(ci, dict(_is_uniform=True, _uniform_spacing=s, _min_spacings=(s, s, s)), "grid")
    got = normalise_sqrt(to_rat(it.call_method(g, "cfl_time_step", f)) ** 2)
    want = (f * s / c) ** 2 / 3
    ctx.ob("R37.2", f"{G}.cfl_time_step[uniform]", got.equals(want), "uniform grid: dt = f*s/(c*sqrt(3)) (compared squared)", got.fmt(), want.fmt())
    dx, dy, dz = (Rat.atom(n) for n in ("dx", "dy", "dz"))
    g = Obj(ci, dict(_is_uniform=False, _uniform_spacing=None, _min_spacings=(dx, dy, dz)), "grid")
    got = normalise_sqrt(to_rat(it.call_method(g, "cfl_time_step", f)) ** 2)
    want = f * f / (c * c * (1 / (dx * dx) + 1 / (dy * dy) + 1 / (dz * dz)))
    ctx.ob("R37.2", f"{G}.cfl_time_step[general]", got.equals(want), "general grid: dt = f/(c*sqrt(1/dx_min^2 + 1/dy_min^2 + 1/dz_min^2)) (compared squared): the CFL bound with safety factor f", got.fmt(), want.fmt())
    # equal spacings through the general formula agree with the uniform one
    g = Obj(ci, dict(_is_uniform=False, _uniform_spacing=None, _min_spacings=(s, s, s)), "grid")
    got = normalise_sqrt(to_rat(it.call_method(g, "cfl_time_step", f)) ** 2)
    ctx.ob("R37.2", f"{G}.cfl_time_step[branches-agree]", got.equals((f * s / c) ** 2 / 3), "the two branches agree on equal spacings", got.fmt(), "f^2 s^2/(3 c^2)")
    # config
    C = ix.cls("fdtdx.config.SimulationConfig")
    ctx.unit(C.lookup_method("time_step_duration").where())
    U = ix.cls("fdtdx.core.grid.UniformGrid")
    QG = ix.cls("fdtdx.core.grid.QuasiUniformGrid")
    cn = normalise_sqrt(to_rat(it.getattr(Obj(C, dict(courant_factor=f), "cfg"), "courant_number")) ** 2)
    ctx.ob("R37.2", "fdtdx.config.SimulationConfig.courant_number", cn.equals(f * f / 3), "courant_number = courant_factor/sqrt(3)", cn.fmt(), "f^2/3")
    cfgu = Obj(C, dict(courant_factor=f, grid=Obj(U, dict(spacing=s, center=(0, 0, 0)), "ug")), "cfg")
    got = normalise_sqrt(to_rat(it.getattr(cfgu, "time_step_duration")) ** 2)
    ctx.ob("R37.2", "SimulationConfig.time_step_duration[UniformGrid]", got.equals((f * s / c) ** 2 / 3), "unresolved uniform policy: courant_number*spacing/c", got.fmt(), "f^2 s^2/(3 c^2)")
    cfgq = Obj(C, dict(courant_factor=f, grid=Obj(QG, dict(dx=dx, dy=dy, dz=dz, min_spacing=Rat.atom("dmin")), "qg")), "cfg")
    got = normalise_sqrt(to_rat(it.getattr(cfgq, "time_step_duration")) ** 2)
    ctx.ob("R37.2", "SimulationConfig.time_step_duration[QuasiUniformGrid]", got.equals((f * Rat.atom("dmin") / c) ** 2 / 3), "unresolved quasi-uniform policy: courant_number*min_spacing/c (conservative)", got.fmt(), "f^2 dmin^2/(3 c^2)")
    rec = []
    cfgr = Obj(C, dict(courant_factor=f, grid=Obj(ci, dict(cfl_time_step=Builtin("cfl", lambda it_, a, k: (rec.append(a[0]), Rat.atom("DT"))[1])), "rg")), "cfg")
    got = to_rat(it.getattr(cfgr, "time_step_duration"))
    ctx.ob("R37.2", "SimulationConfig.time_step_duration[RectilinearGrid]", got.equals(Rat.atom("DT")) and len(rec) == 1 and to_rat(rec[0]).equals(f), "realised grids: grid.cfl_time_step(courant_factor)", (got.fmt(), [to_rat(x).fmt() for x in rec]), "cfl_time_step(f)")


def _uniform_detection(ctx):
    ix = ctx.index
    ci = ix.cls(G)
    m = ci.lookup_method("__post_init__")
    ctx.unit(m.where())
    s = Fr(1, 4)

    def uni(n, s=s, lo=Fr(-1)):
        return [lo + s * i for i in range(n + 1)]

    def with_width(edges, k, w):
        out = list(edges[: k + 1])
        out.append(out[-1] + w)
        for a, b in zip(edges[k + 1 :], edges[k + 2 :]):
            out.append(out[-1] + (b - a))
        return out

    base = uni(6)
    cases = [
        ("exactly-uniform", base, uni(4), uni(5), True),
        ("narrower-interior-cell-x", with_width(base, 3, s * Fr(9, 10)), uni(4), uni(5), False),
        ("wider-interior-cell-x", with_width(base, 3, s * Fr(11, 10)), uni(4), uni(5), False),
        ("narrower-last-cell-x", with_width(base, 5, s * Fr(1, 2)), uni(4), uni(5), False),
        ("coarse-borders-fine-interior", with_width(with_width(base, 2, s / 2), 3, s / 2), uni(4), uni(5), False),
        ("y-only-narrower", base, with_width(uni(4), 1, s * Fr(4, 5)), uni(5), False),
        ("z-only-wider", base, uni(4), with_width(uni(5), 2, s * 2), False),
        ("y-different-uniform-spacing", base, uni(4, s=s / 2), uni(5), False),
        ("within-tolerance", with_width(base, 2, s * (1 + Fr(1, 10**6))), uni(4), uni(5), True),
        ("just-beyond-tolerance", with_width(base, 2, s * (1 - Fr(3, 10**4))), uni(4), uni(5), False),
    ]
    for tag, ex, ey, ez, want in cases:
        it = ctx.fresh_interp()
        _np_model(it)
        it.ext_handlers["object.__setattr__"] = lambda it_, a, k: a[0].attrs.__setitem__(a[1], a[2])
        g = _grid(ctx, it, ex, ey, ez)
        try:
            it.call_method(g, "__post_init__")
        except Raised as r:
            raise AnalysisError(f"RectilinearGrid.__post_init__ raises on a valid grid ({tag}): {r}")
        got = g.attrs.get("_is_uniform")
        us = g.attrs.get("_uniform_spacing")
        ok = got is want and ((us is not None and to_rat(sc(us)).equals(ex[1] - ex[0])) if want else us is None)
        ms = g.attrs.get("_min_spacings")
        okm = ms is not None and all(to_rat(sc(x)).equals(min(b - a for a, b in zip(e, e[1:]))) for x, e in zip(ms, (ex, ey, ez)))
        ctx.ob("R37.5", f"{G}.__post_init__[{tag}]", ok and okm, "uniform iff every width on every axis equals the first x width within the relative tolerance; uniform_spacing only then; min_spacings = smallest width per axis", (got, None if us is None else to_rat(sc(us)).fmt()), (want, "min widths"))
    # non-monotone edges are rejected
    it = ctx.fresh_interp()
    _np_model(it)
    it.ext_handlers["object.__setattr__"] = lambda it_, a, k: a[0].attrs.__setitem__(a[1], a[2])
    g = _grid(ctx, it, [Fr(0), Fr(1), Fr(1), Fr(2)])
    try:
        it.call_method(g, "__post_init__")
        rej = False
    except Raised:
        rej = True
    ctx.ob("R37.5", f"{G}.__post_init__[non-increasing]", rej, "edge arrays that are not strictly increasing are rejected", rej, True)


def _allclose(it_, a, k):
    """numpy semantics: |x - y| <= atol + rtol |y|, defaults rtol = 1e-5, atol = 1e-8 (absolute: metres here)"""
    rtol = Fr(str(k.get("rtol", a[2] if len(a) > 2 else "1e-5"))) if not isinstance(k.get("rtol", None), Fr) else k["rtol"]
    atol = Fr(str(k.get("atol", a[3] if len(a) > 3 else "1e-8"))) if not isinstance(k.get("atol", None), Fr) else k["atol"]
    return all(abs(x - y) <= atol + rtol * abs(y) for x, y in zip(_vals(a[0]), _vals(a[1])))


def _reduce_symmetric(ctx):
    ix = ctx.index
    ci = ix.cls(G)
    ctx.unit(ci.lookup_method("reduce_symmetric").where())
    sym_edges = [Fr(0), Fr(1), Fr(3), Fr(5), Fr(6)]  # widths 1,2,2,1
    for symmetry in ((1, 0, 0), (0, -1, 0), (-1, 1, -1)):
        it = ctx.fresh_interp()
        _np_model(it)
        it.ext_overrides["np.allclose"] = _allclose
        made = []

        def custom(it_, a, k, _m=made):
            _m.append((k.get("x_edges"), k.get("y_edges"), k.get("z_edges")))
            return "reduced"

        g = _grid(ctx, it, sym_edges, sym_edges, sym_edges)
        w = NdArr((4,), [b - a for a, b in zip(sym_edges, sym_edges[1:])])
        g.attrs["_cell_widths"] = (w, w, w)
        from ..harness import stub_repo_calls

        stub_repo_calls(it, {f"{G}.custom": custom})
        it.call_method(g, "reduce_symmetric", symmetry)
        ok = len(made) == 1 and all(_vals(made[0][a]) == (sym_edges[2:] if symmetry[a] else sym_edges) for a in range(3))
        ctx.ob("R37.5", f"{G}.reduce_symmetric[{symmetry}]", ok, "symmetric axes keep edges[n//2:] (the upper half), other axes are unchanged", [None if not made else [str(x) for x in _vals(made[0][a])] for a in range(3)], "upper half")
    it = ctx.fresh_interp()
    _np_model(it)
    it.ext_overrides["np.allclose"] = _allclose
    asym = [Fr(0), Fr(1), Fr(3), Fr(4), Fr(6)]
    g = _grid(ctx, it, asym, asym, asym)
    w = NdArr((4,), [b - a for a, b in zip(asym, asym[1:])])
    g.attrs["_cell_widths"] = (w, w, w)
    try:
        it.call_method(g, "reduce_symmetric", (1, 0, 0))
        rej = False
    except Raised:
        rej = True
    ctx.ob("R37.5", f"{G}.reduce_symmetric[asymmetric-widths]", rej, "an axis whose widths are not mirror-symmetric is rejected", rej, True)
    # the same at the scale grids are actually given in (metres): 10 nm cells, mismatches of a few nm
    nm = Fr(1, 10**9)
    for tag, widths, want_rej in (("nanometre-scale asymmetric", (10, 15, 12, 10), True), ("nanometre-scale symmetric", (10, 15, 15, 10), False), ("nanometre-scale 10 % ramp", (10, 11, 12, 13), True)):
        it = ctx.fresh_interp()
        _np_model(it)
        it.ext_overrides["np.allclose"] = _allclose
        e = [Fr(0)]
        for w_ in widths:
            e.append(e[-1] + w_ * nm)
        g = _grid(ctx, it, e, e, e)
        w = NdArr((4,), [b - a for a, b in zip(e, e[1:])])
        g.attrs["_cell_widths"] = (w, w, w)
        from ..harness import stub_repo_calls

        stub_repo_calls(it, {f"{G}.custom": lambda it_, a, k: "reduced"})
        try:
            it.call_method(g, "reduce_symmetric", (0, 1, 0))
            rej = False
        except Raised:
            rej = True
        ctx.ob("R37.5", f"{G}.reduce_symmetric[{tag}]", rej is want_rej, "the mirror-symmetry test of the widths is relative: it gives the same verdict at nanometre scale as at unit scale (no absolute tolerance that swallows nanometre differences)", rej, want_rej)


def run(ctx):
    _snapping(ctx)
    _formulas(ctx)
    _cfl(ctx)
    _uniform_detection(ctx)
    _reduce_symmetric(ctx)
    ctx.require_count("C37", len(ctx.obligations), 40)
    ctx.trusted_base += ["concrete numpy model on exact rationals (searchsorted, argmin with first-on-ties, diff, min, max, any)", "order-type exhaustiveness: snapping helpers touch the coordinate only through comparisons with edges / distances"]
    ctx.assume("one generic non-uniform axis of 5 cells stands for all axes (the helpers are axis-generic through self.edges(axis)); float rounding of numpy is outside the property")
