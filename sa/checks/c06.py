"""C06 — simulation state depends only on the steps executed, not on how the run is split; reset."""

from __future__ import annotations

from ..driver import static_signature, Driver, Facts, _leaves, atom, dyn_signature, integer_atom, leaf_key, rec_signature
from ..index import AnalysisError
from ..poly import Rat
from ..values import Obj, Raised, to_rat

LEVEL = "other"
EXPLANATION = (
    "Decided on the drivers interpreted for symbolic step counts (the single step is an opaque deterministic token, "
    "loops are summarised as counting loops, see sa/driver.py): (1) custom_fdtd_forward from a to b followed by b to c "
    "on the returned container yields the same step counter and the same history token of fields and detector states "
    "as a single call from a to c, for Python-int bounds and for array-valued bounds alike; in every call the loop "
    "starts at start_time, runs while the counter is below end_time and its trip bound covers end - start for all "
    "0 <= start <= end <= time_steps_total; (2) ArrayContainer.reset, interpreted on a used container of a dispersive "
    "scene with two absorbing layers and two detectors, zeroes every declared member of FieldState (enumerated from "
    "the class, so a member added later is covered) and every detector state, leaves materials, conductivities and "
    "dispersive coefficients identical, keeps the recording buffers by default and zeroes them on request; (3) "
    "run_fdtd / checkpointed_fdtd / reversible_fdtd / custom_fdtd_forward(reset_container=True) started from a used "
    "container produce the same token as from a pristine one (they reset first), and custom_fdtd_forward without "
    "reset continues from the state it is given.  Equality of floating-point results is implied only up to the "
    "determinism of the step itself, which is assumed."
)


def _objects():
    return Obj(None, {}, "objects")


def _split(ctx):
    T, a, b, c = (integer_atom(n) for n in ("T", "a", "b", "c"))
    fn = "fdtdx.fdtd.fdtd.custom_fdtd_forward"
    for as_arrays in (False, True):
        kind = "array-valued bounds" if as_arrays else "Python-int bounds"
        facts = lambda: Facts([a, b - a, c - b, T - c])
        d = Driver(ctx, facts(), python_int_times=not as_arrays)
        arr = d.arrays()
        cfg = d.config(T)
        r1 = d.call(fn, arr, _objects(), cfg, atom("key"), False, True, a, b, show_progress=False)
        if isinstance(r1, Raised):
            raise AnalysisError(f"custom_fdtd_forward raises: {r1}")
        r2 = d.call(fn, r1[1], _objects(), cfg, atom("key"), False, True, r1[0], c, show_progress=False)
        d2 = Driver(ctx, facts(), python_int_times=not as_arrays)
        r3 = d2.call(fn, d2.arrays(), _objects(), d2.config(T), atom("key"), False, True, a, c, show_progress=False)
        for r in (r2, r3):
            if isinstance(r, Raised):
                raise AnalysisError(f"custom_fdtd_forward raises: {r}")
        same = to_rat(r2[0]).equals(to_rat(r3[0])) and to_rat(r3[0]).equals(c) and dyn_signature(r2[1]) == dyn_signature(r3[1])
        ctx.ob("R6.1", f"custom_fdtd_forward:split[{kind}]", same, "a -> b then b -> c on the returned container equals a -> c: same final step, same history token of fields and detector states", (to_rat(r2[0]).fmt(), str(dyn_signature(r2[1]))[:160]), (to_rat(r3[0]).fmt(), str(dyn_signature(r3[1]))[:160]))
        for i, lp in enumerate(d.loops + d2.loops):
            ok = lp.enters and lp.covered and lp.step == 1 and lp.rel == "lt"
            ctx.ob("R6.1", f"custom_fdtd_forward:loop{i}[{kind}]", ok, "the loop starts at start_time, advances one step while the counter is below end_time, and max_steps covers end - start whenever 0 <= start <= end <= time_steps_total", dict(start=to_rat(lp.t0).fmt(), bound=to_rat(lp.bound).fmt(), max_steps=None if lp.max_steps is None else to_rat(lp.max_steps).fmt(), covered=lp.covered), "max_steps >= end - start")
        starts = [to_rat(lp.t0).fmt() for lp in d.loops]
        ctx.ob("R6.1", f"custom_fdtd_forward:start[{kind}]", starts == ["a", "b"], "each partial run starts counting at its start_time", starts, ["a", "b"])


def _reset(ctx):
    T = integer_atom("T")
    d = Driver(ctx, Facts([T - 1]), num_pml=2, num_detectors=2, dispersive=True)
    used = d.arrays(tag="used")
    FS = ctx.index.cls("fdtdx.fdtd.container.FieldState")
    declared = tuple(FS.all_fields())
    ctx.ob("R6.2", "FieldState:declared-members", set(declared) == set(used.attrs["fields"].attrs) and len(declared) >= 6, "the scene carries a non-trivial value for every declared member of FieldState", sorted(used.attrs["fields"].attrs), sorted(declared))
    m = ctx.index.cls("fdtdx.fdtd.container.ArrayContainer").lookup_method("reset")
    ctx.unit(m.where())
    static = [n for n in used.attrs if n not in ("fields", "detector_states", "recording_state")]
    for label, kw in (("default", {}), ("reset_recording_state", dict(reset_recording_state=True)), ("keep_detectors", dict(reset_detector_states=False))):
        out = d.run(lambda: d.it.call_method(used, "reset", **kw))
        if isinstance(out, Raised):
            raise AnalysisError(f"ArrayContainer.reset raises: {out}")
        nonzero = [p for p, v in _leaves(out.attrs["fields"], ("fields",)) if not to_rat(v).is_zero()]
        n_leaves = len(list(_leaves(out.attrs["fields"], ("fields",))))
        ctx.ob("R6.2", f"ArrayContainer.reset[{label}]:fields", not nonzero and n_leaves == len(list(_leaves(used.attrs["fields"], ("fields",)))), "every leaf of every FieldState member (E, H, both CPML memories of every layer, both ADE polarisation levels) is zero afterwards, none dropped", nonzero[:4], "all zero")
        det_nonzero = [p for p, v in _leaves(out.attrs["detector_states"], ("det",)) if not to_rat(v).is_zero()]
        if kw.get("reset_detector_states") is False:
            same = all(leaf_key(v) == leaf_key(w) for (_, v), (_, w) in zip(_leaves(out.attrs["detector_states"]), _leaves(used.attrs["detector_states"])))
            ctx.ob("R6.2", f"ArrayContainer.reset[{label}]:detectors", same, "detector states are kept when asked", det_nonzero[:2], "unchanged")
        else:
            ctx.ob("R6.2", f"ArrayContainer.reset[{label}]:detectors", not det_nonzero and len(list(_leaves(out.attrs["detector_states"]))) == 2, "every detector state is zero afterwards", det_nonzero[:4], "all zero")
        changed = [n for n in static if not _same(out.attrs.get(n), used.attrs.get(n))]
        ctx.ob("R6.2", f"ArrayContainer.reset[{label}]:materials", not changed and set(out.attrs) == set(used.attrs), "inverse permittivity / permeability, conductivities, dispersive coefficients and the etching backup are the same values", changed, [])
        rec_same = rec_signature(out) == rec_signature(used)
        rec_zero = all(to_rat(v).is_zero() for _, v in _leaves(out.attrs["recording_state"]))
        if kw.get("reset_recording_state"):
            ctx.ob("R6.2", f"ArrayContainer.reset[{label}]:recording", rec_zero, "recording buffers are zeroed on request", rec_signature(out), "all zero")
        else:
            ctx.ob("R6.2", f"ArrayContainer.reset[{label}]:recording", rec_same, "recording buffers are kept by default (partial runs continue writing into them)", str(rec_signature(out))[:120], "unchanged")


def _same(a, b):
    if a is None or b is None:
        return a is b
    return to_rat(a).equals(to_rat(b))


def _reuse(ctx):
    T, a, b = (integer_atom(n) for n in ("T", "a", "b"))
    runs = [
        ("run_fdtd[no gradient]", "fdtdx.fdtd.wrapper.run_fdtd", None, (), {}),
        ("run_fdtd[reversible]", "fdtdx.fdtd.wrapper.run_fdtd", dict(method="reversible", num_checkpoints_reversible=1), (), {}),
        ("checkpointed_fdtd", "fdtdx.fdtd.fdtd.checkpointed_fdtd", dict(method="checkpointed"), (), {}),
        ("custom_fdtd_forward[reset_container=True]", "fdtdx.fdtd.fdtd.custom_fdtd_forward", None, (True, True, a, b), {}),
        ("custom_fdtd_forward[reset_container=True,record_detectors=False]", "fdtdx.fdtd.fdtd.custom_fdtd_forward", None, (True, False, a, b), {}),
    ]
    for label, fn, grad, extra, kw in runs:
        outs = []
        for tag in ("pristine", "used"):
            d = Driver(ctx, Facts([T - 2, a, b - a, T - b]), dispersive=(grad is None or grad.get("method") != "reversible"))
            arr = d.arrays(tag=tag)
            r = d.call(fn, arr, _objects(), d.config(T, gradient=grad), atom("key"), *extra, show_progress=False, **kw)
            if isinstance(r, Raised):
                raise AnalysisError(f"{label} raises: {r}")
            outs.append((to_rat(r[0]).fmt(), dyn_signature(r[1])))
            if tag == "pristine":
                same_mat = static_signature(r[1]) == static_signature(arr)
                ctx.ob("R6.4", f"{label}:returned-materials", same_mat, "the container a run returns carries the caller's material arrays unchanged (inverse permittivity / permeability, both conductivities, dispersive coefficients): a later run from it simulates the same medium", [x for x, y in zip(static_signature(r[1]), static_signature(arr)) if x != y][:3], "same material arrays")
        base = outs[0][1]
        if isinstance(base, tuple) and base and base[0] == "M":
            # fields advanced, detector states not recorded: every detector leaf must be zero, the fields a run over the zero state
            leaves = dict(base[1])
            det_zero = all(v == ("const", "0") for p_, v in leaves.items() if p_[0] == "det")
            fh = {v[2] for p_, v in leaves.items() if p_[0] == "fields" and isinstance(v, tuple) and len(v) == 3}
            zero_based = det_zero and len(fh) == 1 and isinstance(next(iter(fh)), tuple) and next(iter(fh))[0] == "run" and next(iter(fh))[5][0] == "zero"
        else:
            zero_based = isinstance(base, tuple) and len(base) == 6 and isinstance(base[5], tuple) and base[5][0] == "zero"
        if extra:
            # a resetting partial run still covers exactly its own window
            d_w = Driver(ctx, Facts([T - 2, a - 1, b - a, T - b]))
            r_w = d_w.call(fn, d_w.arrays(tag="used"), _objects(), d_w.config(T), atom("key"), *extra, show_progress=False)
            starts = [to_rat(lp.t0).fmt() for lp in d_w.loops]
            ctx.ob("R6.3", f"{label}:window", starts == ["a"] and to_rat(r_w[0]).equals(b) and all(lp.covered for lp in d_w.loops), "resetting zeroes the state and nothing else: the run still executes the steps start .. end - 1 of its own window (start > 0 included)", dict(loop_start=starts, final_step=to_rat(r_w[0]).fmt()), dict(loop_start=["a"], final_step="b"))
        ctx.ob("R6.3", f"{label}:reused-container", outs[0] == outs[1] and zero_based, "a run started from a used container equals the run from a pristine one: both start from the all-zero dynamic state", str(outs[1])[:200], str(outs[0])[:200])
    # a chained second run from the arrays returned by the first
    d = Driver(ctx, Facts([T - 1]))
    arr = d.arrays()
    cfg = d.config(T)
    r1 = d.call("fdtdx.fdtd.wrapper.run_fdtd", arr, _objects(), cfg, atom("key"), show_progress=False)
    r2 = d.call("fdtdx.fdtd.wrapper.run_fdtd", r1[1], _objects(), cfg, atom("key"), show_progress=False)
    ctx.ob("R6.3", "run_fdtd:rerun-on-returned-arrays", dyn_signature(r1[1]) == dyn_signature(r2[1]) and to_rat(r2[0]).equals(T), "running again from the arrays a run returned gives the identical token", str(dyn_signature(r2[1]))[:160], str(dyn_signature(r1[1]))[:160])
    # the same through the reversible strategy (its result container is assembled by hand from the loop's outputs)
    d = Driver(ctx, Facts([T - 2]), dispersive=False)
    arr = d.arrays()
    cfg = d.config(T, gradient=dict(method="reversible", num_checkpoints_reversible=1))
    r1 = d.call("fdtdx.fdtd.wrapper.run_fdtd", arr, _objects(), cfg, atom("key"), show_progress=False)
    r2 = d.call("fdtdx.fdtd.wrapper.run_fdtd", r1[1], _objects(), cfg, atom("key"), show_progress=False) if not isinstance(r1, Raised) else r1
    ok_r = not isinstance(r2, Raised) and dyn_signature(r1[1]) == dyn_signature(r2[1]) and to_rat(r2[0]).equals(T)
    ctx.ob("R6.3", "run_fdtd[reversible]:rerun-on-returned-arrays", ok_r, "running the reversible strategy again from the arrays it returned gives the identical token (same steps on the same materials)", str(r2)[:160] if isinstance(r2, Raised) else str(dyn_signature(r2[1]))[:160], str(dyn_signature(r1[1]))[:160] if not isinstance(r1, Raised) else str(r1))
    # without reset the partial run continues from what it is given
    d = Driver(ctx, Facts([T - 2, a, b - a, T - b]))
    arr = d.arrays(tag="used")
    r = d.call("fdtdx.fdtd.fdtd.custom_fdtd_forward", arr, _objects(), d.config(T), atom("key"), False, True, a, b, show_progress=False)
    h = dyn_signature(r[1])
    ctx.ob("R6.3", "custom_fdtd_forward[reset_container=False]:continues", isinstance(h, tuple) and len(h) == 6 and h[5] == ("init", "used"), "without reset the steps are applied on top of the given state", str(h)[:160], "run over ('init','used')")


def _split_many(ctx, parts):
    """a_0 -> a_1 -> ... -> a_n in n partial runs equals a_0 -> a_n in one."""
    T = integer_atom("T")
    pts = [integer_atom(f"a{i}") for i in range(parts + 1)]
    fn = "fdtdx.fdtd.fdtd.custom_fdtd_forward"
    for as_arrays in (False, True):
        facts = lambda: Facts([pts[0]] + [y - x for x, y in zip(pts, pts[1:])] + [T - pts[-1]])
        d = Driver(ctx, facts(), python_int_times=not as_arrays)
        arr, cfg = d.arrays(), d.config(T)
        t, cur = pts[0], arr
        for nxt in pts[1:]:
            r = d.call(fn, cur, _objects(), cfg, atom("key"), False, True, t, nxt, show_progress=False)
            if isinstance(r, Raised):
                raise AnalysisError(f"custom_fdtd_forward raises: {r}")
            t, cur = r
        d2 = Driver(ctx, facts(), python_int_times=not as_arrays)
        r1 = d2.call(fn, d2.arrays(), _objects(), d2.config(T), atom("key"), False, True, pts[0], pts[-1], show_progress=False)
        same = to_rat(t).equals(to_rat(r1[0])) and dyn_signature(cur) == dyn_signature(r1[1]) and all(lp.covered and lp.enters for lp in d.loops)
        ctx.ob("R6.1", f"custom_fdtd_forward:split-in-{parts}[{'array-valued' if as_arrays else 'Python-int'} bounds]", same, f"{parts} consecutive partial runs equal the single run over the same steps", str(dyn_signature(cur))[:160], str(dyn_signature(r1[1]))[:160])


def run_thorough(ctx):
    for parts in (3, 4, 6):
        _split_many(ctx, parts)


def run(ctx):
    _split(ctx)
    _reset(ctx)
    _reuse(ctx)
    ctx.require_count("C06", len(ctx.obligations), 28)
    ctx.trusted_base += [
        "counting-loop summary of eqxi.while_loop (sa/driver.py)",
        "`forward` as an opaque deterministic step of (step counter, arrays, flags)",
        "jax.tree.map as a leaf-wise map over the declared members of a TreeClass, dicts and tuples",
    ]
    ctx.assume("0 <= start <= end <= time_steps_total for partial runs")
