"""C40 — functional updates never mutate their input."""

from __future__ import annotations

import itertools

from ..index import AnalysisError
from ..values import AbsVal, Builtin, ClassRef, Obj, Raised

LEVEL = "other"
EXPLANATION = (
    "Decides TreeClass.aset (with its own path parser _parse_operations and _aset) by interpreting the real "
    "method on a nested configuration object whose containers are genuine shared-reference lists and dicts, for "
    "every sequence of path steps up to depth four over {attribute, list index, dict key} that the fixture "
    "admits, negative indices, and the create_new_ok cases (new attribute, new key, refused when the flag is "
    "off or the missing step is not the last).  aset's behaviour depends on the path only through the step kinds "
    "and on whether the last step exists, so the enumeration is exhaustive for paths of that depth.  Three "
    "obligations per path, checked on a structural snapshot of the whole heap taken before the call: the original "
    "object graph is unchanged (every container reachable from it holds what it held), the result has the class "
    "of the receiver, and the result equals the original with exactly the addressed path replaced; additionally "
    "no container on the path is shared between the result and the original (a later write to the result cannot "
    "reach the original).  Paths deeper than four steps and exotic container types are not decided."
)

PYT = "fdtdx.core.jax.pytrees"


class _At(AbsVal):
    """pytreeclass `.at[method](*args)`: run the method on a shallow copy, return (result, copy)."""

    def __init__(self, it, obj):
        self.it, self.obj = it, obj

    def av_getitem(self, name):
        def call(it, a, k, _n=name):
            new = self.obj.replace()
            m = new.cls.lookup_method(_n) if new.cls else None
            if m is None:
                raise AnalysisError(f".at[{_n!r}] on {new!r}")
            res = it.call_closure(it.closure_of(m), [new] + list(a), k)
            return (res, new)

        return Builtin(f"at[{name}]", call)


def _snapshot(x, seen=None):
    """structural, identity-free picture of everything reachable from x"""
    if isinstance(x, Obj):
        return ("obj", x.cls.name if x.cls else None, tuple(sorted((k, _snapshot(v)) for k, v in x.attrs.items())))
    if isinstance(x, list):
        return ("list", tuple(_snapshot(v) for v in x))
    if isinstance(x, tuple):
        return ("tuple", tuple(_snapshot(v) for v in x))
    if isinstance(x, dict):
        return ("dict", tuple(sorted((repr(k), _snapshot(v)) for k, v in x.items())))
    return ("leaf", repr(x))


def _containers(x, out=None):
    out = {} if out is None else out
    if isinstance(x, Obj):
        for v in x.attrs.values():
            _containers(v, out)
    elif isinstance(x, (list, dict)):
        if id(x) not in out:
            out[id(x)] = x
            for v in x if isinstance(x, list) else x.values():
                _containers(v, out)
    elif isinstance(x, tuple):
        for v in x:
            _containers(v, out)
    return out


def _fixture(ix):
    """cfg.a -> Inner(b=[{name: 1, other: 2}, [7, 8, {k: 9}]], d={x: [3, 4], y: Leaf(v=5)}), cfg.stack=[[1,2],[3,4]], cfg.registry={p: {q: 6}}"""
    T = ix.cls(f"{PYT}.TreeClass")
    leaf = Obj(T, {"v": 5, "w": [10, 11]}, "leaf")
    inner = Obj(T, {"b": [{"name": 1, "other": 2}, [7, 8, {"k": 9}]], "d": {"x": [3, 4], "y": leaf}, "c": 0}, "inner")
    cfg = Obj(T, {"a": inner, "stack": [[1, 2], [3, 4]], "registry": {"p": {"q": 6}}, "n": 1}, "cfg")
    return cfg


def _get(x, op, kind):
    if kind == "attribute":
        return x.attrs[op]
    return x[op]


def _paths(root, depth=4):
    """all existing paths (op, kind) sequences up to `depth` steps"""
    out = []

    def walk(x, path):
        if path:
            out.append(list(path))
        if len(path) >= depth:
            return
        if isinstance(x, Obj):
            for k, v in x.attrs.items():
                walk(v, path + [(k, "attribute")])
        elif isinstance(x, list):
            for i, v in enumerate(x):
                walk(v, path + [(i, "index")])
            if x:
                walk(x[-1], path + [(-1, "index")])
        elif isinstance(x, dict):
            for k, v in x.items():
                walk(v, path + [(k, "key")])

    walk(root, [])
    return out


def _fmt(path):
    parts = []
    for op, kind in path:
        parts.append(op if kind == "attribute" else f"[{op}]" if kind == "index" else f"['{op}']")
    return "->".join(parts)


def _expected(root, path, val):
    """original with exactly `path` replaced, as a snapshot"""

    def rebuild(x, p):
        if not p:
            return val
        (op, kind), rest = p[0], p[1:]
        if kind == "attribute":
            attrs = dict(x.attrs)
            attrs[op] = rebuild(x.attrs.get(op), rest)
            return Obj(x.cls, attrs, x.label)
        if kind == "index":
            cp = list(x)
            cp[op] = rebuild(x[op], rest)
            return cp
        cp = dict(x)
        cp[op] = rebuild(x.get(op), rest)
        return cp

    return _snapshot(rebuild(root, path))


def _run_aset(ctx, root, path_str, val, create_new_ok=False):
    ix = ctx.index
    it = ctx.fresh_interp()
    it.allow_memoised = True  # one call per interpreter: a memoised parser behaves like a plain one (sequences: R40.6)
    T = ix.cls(f"{PYT}.TreeClass")
    it.attr_hooks.append(lambda it_, obj, name: _At(it_, obj) if name == "at" else NotImplemented)
    f = T.lookup_method("aset")
    if f is None:
        raise AnalysisError("TreeClass.aset vanished")
    ctx.unit(f.where())
    return it.call_closure(it.closure_of(f), [root, path_str, val], {"create_new_ok": create_new_ok})


def run(ctx):
    ix = ctx.index
    ctx.unit(ix.cls(f"{PYT}.TreeClass").lookup_method("_parse_operations").where())
    proto = _fixture(ix)
    paths = _paths(proto)
    kinds = sorted({tuple(k for _, k in p) for p in paths})
    ctx.note(f"{len(paths)} existing paths, {len(kinds)} distinct step-kind sequences up to depth 4")
    ctx.require_count("R40 step-kind sequences", len(kinds), 12)
    n = 0
    for path in paths:
        root = _fixture(ix)
        before = _snapshot(root)
        conts_before = _containers(root)
        val = ("NEW", len(path))
        label = _fmt(path)
        try:
            res = _run_aset(ctx, root, label, val)
        except Raised as r:
            ctx.ob("R40.1", f"aset[{label}]", False, f"raises on an existing path: {r}", str(r), "updated copy")
            continue
        n += 1
        after = _snapshot(root)
        ctx.ob("R40.1", f"aset[{label}]:input-unchanged", after == before, "the receiver and everything reachable from it are unchanged", "changed" if after != before else "unchanged", "unchanged")
        same_cls = isinstance(res, Obj) and res.cls is root.cls
        want = _expected(_fixture(ix), path, val)
        ctx.ob("R40.2", f"aset[{label}]:result", same_cls and _snapshot(res) == want, "the result has the receiver's class and equals the original with exactly this path replaced", "mismatch" if not (same_cls and _snapshot(res) == want) else "ok", "original[path := value]")
        # no container on the path is shared with the original
        shared = []
        x, y = root, res
        for op, kind in path:
            try:
                x, y = _get(x, op, kind), _get(y, op, kind)
            except Exception:
                break
            if isinstance(y, (list, dict)) and id(y) in conts_before:
                shared.append(_fmt(path[: path.index((op, kind)) + 1]))
        # containers *containing* the replaced slot must be fresh copies
        x, y = root, res
        on_path = []
        for op, kind in path:
            if isinstance(y, (list, dict)) and y is x:
                on_path.append(repr(type(y).__name__))
            x, y = _get(x, op, kind), _get(y, op, kind)
        ctx.ob("R40.3", f"aset[{label}]:no-aliasing", not on_path, "every container that holds the replaced slot is a fresh copy in the result (a later write to the result cannot reach the original)", on_path, "fresh copies along the path")
    # create_new_ok
    cases = [
        ("fresh_attr", True, "ok"), ("fresh_attr", False, "raise"), ("a->fresh", True, "ok"), ("registry->['fresh']", True, "ok"), ("registry->['fresh']", False, "raise"),
        ("registry->['p']->['fresh']", True, "ok"), ("a->d->['fresh']", True, "ok"), ("missing->x", True, "raise"), ("registry->['nope']->['k']", True, "raise"), ("stack->[5]", True, "raise"),
    ]
    # the same with None as the new value (None is also what the traversal uses for "slot does not exist yet")
    cases = [c + ("NEWVAL",) for c in cases] + [("fresh_attr", True, "ok", None), ("registry->['fresh']", True, "ok", None), ("a->d->['fresh']", True, "ok", None), ("registry->['fresh']", False, "raise", None)]
    for pstr, flag, want, newval in cases:
        root = _fixture(ix)
        before = _snapshot(root)
        try:
            res = _run_aset(ctx, root, pstr, newval, create_new_ok=flag)
            got = "ok"
        except Raised:
            res, got = None, "raise"
        after = _snapshot(root)
        okv = True
        if got == "ok" and want == "ok":
            it = ctx.fresh_interp()
            it.allow_memoised = True
            T = ix.cls(f"{PYT}.TreeClass")
            ops = it.call_closure(it.closure_of(T.lookup_method("_parse_operations")), [pstr], {})
            okv = _snapshot(res) == _expected(_fixture(ix), [tuple(o) for o in ops], newval)
        n += 1
        ctx.ob("R40.4", f"aset[{pstr},create_new_ok={flag}{',value=None' if newval is None else ''}]", got == want and after == before and okv, "a missing last step is created only with create_new_ok, otherwise refused; in every case the receiver (incl. its dictionaries) is unchanged", (got, "input changed" if after != before else "input unchanged"), (want, "input unchanged"))
    # history independence: a call does not depend on earlier calls with the same path string.  The interpreter drops
    # decorators it has no model for, so a memoising decorator on the parser is modelled here explicitly (one shared
    # result object per argument — what functools.cache / lru_cache do); without one each call parses afresh.
    T = ix.cls(f"{PYT}.TreeClass")
    P = T.lookup_method("_parse_operations")
    decs = [d for m in (P, T.lookup_method("aset")) for d in m.decorators]
    unknown = [d for d in decs if d not in ("staticmethod", "classmethod") and "cache" not in d]
    if unknown:
        raise AnalysisError(f"TreeClass.aset / _parse_operations carry decorators without a model: {unknown}")
    memo = any("cache" in d for d in P.decorators)
    it = ctx.fresh_interp()
    it.attr_hooks.append(lambda it_, obj, name: _At(it_, obj) if name == "at" else NotImplemented)
    if memo:
        from ..harness import stub_repo_calls

        table = {}
        pc = it.closure_of(P)
        it.allow_memoised = {pc.qualname}

        def memoised(it_, a, k, _t=table):
            key = a[-1]
            if key not in _t:
                _t[key] = it_.call_closure(pc, [a[-1]], {})
            return _t[key]

        stub_repo_calls(it, {"_parse_operations": memoised})
    aset = it.closure_of(T.lookup_method("aset"))
    seq_bad = []
    for pstr in ("items->[-1]", "items->[-2]->[-1]"):
        for lengths in ((3, 5), (5, 3), (4, 4), (2, 6)):
            for k_, L in enumerate(lengths):
                root = Obj(T, {"items": [[10 * i, 10 * i + 1] for i in range(L)]}, f"cfg{L}")
                want = [[10 * i, 10 * i + 1] for i in range(L)]
                if pstr == "items->[-1]":
                    want[-1] = "LAST"
                else:
                    want[-2][-1] = "LAST"
                try:
                    res = it.call_closure(aset, [root, pstr, "LAST"], {})
                    got = res.attrs["items"] if isinstance(res, Obj) else res
                except Raised as r:
                    got = f"raises {r}"
                n += 1
                if got != want:
                    seq_bad.append((pstr, lengths, k_, got if isinstance(got, str) else "wrong slot"))
    ctx.ob("R40.6", "aset:history-independence", not seq_bad, "the same from-the-end path string applied in sequence (one process) to lists of different lengths addresses the last slot of each list — a call neither reads nor leaves behind state keyed by the path string" + (" [the parser is memoised: modelled as one shared parse result per string]" if memo else ""), seq_bad[:3], "each call as if it were the first")
    # the parser
    it = ctx.fresh_interp()
    it.allow_memoised = True
    good = {"a->b->[0]->['name']": [("a", "attribute"), ("b", "attribute"), (0, "index"), ("name", "key")], "[-1]": [(-1, "index")], "x": [("x", "attribute")], "['k k']->y": [("k k", "key"), ("y", "attribute")]}
    for s, want in good.items():
        got = [tuple(o) for o in it.call_closure(it.closure_of(P), [s], {})]
        ctx.ob("R40.5", f"_parse_operations[{s}]", got == want, "path syntax: attribute names, [int] indices, ['key'] keys separated by ->", got, want)
    for s in ("", "a->", "a-b", "[x]", "a->[0", "['a'b']"):
        try:
            it.call_closure(it.closure_of(P), [s], {})
            rej = False
        except Raised:
            rej = True
        ctx.ob("R40.5", f"_parse_operations[{s!r}]", rej, "malformed paths are rejected", rej, True)
    ctx.require_count("C40 interpreted updates", n, 45)
    ctx.trusted_base += ["native shared-reference lists / dicts in the interpreter heap", "model of pytreeclass .at[method](...) as 'run the method on a shallow copy'"]
