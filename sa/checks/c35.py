"""C35 — dispersion coefficients encode the declared pole model."""

from __future__ import annotations

import itertools
import math

from ..absint import rat_compare
from ..index import AnalysisError
from ..ndarr import NdArr, at_update
from ..poly import I, Rat, normalise_sqrt
from ..values import Obj, Raised, SymBool, sb_eval, sb_leaves, to_rat

LEVEL = "proof"
EXPLANATION = (
    "Proved as identities over the reals / Gaussian rationals for all pole parameters, time steps and "
    "frequencies: (1) compute_pole_coefficients_per_axis and _tensor (per-axis and oriented rows), interpreted on "
    "a pole with symbolic per-axis (omega_0, gamma, a, b), return c1 = (2 - w0^2 dt^2)/D, c2 = -(1 - g dt/2)/D, "
    "c3 = (a dt^2 - b dt)/D, c4 = b dt/D with D = 1 + g dt/2 on every non-raising path, tensor entries on the "
    "diagonal slots 4*axis with zero off-diagonals, oriented poles K dt^2/D u u^T; every path of the guard is "
    "enumerated and a path raises exactly when some coupled axis has w0*dt >= 2.  (2) Feeding those coefficient "
    "expressions into susceptibility_from_coefficients (occupied-slot branch) gives exactly "
    "(a - i w b)/(w0^2 - w^2 - i g w) per axis — the inverse mapping inverts the forward formulas — and the "
    "occupied-slot mask is true whenever c3 or c4 is non-zero (full truth table), all-zero slots give exactly 0.  "
    "(3) Pole accessors: Lorentz K = d_eps*w0^2; Drude w0 = 0, K = wp^2; CCPR w0^2 = |q|^2, g = -2 Re q, "
    "a = -2 Re(r conj q), b = 2 Re r; DispersionModel.susceptibility_axes is the same pole form summed.  "
    "(4) Jury margins as polynomial identities: (1-c2-c1) D = w0^2 dt^2, (1-c2+c1) D = 4 - w0^2 dt^2, "
    "(1+c2) D = g dt, (1-c2) D = 2, hence under the guard w0 dt < 2 and g >= 0 no root of z^2 - c1 z - c2 lies "
    "outside the unit circle.  The O((w dt)^2) convergence rate of the recurrence's own response is not decided."
)

AX = "xyz"


class NpArr(NdArr):
    """numpy array with in-place item assignment (np.zeros(...) ; c[i, ax] = v)"""

    def av_setitem(self, idx, v):
        new = at_update(self, idx, "set", v if isinstance(v, NdArr) else NdArr((), [v]))
        self.data[:] = new.data


def _np_zeros(it, a, k):
    shape = a[0]
    if isinstance(shape, int):
        shape = (shape,)
    shape = tuple(int(x) for x in shape)
    return NpArr(shape, [0] * math.prod(shape))


def _pole(ix, oriented=False):
    P = ix.cls("fdtdx.dispersion.Pole")
    if oriented:
        ax = lambda n: (Rat.atom(f"{n}"),) * 3
        u = tuple(Rat.atom(f"u{c}") for c in AX)
        return Obj(P, dict(omega_0_axes=ax("w"), gamma_axes=ax("g"), coupling_sq_axes=ax("a"), coupling_edot_axes=(0, 0, 0), is_oriented=True, is_isotropic=False, orientation=u), "pole")
    ax = lambda n: tuple(Rat.atom(f"{n}{c}") for c in AX)
    return Obj(P, dict(omega_0_axes=ax("w"), gamma_axes=ax("g"), coupling_sq_axes=ax("a"), coupling_edot_axes=ax("b"), is_oriented=False, is_isotropic=False, orientation=None), "pole")


DT = Rat.atom("dt")


def _forms(c):
    w, g, a, b = (Rat.atom(f"{n}{c}") for n in "wgab")
    D = 1 + g * DT / 2
    return dict(c1=(2 - w * w * DT * DT) / D, c2=-(1 - g * DT / 2) / D, c3=(a * DT * DT - b * DT) / D, c4=b * DT / D, D=D, w=w, g=g, a=a, b=b)


def _explore(ctx, fname, pole):
    ix = ctx.index
    it = ctx.fresh_interp()
    it.ext_handlers["np.zeros"] = _np_zeros
    it.ext_handlers["np.outer"] = lambda it_, a, k: NdArr((3, 3), [to_rat(x) * to_rat(y) for x in a[0].data for y in a[1].data])
    f = ix.function(f"fdtdx.dispersion.{fname}")
    ctx.unit(f.where())
    oks, raises = [], []
    for path, out in it.explore(lambda: it.call(it.closure_of(f), [(pole,), DT], {})):
        (oks if out[0] == "ok" else raises).append((path, out[1]))
    return oks, raises


def _path_truth(path):
    """choice log -> {leaf key: bool}; choice 0 explores the 'true' branch of the SymBool key"""
    return {k: (c == 0) for k, c in path}


def _guard_semantics(ctx, label, oks, raises, rule="R35.4"):
    """a path raises <=> some axis has (a != 0 or b != 0) and w*dt >= 2 (from the path's own decisions)"""
    leaf = {}
    for c in AX:
        a_nz = rat_compare("ne", Rat.atom(f"a{c}"), 0)
        b_nz = rat_compare("ne", Rat.atom(f"b{c}"), 0)
        big = rat_compare("ge", Rat.atom(f"w{c}") * DT, 2)
        leaf[c] = (a_nz, b_nz, big)

    def val(sb, truth):
        if isinstance(sb, bool):
            return sb
        if sb.key not in truth:
            return None
        v = truth[sb.key]
        return (not v) if sb.negated else v

    bad = []
    for path, out in oks:
        t = _path_truth(path)
        for c in AX:
            a_nz, b_nz, big = (val(x, t) for x in leaf[c])
            active = bool(a_nz) or bool(b_nz)
            if active and big is not False:
                bad.append(("accepted although an active axis has w*dt >= 2 (or the bound was not tested)", c))
    for path, out in raises:
        t = _path_truth(path)
        hit = False
        for c in AX:
            a_nz, b_nz, big = (val(x, t) for x in leaf[c])
            if (bool(a_nz) or bool(b_nz)) and big:
                hit = True
        if not hit:
            bad.append(("rejected although no active axis violates the bound", str(out)[:80]))
    ctx.ob(rule, f"{label}:guard", not bad and bool(oks) and bool(raises), f"every path enumerated ({len(oks)} accepting, {len(raises)} raising): a path raises exactly when a coupled axis has omega_0*dt >= 2; uncoupled axes are exempt", bad[:3], "raise <=> exists axis: (a != 0 or b != 0) and w0*dt >= 2")


def _coefficients(ctx):
    ix = ctx.index
    # per-axis function
    oks, raises = _explore(ctx, "compute_pole_coefficients_per_axis", _pole(ix))
    _guard_semantics(ctx, "compute_pole_coefficients_per_axis", oks, raises)
    for k, name in enumerate(("c1", "c2", "c3", "c4")):
        bad = None
        for path, out in oks:
            arr = out[k]
            if not (isinstance(arr, NdArr) and arr.shape == (1, 3)):
                bad = bad or ("shape", getattr(arr, "shape", arr), (1, 3))
                continue
            for j, c in enumerate(AX):
                got, want = to_rat(arr.data[j]), _forms(c)[name]
                if not got.equals(want):
                    bad = bad or (c, got.fmt(), want.fmt())
        ctx.ob("R35.1", f"compute_pole_coefficients_per_axis:{name}", bad is None, f"{name} equals the documented formula on every accepting path and axis" + (f" — axis {bad[0]}" if bad else ""), bad[1] if bad else "3 axes", bad[2] if bad else "formula")
    # tensor function, per-axis pole
    oks, raises = _explore(ctx, "compute_pole_coefficients_tensor", _pole(ix))
    _guard_semantics(ctx, "compute_pole_coefficients_tensor", oks, raises)
    for k, name in enumerate(("c1", "c2", "c3", "c4")):
        bad = None
        for path, out in oks:
            arr = out[k]
            n = 3 if k < 2 else 9
            if not (isinstance(arr, NdArr) and arr.shape == (1, n)):
                bad = bad or ("shape", getattr(arr, "shape", arr), (1, n))
                continue
            for j in range(n):
                if n == 3:
                    want = _forms(AX[j])[name]
                else:
                    want = _forms(AX[j // 3])[name] if j % 4 == 0 else Rat.const(0)
                got = to_rat(arr.data[j])
                if not got.equals(want):
                    bad = bad or (j, got.fmt(), want.fmt())
        ctx.ob("R35.1", f"compute_pole_coefficients_tensor:{name}", bad is None, f"{name}: per-axis values on the diagonal slots (row-major 4*axis), zero off-diagonal" + (f" — entry {bad[0]}" if bad else ""), bad[1] if bad else "all entries", bad[2] if bad else "formula")
    # oriented pole
    it = ctx.fresh_interp()
    it.ext_handlers["np.zeros"] = _np_zeros
    it.ext_handlers["np.outer"] = lambda it_, a, k: NdArr((3, 3), [to_rat(x) * to_rat(y) for x in NdArr.from_nested(a[0]).data for y in NdArr.from_nested(a[1]).data])
    f = ix.function("fdtdx.dispersion.compute_pole_coefficients_tensor")
    pole = _pole(ix, oriented=True)
    got_ok = []
    for path, out in it.explore(lambda: it.call(it.closure_of(f), [(pole,), DT], {})):
        if out[0] == "ok":
            got_ok.append(out[1])
    w, g, a = Rat.atom("w"), Rat.atom("g"), Rat.atom("a")
    D = 1 + g * DT / 2
    bad = None
    for out in got_ok:
        c1, c2, c3, c4 = out
        for j in range(3):
            if not to_rat(c1.data[j]).equals((2 - w * w * DT * DT) / D) or not to_rat(c2.data[j]).equals(-(1 - g * DT / 2) / D):
                bad = bad or ("c1/c2", j)
        for j in range(9):
            want = a * DT * DT / D * Rat.atom(f"u{AX[j // 3]}") * Rat.atom(f"u{AX[j % 3]}")
            if not to_rat(c3.data[j]).equals(want):
                bad = bad or ("c3", j, to_rat(c3.data[j]).fmt(), want.fmt())
            if not to_rat(c4.data[j]).is_zero():
                bad = bad or ("c4", j)
    ctx.ob("R35.1", "compute_pole_coefficients_tensor:oriented", bad is None and bool(got_ok), "oriented pole: c3 = K dt^2/D * u u^T (row-major), c4 = 0, c1/c2 the scalar recurrence on all three rows", bad, "K dt^2/D u_i u_j")


def _inverse(ctx):
    """susceptibility_from_coefficients inverts the forward formulas (occupied slot), per axis."""
    ix = ctx.index
    g = ix.function("fdtdx.dispersion.susceptibility_from_coefficients")
    ctx.unit(g.where())
    it = ctx.fresh_interp()
    om = Rat.atom("om")
    mk = lambda name: NdArr((1, 3), [_forms(c)[name] for c in AX])
    res = it.call(it.closure_of(g), [mk("c1"), mk("c2"), mk("c3"), om, DT], {"c4": mk("c4")})
    if not (isinstance(res, NdArr) and res.shape == (3,)):
        raise AnalysisError(f"susceptibility_from_coefficients returned {res!r}")
    for j, c in enumerate(AX):
        F = _forms(c)
        r = to_rat(res.data[j])
        inds = [a for a in r.atoms() if isinstance(a, tuple) and a and a[0] == "ind"]
        sub = {}
        for a in inds:
            key = a[1]
            is_mask = isinstance(key, tuple) and key and key[0] == "or"
            sub[a] = Rat.const(1 if is_mask else 0)  # occupied slot; 1 - c2 = 2/D is never zero
        occupied = r.subs(sub)
        want = (F["a"] - Rat.atom(I) * om * F["b"]) / (F["w"] * F["w"] - om * om - Rat.atom(I) * F["g"] * om)
        ctx.ob("R35.2", f"susceptibility_from_coefficients:axis{c}", occupied.equals(want), "chi reconstructed from (c1..c4)(w0, g, a, b, dt) == (a - i w b)/(w0^2 - w^2 - i g w) for all parameters and frequencies", occupied.fmt()[:260], want.fmt()[:260])
        ctx.ob("R35.2", f"susceptibility_from_coefficients:axis{c}:guards", len(inds) == 2, "exactly two selects guard the inversion: the occupied-slot mask and the 1 - c2 == 0 sanitiser", len(inds), 2)
    # mask semantics with opaque coefficient atoms
    it = ctx.fresh_interp()
    cs = {n: Rat.atom(n) for n in ("c1", "c2", "c3", "c4")}
    res = it.call(it.closure_of(g), [NdArr((1,), [cs["c1"]]), NdArr((1,), [cs["c2"]]), NdArr((1,), [cs["c3"]]), om, DT], {"c4": NdArr((1,), [cs["c4"]])})
    r = to_rat(res.data[0] if isinstance(res, NdArr) else res)
    masks = [a for a in r.atoms() if isinstance(a, tuple) and a and a[0] == "ind" and not _is_sanitiser(a[1])]
    keys = {repr(a[1]) for a in masks}
    ok = len(keys) == 1
    ctx.ob("R35.5", "susceptibility_from_coefficients:mask:single", ok, "one occupied-slot predicate gates every intermediate", sorted(keys)[:2], "one predicate")
    if ok:
        mask = SymBool(masks[0][1])
        leaves = sorted(sb_leaves(mask), key=repr)
        nz = {n: rat_compare("ne", cs[n], 0) for n in cs}
        bad = []
        for vals in itertools.product([False, True], repeat=len(leaves)):
            asg = dict(zip(leaves, vals))
            m = sb_eval(mask, asg)

            def leafval(sb):
                if sb.key not in asg:
                    return None
                return (not asg[sb.key]) if sb.negated else asg[sb.key]

            live = [leafval(nz[n]) for n in ("c3", "c4")]
            if any(v is None for v in live):
                bad.append("the mask does not test c3 / c4 at all")
                break
            if (live[0] or live[1]) and not m:
                bad.append({n: leafval(nz[n]) for n in cs if nz[n].key in asg})
        ctx.ob("R35.5", "susceptibility_from_coefficients:mask:live-slots", not bad, "a slot with a non-zero field coupling (c3 != 0 or c4 != 0) is always treated as occupied, whatever its damping", bad[:2], "(c3 != 0 or c4 != 0) => mask")
    # an all-zero slot contributes exactly zero
    it = ctx.fresh_interp()
    z = NdArr((2, 3), [0] * 6)
    res = it.call(it.closure_of(g), [z, z, z, om, DT], {"c4": z})
    vals = [to_rat(x) for x in res.data] if isinstance(res, NdArr) else [to_rat(res)]
    ctx.ob("R35.5", "susceptibility_from_coefficients:zero-slots", all(v.is_zero() for v in vals), "zero-padded pole slots contribute exactly zero", [v.fmt() for v in vals], 0)


def _is_sanitiser(key):
    # the `1 - c2 == 0` select: an eq0 leaf, not an or-formula
    return isinstance(key, tuple) and key and key[0] == "eq0"


def _accessors(ctx):
    ix = ctx.index
    it = ctx.fresh_interp()
    L = ix.cls("fdtdx.dispersion.LorentzPole")
    Dr = ix.cls("fdtdx.dispersion.DrudePole")
    C = ix.cls("fdtdx.dispersion.CCPRPole")
    for c in (L, Dr, C):
        ctx.unit(c.where())
    ax3 = lambda n: tuple(Rat.atom(f"{n}{c}") for c in AX)
    for tag, params in (("scalar", False), ("per-axis", True)):
        pv = (lambda n: ax3(n)) if params else (lambda n: Rat.atom(n))
        at = (lambda v, j: v[j]) if params else (lambda v, j: v)
        w0, gm, de, wp = pv("w0"), pv("gm"), pv("de"), pv("wp")
        lo = Obj(L, dict(resonance_frequency=w0, damping=gm, delta_epsilon=de, orientation=None), "lorentz")
        dr = Obj(Dr, dict(plasma_frequency=wp, damping=gm, orientation=None), "drude")
        got = {n: it.getattr(lo, n) for n in ("omega_0_axes", "gamma_axes", "coupling_sq_axes", "coupling_edot_axes")}
        ok = all(to_rat(got["omega_0_axes"][j]).equals(at(w0, j)) and to_rat(got["gamma_axes"][j]).equals(at(gm, j)) and to_rat(got["coupling_sq_axes"][j]).equals(at(de, j) * at(w0, j) ** 2) and to_rat(got["coupling_edot_axes"][j]).is_zero() for j in range(3))
        ctx.ob("R35.3", f"LorentzPole[{tag}]", ok, "(w0, g, a, b) = (resonance, damping, delta_eps*w0^2, 0) per axis", {k: [to_rat(x).fmt() for x in v] for k, v in got.items()}, "Lorentz table")
        got = {n: it.getattr(dr, n) for n in ("omega_0_axes", "gamma_axes", "coupling_sq_axes", "coupling_edot_axes")}
        ok = all(to_rat(got["omega_0_axes"][j]).is_zero() and to_rat(got["gamma_axes"][j]).equals(at(gm, j)) and to_rat(got["coupling_sq_axes"][j]).equals(at(wp, j) ** 2) and to_rat(got["coupling_edot_axes"][j]).is_zero() for j in range(3))
        ctx.ob("R35.3", f"DrudePole[{tag}]", ok, "(w0, g, a, b) = (0, damping, wp^2, 0) per axis", {k: [to_rat(x).fmt() for x in v] for k, v in got.items()}, "Drude table")
        # CCPR with q = qr + i qi, r = rr + i ri
        mkc = (lambda n: tuple(Rat.atom(f"{n}r{c}") + Rat.atom(I) * Rat.atom(f"{n}i{c}") for c in AX)) if params else (lambda n: Rat.atom(f"{n}r") + Rat.atom(I) * Rat.atom(f"{n}i"))
        q, r = mkc("q"), mkc("r")
        it2 = ctx.fresh_interp()
        cc = Obj(C, dict(pole=q, residue=r, orientation=None), "ccpr")
        try:
            got = {n: it2.getattr(cc, n) for n in ("omega_0_axes", "gamma_axes", "coupling_sq_axes", "coupling_edot_axes")}
        except Raised as e:
            raise AnalysisError(f"CCPRPole accessors raise: {e}")
        bad = None
        for j in range(3):
            sfx = AX[j] if params else ""
            qr, qi, rr, ri = (Rat.atom(f"{n}{sfx}") for n in ("qr", "qi", "rr", "ri"))
            w2 = normalise_sqrt(to_rat(got["omega_0_axes"][j]) ** 2)
            checks = [
                ("w0^2", w2, qr * qr + qi * qi),
                ("gamma", to_rat(got["gamma_axes"][j]), -2 * qr),
                ("a", to_rat(got["coupling_sq_axes"][j]), -2 * (rr * qr + ri * qi)),
                ("b", to_rat(got["coupling_edot_axes"][j]), 2 * rr),
            ]
            for nm, g_, w_ in checks:
                if not g_.equals(w_):
                    bad = bad or (nm, j, g_.fmt(), w_.fmt())
        ctx.ob("R35.3", f"CCPRPole[{tag}]", bad is None, "w0^2 = |q|^2, gamma = -2 Re q, a = -2 Re(r conj q), b = 2 Re r per axis", bad, "CCPR table")
    # DispersionModel.susceptibility_axes: sum over poles of the unified pole form
    M = ix.cls("fdtdx.dispersion.DispersionModel")
    ctx.unit(M.lookup_method("susceptibility_axes").where())
    P = ix.cls("fdtdx.dispersion.Pole")
    poles = []
    for t in ("p", "s"):
        ax = lambda n, _t=t: tuple(Rat.atom(f"{n}{_t}{c}") for c in AX)
        poles.append(Obj(P, dict(omega_0_axes=ax("w"), gamma_axes=ax("g"), coupling_sq_axes=ax("a"), coupling_edot_axes=ax("b"), is_oriented=False), f"pole{t}"))
    it3 = ctx.fresh_interp()
    model = Obj(M, dict(poles=tuple(poles), has_off_diagonal_coupling=False), "model")
    om = Rat.atom("om")
    res = it3.call_method(model, "susceptibility_axes", om)
    bad = None
    for j, c in enumerate(AX):
        want = Rat.const(0)
        for t in ("p", "s"):
            w, g_, a, b = (Rat.atom(f"{n}{t}{c}") for n in "wgab")
            want = want + (a - Rat.atom(I) * om * b) / (w * w - om * om - Rat.atom(I) * g_ * om)
        if not to_rat(res[j]).equals(want):
            bad = bad or (c, to_rat(res[j]).fmt()[:200], want.fmt()[:200])
    ctx.ob("R35.3", "DispersionModel.susceptibility_axes", bad is None, "declared model: chi_axis = sum_p (a - i w b)/(w0^2 - w^2 - i g w) with each pole's own axis parameters", bad, "sum of pole forms")


def _jury(ctx, rule="R35.4"):
    for c in AX[:1]:
        F = _forms(c)
        c1, c2, D, w, g = F["c1"], F["c2"], F["D"], F["w"], F["g"]
        ids = [
            ("(1 - c2 - c1) D == w0^2 dt^2", (1 - c2 - c1) * D, w * w * DT * DT),
            ("(1 - c2 + c1) D == 4 - w0^2 dt^2", (1 - c2 + c1) * D, 4 - w * w * DT * DT),
            ("(1 + c2) D == g dt", (1 + c2) * D, g * DT),
            ("(1 - c2) D == 2", (1 - c2) * D, Rat.const(2)),
        ]
        for txt, lhs, rhs in ids:
            ctx.ob(rule, f"jury:{txt}", lhs.equals(rhs), "Jury margin identity for z^2 - c1 z - c2 (with D = 1 + g dt/2 > 0): with 0 <= w0 dt < 2 and g >= 0 all four margins are >= 0, so no root lies outside the unit circle", lhs.fmt(), rhs.fmt())
    ctx.assume("D = 1 + gamma*dt/2 > 0 (gamma >= 0, dt > 0); omega_0*dt < 2 is enforced by the guard on every coupled axis (R35.4 guard rule)")


def _material_rows(ctx):
    """compute_allowed_dispersive_coefficients: row k of every table holds the coefficients of the k-th material of the
    common (sorted) order — whatever the dictionary's insertion order — zero-padded beyond the material's own poles,
    all-zero for a material without dispersion."""
    from ..harness import stub_repo_calls

    ix = ctx.index
    f = ix.function("fdtdx.materials.compute_allowed_dispersive_coefficients")
    ctx.unit(f.where())
    M = ix.cls("fdtdx.materials.Material")
    mats = {
        "gold": Obj(M, dict(dispersion=Obj(None, dict(poles=("gold", "gold")), "d_gold"), has_isotropic_dispersion=True, has_axis_aligned_dispersion=True), "gold"),
        "air": Obj(M, dict(dispersion=None, has_isotropic_dispersion=True, has_axis_aligned_dispersion=True), "air"),
        "glass": Obj(M, dict(dispersion=Obj(None, dict(poles=("glass",)), "d_glass"), has_isotropic_dispersion=True, has_axis_aligned_dispersion=True), "glass"),
    }
    order = ["air", "glass", "gold"]  # the common order (ascending permittivity); the dictionary is built gold, air, glass
    bad = []
    for ncomp, ccomp in ((1, 1), (3, 3), (3, 9)):
        it = ctx.fresh_interp()
        it.ext_handlers["np.zeros"] = _np_zeros

        def coeffs(it_, a, k):
            tag, n = a[0][0], len(a[0])
            mk = lambda nm, w: NdArr((n, w), [Rat.atom((nm, tag, p_, c_)) for p_ in range(n) for c_ in range(w)])
            return mk("c1", 3), mk("c2", 3), mk("c3", 9), mk("c4", 9)

        stub_repo_calls(it, {"compute_pole_coefficients_tensor": coeffs, "compute_ordered_material_name_tuples": lambda it_, a, k: [(nm, mats[nm]) for nm in order]})
        try:
            out = it.call(it.closure_of(f), [dict(mats), DT, 2, ncomp, ccomp], {})
        except Raised as r:
            raise AnalysisError(f"compute_allowed_dispersive_coefficients raises: {r}")
        widths = {"c1": ncomp, "c2": ncomp, "c3": ccomp, "c4": ccomp}
        diag = (0, 4, 8)
        for nm, T in zip(("c1", "c2", "c3", "c4"), out):
            w = widths[nm]
            if not (isinstance(T, NdArr) and T.shape == (3, 2, w)):
                bad.append((nm, "shape", getattr(T, "shape", T)))
                continue
            for row, mname in enumerate(order):
                npoles = {"air": 0, "glass": 1, "gold": 2}[mname]
                for p_ in range(2):
                    for c_ in range(w):
                        src_col = c_ if (w == 9 or nm in ("c1", "c2")) else diag[c_]
                        want = Rat.atom((nm, mname, p_, src_col)) if p_ < npoles else Rat.const(0)
                        got = to_rat(T.data[(row * 2 + p_) * w + c_])
                        if not got.equals(want):
                            bad.append(((ncomp, ccomp), nm, f"row {row} ({mname}) pole {p_} column {c_}", got.fmt()[:80], want.fmt()[:80]))
    ctx.ob("R35.5", "compute_allowed_dispersive_coefficients:rows", not bad, "row k of c1..c4 is the k-th material of the common order (not of the dictionary's insertion order): its own pole coefficients (first num_components columns; all nine, or the diagonal, of the couplings), zero in the padded pole slots and for a material without dispersion", bad[:3], "rows in common order, zero padding")


def run(ctx):
    _coefficients(ctx)
    _material_rows(ctx)
    _inverse(ctx)
    _accessors(ctx)
    _jury(ctx)
    ctx.require_count("C35", len(ctx.obligations), 30)
    ctx.trusted_base += ["numpy in-place item assignment model (NpArr)", "path enumeration of the guard by re-execution under every resolution of its symbolic comparisons", "sa/extlib.py real/imag/conj on Gaussian-rational normal forms"]
