"""C24 — median filter and pillar discretization match their definitions."""

from __future__ import annotations

import itertools
import math
from fractions import Fraction as Fr

from ..index import AnalysisError
from ..ndarr import NdArr
from ..poly import Rat, apply_fn
from ..values import Builtin, Obj, Raised, to_rat

LEVEL = "other"
EXPLANATION = (
    "Median filter: binary_median_filter is interpreted on concrete small volumes whose voxels are free symbols, for "
    "kernel sizes (3,3,1), (1,3,3), (3,1,3), (3,3,3), (5,1,1) and padding configurations mixing constant / edge / "
    "reflect / symmetric faces with per-face widths and per-face fill values (including the shipped bottom-substrate "
    "pattern): every output voxel is round(S / K) with S the sum of the padded volume over the kx x ky x kz box "
    "centred on the voxel and K = kx ky kz, where the padded volume is given by an independent pointwise oracle — a "
    "coordinate outside the array is resolved face by face, last padded face first, to the fill value of *that face* "
    "or to the clamped / mirrored coordinate.  For voxels in {0,1} and odd K the mean is never 1/2, so round(S/K) is "
    "the majority value; that arithmetic fact and float round-off are the only things not read off the code.  "
    "Pillar discretization: compute_allowed_indices is interpreted for every column height 1..3 (and 4 for the "
    "single-material option), 2..4 materials and every background index, and its result equals, as a set, the "
    "columns in which background occurs only as a suffix (top end) and — when single_polymer_columns is requested — "
    "at most one distinct non-background material occurs; the validity filter depends on a column only through "
    "(number of distinct non-background values, background present), and these scopes realise every such class.  "
    "nearest_index returns, for each candidate column and each pillar, the documented distance (Euclidean norm, or "
    "mean |diff - diff| + |mean - mean|) and takes the argmin over the candidate axis; PillarDiscretization writes "
    "the chosen candidate's layer l at height l of the pillar for each pillar axis.  Ties and float round-off in the "
    "argmin are not decided."
)

BMF = "fdtdx.objects.device.parameters.binary_transform.binary_median_filter"


def arr(name, shape):
    return NdArr(shape, [Rat.atom((name,) + ix) for ix in itertools.product(*[range(n) for n in shape])])


def _convolve_nd(it, a, k):
    x, ker = a[0], a[1]
    mode = k.get("mode", a[2] if len(a) > 2 else "full")
    if mode != "same" or not isinstance(x, NdArr) or not isinstance(ker, NdArr) or x.sp or ker.sp or len(x.shape) != len(ker.shape):
        raise AnalysisError(f"convolve model: mode={mode!r}")
    nd = len(x.shape)
    off = [(ks - 1) // 2 for ks in ker.shape]
    out = []
    for ix in itertools.product(*[range(n) for n in x.shape]):
        tot = Rat.const(0)
        for kx in itertools.product(*[range(n) for n in ker.shape]):
            src = tuple(ix[d] + off[d] - kx[d] for d in range(nd))  # true convolution, zero outside
            if all(0 <= src[d] < x.shape[d] for d in range(nd)):
                w = to_rat(ker.data[_flat(ker.shape, kx)])
                if not w.is_zero():
                    tot = tot + to_rat(x.data[_flat(x.shape, src)]) * w
        out.append(tot)
    return NdArr(x.shape, out)


def _flat(shape, ix):
    f = 0
    for n, i in zip(shape, ix):
        f = f * n + i
    return f


def _ones(it, a, k):
    shape = k.get("shape", a[0] if a else None)
    shape = (shape,) if isinstance(shape, int) else tuple(int(s) for s in shape)
    return NdArr(shape, [Rat.const(1)] * math.prod(shape))


def _interp(ctx):
    it = ctx.fresh_interp()
    it.ext_overrides["jax.scipy.signal.convolve"] = _convolve_nd
    it.ext_overrides["np.ones"] = _ones
    it.ext_overrides["np.round"] = lambda it_, a, k: a[0].map(lambda v: apply_fn("round", to_rat(v))) if isinstance(a[0], NdArr) else apply_fn("round", to_rat(a[0]))
    it.ext_overrides["np.prod"] = lambda it_, a, k: math.prod(int(to_rat(v).const_value()) for v in (a[0].data if isinstance(a[0], NdArr) else a[0]))
    return it


# ------------------------------------------------------------------ padding oracle (pointwise)
def _full(seq, n):
    seq = list(seq)
    return seq * n if len(seq) == 1 else seq


def padded_value(x: NdArr, widths, modes, values, pidx):
    """Value of the padded volume at padded index pidx: faces 0..5 are padded in order (x-low, x-high, y-low, ...);
    a coordinate is resolved from the last padded face back to the first."""
    nd = len(x.shape)
    # extent of the array just before face e is applied
    lo = [0] * nd  # how much has been added on the low side so far
    shapes = []
    cur = list(x.shape)
    for e in range(2 * nd):
        shapes.append((list(cur), list(lo)))
        ax = e // 2
        cur[ax] += widths[e]
        if e % 2 == 0:
            lo[ax] += widths[e]
    # coordinates relative to the original array origin
    rel = [pidx[d] - lo[d] for d in range(nd)]
    for e in reversed(range(2 * nd)):
        ax = e // 2
        shp, lo_e = shapes[e]  # array before face e: spans [-lo_e[d], shp[d] - lo_e[d]) in original coordinates
        a_lo, a_hi = -lo_e[ax], shp[ax] - lo_e[ax]
        inside_new = (rel[ax] < a_lo) if e % 2 == 0 else (rel[ax] >= a_hi)
        if not inside_new:
            continue
        m = modes[e]
        if m == "constant":
            return Rat.const(Fr(values[e]))
        n = a_hi - a_lo
        j = rel[ax] - a_lo
        if m == "edge":
            j = min(max(j, 0), n - 1)
        elif m in ("reflect", "symmetric"):
            if n == 1:
                j = 0
            else:
                period = 2 * (n - 1) if m == "reflect" else 2 * n
                j %= period
                if j >= n:
                    j = period - j if m == "reflect" else period - 1 - j
        elif m == "wrap":
            j %= n
        else:
            raise AnalysisError(f"padding oracle: mode {m!r}")
        rel[ax] = j + a_lo
    if not all(0 <= rel[d] < x.shape[d] for d in range(nd)):
        raise AnalysisError("padding oracle: unresolved coordinate")
    return to_rat(x.data[_flat(x.shape, tuple(rel))])


THOROUGH_CASES = [
    ((3, 3, 3), (3, 3, 3), dict(widths=(1, 1, 2, 1, 1, 2), modes=("reflect", "symmetric", "edge", "constant", "wrap", "constant"), values=(0, 0, 0, 1, 0, Fr(1, 2))), "all modes, 3x3x3 box"),
    ((4, 2, 3), (5, 3, 1), dict(widths=(2, 2, 1, 1, 0, 0), modes=("constant", "reflect", "edge", "edge", "constant", "constant"), values=(1, 0, 0, 0, 0, 0)), "k = (5,3,1)"),
    ((2, 4, 2), (1, 5, 3), dict(widths=(0, 0, 2, 2, 1, 1), modes=("constant", "constant", "symmetric", "constant", "edge", "reflect"), values=(0, 0, 0, Fr(2, 3), 0, 0)), "k = (1,5,3)"),
    ((3, 2, 2), (3, 3, 1), dict(widths=(1,), modes=("constant",) * 6, values=(1,)), "short padding on z is not needed (kz = 1)"),
    ((2, 2, 4), (3, 1, 3), dict(widths=(3,), modes=("edge",), values=None), "padding wider than the kernel"),
]


def _median(ctx, cases=None):
    ix = ctx.index
    f = ix.function(BMF)
    ctx.unit(f.where())
    ctx.unit(ix.function("fdtdx.core.misc.advanced_padding").where())
    PC = ix.cls("fdtdx.core.misc.PaddingConfig")
    thorough = cases is not None
    cases = cases or [
        ((3, 2, 2), (3, 3, 1), dict(widths=(1,), modes=("constant",) * 6, values=(1, 0, 1, 1, 1, 0)), "substrate pattern"),
        ((2, 3, 2), (1, 3, 3), dict(widths=(1, 2, 1, 1, 2, 1), modes=("edge", "constant", "reflect", "edge", "constant", "symmetric"), values=(Fr(1, 2), 1, 0, 0, Fr(1, 3), 0)), "mixed modes, per-face widths"),
        ((2, 2, 3), (3, 1, 3), dict(widths=(2,), modes=("edge", "edge", "edge", "edge", "constant", "edge"), values=(1,)), "repeat pattern"),
        ((2, 2, 2), (3, 3, 3), dict(widths=(1,), modes=("constant",), values=None), "zero padding"),
        ((4, 1, 1), (5, 1, 1), dict(widths=(2, 2, 0, 0, 0, 0), modes=("constant", "edge", "constant", "constant", "constant", "constant"), values=(1, 0, 0, 0, 0, 0)), "1-d, k = 5"),
        ((2, 2, 2), (3, 3, 1), dict(widths=(1,), modes=("constant",) * 6, values=(0, 1, Fr(1, 4), Fr(3, 4), 1, 0)), "all faces different"),
        ((3, 2, 1), (3, 3, 3), dict(widths=(1,), modes=("edge", "edge", "edge", "edge", "constant", "edge"), values=(1,)), "one-voxel-thick design under a 3-d kernel: the padding voxels above and below count"),
        ((1, 3, 2), (3, 1, 3), dict(widths=(1,), modes=("constant",) * 6, values=(1, 0, 0, 0, Fr(1, 2), 0)), "flat along x, kernel 3 along x"),
    ]
    n = 0
    for shape, ks, cfgkw, label in cases:
        it = _interp(ctx)
        x = arr("v", shape)
        cfg = Obj(PC, dict(cfgkw), "padding_cfg")
        try:
            res = it.call(it.closure_of(f), [], dict(arr_3d=x, kernel_sizes=ks, padding_cfg=cfg))
        except Raised as r:
            raise AnalysisError(f"binary_median_filter raises: {r}")
        name = f"binary_median_filter[{label}: volume {shape}, kernel {ks}]"
        if not (isinstance(res, NdArr) and res.shape == shape):
            ctx.ob("R24.1", name, False, "same shape as the input", getattr(res, "shape", res), shape)
            continue
        widths, modes = _full(cfgkw["widths"], 6), _full(cfgkw["modes"], 6)
        values = [0] * 6 if cfgkw["values"] is None else _full(cfgkw["values"], 6)
        lo = [widths[2 * d] for d in range(3)]
        K = ks[0] * ks[1] * ks[2]
        bad = None
        for vix in itertools.product(*[range(s) for s in shape]):
            S = Rat.const(0)
            for dx in itertools.product(*[range(-(k // 2), k // 2 + 1) for k in ks]):
                p = tuple(vix[d] + lo[d] + dx[d] for d in range(3))
                S = S + padded_value(x, widths, modes, values, p)
            want = apply_fn("round", S / K)
            got = to_rat(res.data[_flat(shape, vix)])
            if not got.equals(want):
                bad = bad or (vix, got.fmt()[:260], want.fmt()[:260])
        n += 1
        ctx.ob("R24.1", name, bad is None, "every voxel is round(box sum / box size) over the odd box centred on it in the volume padded face by face with that face's own mode, width and fill value (majority for binary data)" + (f" — differs at {bad[0]}" if bad else ""), bad[1] if bad else f"{math.prod(shape)} voxels", bad[2] if bad else "round(S/K)")
    ctx.require_count("R24.1 median cases", n, 5)
    if thorough:
        return
    # the module applies the filter num_repeats times and keeps the input's gradient path
    M = ix.cls("fdtdx.objects.device.parameters.discrete.BinaryMedianFilterModule")
    ctx.unit(M.lookup_method("__call__").where())
    from ..harness import stub_repo_calls

    it = _interp(ctx)
    calls = []

    def bmf(it_, a, k):
        calls.append(k)
        return k["arr_3d"].map(lambda v: Rat.atom(("F", to_rat(v).fmt())))

    stub_repo_calls(it, {BMF: bmf, "fdtdx.core.jax.ste.straight_through_estimator": lambda it_, a, k: ("ste", a[0], a[1])})
    x = arr("v", (2, 1, 1))
    cfg = Obj(PC, dict(widths=(1,), modes=("edge",), values=None), "cfg")
    m = Obj(M, dict(padding_cfg=cfg, kernel_sizes=(3, 1, 1), num_repeats=3), "module")
    out = it.call_method(m, "__call__", {"p": x})
    ok = len(calls) == 3 and all(c["kernel_sizes"] == (3, 1, 1) and c["padding_cfg"] is cfg for c in calls) and calls[0]["arr_3d"] is x
    chained = ok and all(calls[i + 1]["arr_3d"].data[0].equals(Rat.atom(("F", to_rat(calls[i]["arr_3d"].data[0]).fmt()))) for i in range(2))
    res = out.get("p") if isinstance(out, dict) else None
    ste = isinstance(res, tuple) and res[0] == "ste" and res[1] is x and isinstance(res[2], NdArr)
    ctx.ob("R24.1", "BinaryMedianFilterModule.__call__", ok and chained and ste, "the filter is applied num_repeats times, each time to the previous result with the module's kernel and padding, and the result is returned through the straight-through estimator of the input", dict(calls=len(calls), chained=chained, ste=ste), "3 chained calls")


# ------------------------------------------------------------------ allowed columns
def _allowed(ctx, heights=None):
    ix = ctx.index
    f = ix.function("fdtdx.objects.device.parameters.utils.compute_allowed_indices")
    ctx.unit(f.where())
    for q in ("compute_allowed_indices_without_holes", "compute_allowed_indices_without_holes_single_polymer_columns"):
        ctx.unit(ix.function(f"fdtdx.objects.device.parameters.utils.{q}").where())
    n = 0
    bad = []
    for single in (False, True):
        for L in heights or ((1, 2, 3, 4) if single else (1, 2, 3)):
            for m in (2, 3, 4) if heights is None else (2, 3, 4, 5):
                if heights is None and L == 4 and m == 4 and not single:
                    continue
                if heights is not None and not single and m ** L > 700:
                    continue
                for bg in range(m):
                    it = ctx.fresh_interp()
                    it.ext_overrides["tqdm.tqdm"] = lambda it_, a, k: Obj(None, {"update": Builtin("update", lambda *_: None), "close": Builtin("close", lambda *_: None)}, "pbar")
                    it.ext_overrides["np.array"] = lambda it_, a, k: ("rows", [tuple(r) for r in a[0]])
                    it.ext_overrides["np.asarray"] = it.ext_overrides["np.array"]
                    it.ext_overrides["np.unique"] = lambda it_, a, k: ("rows", sorted(set(a[0][1])))
                    try:
                        res = it.call(it.closure_of(f), [], dict(num_layers=L, indices=list(range(m)), fill_holes_with_index=[bg], single_polymer_columns=single))
                    except Raised as r:
                        raise AnalysisError(f"compute_allowed_indices raises: {r}")
                    if not (isinstance(res, tuple) and res[0] == "rows"):
                        raise AnalysisError(f"compute_allowed_indices returned {res!r}")
                    got = [tuple(int(to_rat(v).const_value()) if not isinstance(v, int) else v for v in row) for row in res[1]]
                    want = set()
                    for col in itertools.product(range(m), repeat=L):
                        # background only as a suffix (top end of the column)
                        first_bg = next((i for i, v in enumerate(col) if v == bg), L)
                        if any(v != bg for v in col[first_bg:]):
                            continue
                        if single and len({v for v in col if v != bg}) > 1:
                            continue
                        want.add(col)
                    n += 1
                    if set(got) != want or len(got) != len(set(got)):
                        extra, missing = sorted(set(got) - want)[:3], sorted(want - set(got))[:3]
                        bad.append((f"L={L},m={m},bg={bg},single={single}", extra, missing, len(got) - len(set(got))))
    ctx.ob("R24.2", "compute_allowed_indices" + ("" if heights is None else f"[heights {tuple(heights)}]"), not bad, "the candidate columns are exactly, without repetition, the columns with background only at the top end" + " and, when requested, at most one distinct non-background material" + f" ({n} scopes: heights 1..4, 2..4 materials, every background index, both options)", bad[:3], "predicate-defined set")
    ctx.require_count("R24.2 scopes", n, 20)


# ------------------------------------------------------------------ distances
def _distances(ctx):
    ix = ctx.index
    f = ix.function("fdtdx.objects.device.parameters.utils.nearest_index")
    ctx.unit(f.where())
    n = 0
    DIFF = "permittivity_differences_plus_average_permittivity"
    scopes = [(axis, metric, tuple(3 if a == axis else 2 for a in range(3))) for axis, metric in itertools.product(range(3), ("euclidean", DIFF))]
    # degenerate extents: a block one voxel thick along z (pillars along x / y keep the configured metric) and pillars
    # of height one (the difference metric has no differences: Euclidean fallback, i.e. |value - candidate|)
    scopes += [(0, DIFF, (3, 2, 1)), (1, DIFF, (2, 3, 1)), (0, DIFF, (1, 2, 3)), (1, DIFF, (3, 1, 2)), (2, DIFF, (2, 3, 1))]
    for axis, metric, shape in scopes:
        L = shape[axis]
        it = ctx.fresh_interp()

        def vmap(it_, a, k):
            fn, in_axes = a[0], k.get("in_axes", a[1] if len(a) > 1 else 0)

            def call(it2, aa, kk):
                if tuple(in_axes) != (None, 0):
                    raise AnalysisError("vmap model: in_axes (None, 0) expected")
                vals, idx = aa
                rows = []
                for r in range(idx.shape[0]):
                    row = NdArr(idx.shape[1:], idx.data[r * idx.shape[1] : (r + 1) * idx.shape[1]])
                    rows.append(it2.call(fn, [vals, row], {}))
                from ..ndarr import stack

                return stack(rows, 0)

            return Builtin("vmapped", call)

        it.ext_overrides["jax.vmap"] = vmap
        values = arr("v", shape)
        allowed_values = NdArr((3,), [Rat.atom(("a", i)) for i in range(3)])
        cand = [(0, 1, 2), (1, 1, 0), (2, 0, 0), (1, 2, 2)] if L == 3 else [(0,), (2,), (1,)]
        allowed_indices = NdArr((len(cand), L), [c for row in cand for c in row])
        try:
            res = it.call(it.closure_of(f), [], dict(values=values, allowed_values=allowed_values, axis=axis, allowed_indices=allowed_indices, return_distances=True, distance_metric=metric))
        except Raised as r:
            raise AnalysisError(f"nearest_index raises: {r}")
        idx, dist = res
        tr = [a for a in range(3) if a != axis]
        want_shape = (len(cand),) + tuple(shape[a] for a in tr)
        name = f"nearest_index[axis={axis},{metric.split('_')[0]}" + ("" if shape == tuple(3 if a == axis else 2 for a in range(3)) else f",block {shape}") + "]"
        if not (isinstance(dist, NdArr) and dist.shape == want_shape):
            ctx.ob("R24.3", name, False, "one distance per candidate and pillar", getattr(dist, "shape", dist), want_shape)
            continue
        from ..poly import normalise_sqrt

        bad = None
        for c, row in enumerate(cand):
            for p in itertools.product(*[range(shape[a]) for a in tr]):
                col = []
                for l in range(L):
                    full = [0, 0, 0]
                    full[axis] = l
                    full[tr[0]], full[tr[1]] = p
                    col.append(Rat.atom(("v",) + tuple(full)))
                av = [Rat.atom(("a", row[l])) for l in range(L)]
                if metric == "euclidean" or L == 1:
                    want = apply_fn("sqrt", sum(((col[l] - av[l]) * (col[l] - av[l]) for l in range(L)), Rat.const(0)))
                else:
                    d1 = sum((apply_fn("abs", (col[l + 1] - col[l]) - (av[l + 1] - av[l])) for l in range(L - 1)), Rat.const(0)) / (L - 1)
                    want = d1 + apply_fn("abs", sum(col, Rat.const(0)) / L - sum(av, Rat.const(0)) / L)
                got = to_rat(dist.data[_flat(want_shape, (c,) + p)])
                if not normalise_sqrt(got - want).is_zero() and not got.equals(want):
                    bad = bad or ((c, p), got.fmt()[:240], want.fmt()[:240])
        n += 1
        ctx.ob("R24.3", name, bad is None, "the distance of candidate c to pillar p is " + ("the Euclidean norm of (pillar - candidate values)" if metric == "euclidean" or L == 1 else "mean |diff(pillar) - diff(candidate)| + |mean(pillar) - mean(candidate)|") + " along the pillar axis, candidate layer l matched with pillar height l" + (f" — differs at {bad[0]}" if bad else ""), bad[1] if bad else f"{len(dist.data)} distances", bad[2] if bad else "documented metric")
        # the index is the argmin over the candidate axis
        ok = isinstance(idx, NdArr) and idx.shape == want_shape[1:]
        if ok:
            for p in itertools.product(*[range(s) for s in want_shape[1:]]):
                v = to_rat(idx.data[_flat(want_shape[1:], p)])
                cands = tuple(to_rat(dist.data[_flat(want_shape, (c,) + p)]) for c in range(len(cand)))
                ok = ok and v.equals(Rat.atom(("call", "argmin") + cands))
        ctx.ob("R24.3", name + ":argmin", ok, "the returned index is the argmin of exactly these distances over the candidate axis, candidates in table order, per pillar", getattr(idx, "shape", idx), want_shape[1:])
    ctx.require_count("R24.3 distance cases", n, 11)


def _writeback(ctx):
    """PillarDiscretization.__call__: candidate layer l lands at height l of the pillar, for each pillar axis."""
    from ..harness import stub_repo_calls

    ix = ctx.index
    P = ix.cls("fdtdx.objects.device.parameters.discretization.PillarDiscretization")
    ctx.unit(P.lookup_method("__call__").where())
    cand = [(0, 1, 2), (1, 1, 0), (2, 0, 0), (1, 2, 2)]
    for axis in range(3):
        it = ctx.fresh_interp()
        shape = tuple(3 if a == axis else 2 for a in range(3))
        tr = [a for a in range(3) if a != axis]
        nidx = NdArr(tuple(shape[a] for a in tr), [Rat.atom(("n",) + p) for p in itertools.product(*[range(shape[a]) for a in tr])])
        seen = {}

        def ni(it_, a, k, _seen=seen, _n=nidx):
            _seen.update(k)
            return _n

        stub_repo_calls(it, {
            "fdtdx.objects.device.parameters.utils.nearest_index": ni,
            "fdtdx.materials.compute_allowed_permittivities": lambda it_, a, k: NdArr((3, 1), [Rat.atom(("eps", i)) for i in range(3)]),
            "fdtdx.core.jax.ste.straight_through_estimator": lambda it_, a, k: ("ste", a[0], a[1]),
        })
        allowed = NdArr((len(cand), 3), [c for r in cand for c in r])
        mats = {f"m{i}": Obj(None, {"is_isotropic_permittivity": True, "is_diagonally_anisotropic_permittivity": True}, f"m{i}") for i in range(3)}
        o = Obj(P, dict(axis=axis, single_polymer_columns=False, distance_metric="euclidean", _allowed_indices=allowed, _materials=mats), "pillar")
        x = arr("v", shape)
        try:
            out = it.call_method(o, "__call__", {"p": x})
        except Raised as r:
            raise AnalysisError(f"PillarDiscretization.__call__ raises: {r}")
        res = out.get("p") if isinstance(out, dict) else None
        name = f"PillarDiscretization.__call__[axis={axis}]"
        ok_call = seen.get("values") is x and seen.get("axis") == axis and seen.get("allowed_indices") is allowed and seen.get("distance_metric") == "euclidean"
        av = seen.get("allowed_values")
        ok_vals = isinstance(av, NdArr) and av.shape == (3,) and all(to_rat(v).equals(1 / Rat.atom(("eps", i))) for i, v in enumerate(av.data))
        ctx.ob("R24.4", name + ":query", ok_call and ok_vals, "the nearest candidate is asked for with the input volume, the pillar axis, the configured metric, the enumerated candidate table and the inverse permittivities of the ordered materials", dict(call=ok_call, inverse_permittivities=ok_vals), True)
        ok = isinstance(res, tuple) and res[0] == "ste" and res[1] is x and isinstance(res[2], NdArr) and res[2].shape == shape
        bad = None
        if ok:
            for full in itertools.product(*[range(s) for s in shape]):
                l = full[axis]
                pth = tuple(full[a] for a in tr)
                want = Rat.atom(("lookup", tuple(c[l] for c in cand), Rat.atom(("n",) + pth)))
                got = to_rat(res[2].data[_flat(shape, full)])
                if not got.equals(want) and got.fmt() != want.fmt():  # the atom embeds values; its print form is canonical
                    bad = bad or (full, got.fmt()[:160], want.fmt()[:160])
        ctx.ob("R24.4", name + ":result", ok and bad is None, "the voxel at height l of pillar p holds layer l of the candidate chosen for p, returned through the straight-through estimator of the input" + (f" — differs at {bad[0]}" if bad else ""), bad[1] if bad else "all voxels", bad[2] if bad else "candidate[n(p)][l]")


def _background_index(ctx):
    """PillarDiscretization.init_module: the background index handed to the column enumeration names the background
    material in the same (sorted) material order that __call__ uses for the candidates' values — whatever the
    dictionary's insertion order, with the default and with an explicit background."""
    from ..harness import stub_repo_calls

    ix = ctx.index
    P = ix.cls("fdtdx.objects.device.parameters.discretization.PillarDiscretization")
    ctx.unit(P.lookup_method("init_module").where())
    M = ix.cls("fdtdx.materials.Material")

    def mat(eps, nm):
        t = tuple(float(eps) if i in (0, 4, 8) else 0.0 for i in range(9))
        one = tuple(1.0 if i in (0, 4, 8) else 0.0 for i in range(9))
        zero = (0.0,) * 9
        return Obj(M, dict(permittivity=t, permeability=one, electric_conductivity=zero, magnetic_conductivity=zero), nm)

    eps = {"air": 1.0, "glass": 2.25, "si": 12.25}
    order = sorted(eps, key=eps.get)
    n = 0
    bad = []
    for names in itertools.permutations(eps):
        for explicit in (None,) + tuple(names):
            for axis, single in itertools.product(range(3), (False, True)):
                it = ctx.fresh_interp()
                seen = {}
                table = NdArr((1, 3), [0, 0, 0])

                def cai(it_, a, k, _seen=seen, table=table):
                    _seen.update(k)
                    _seen["args"] = a
                    return table

                stub_repo_calls(it, {"fdtdx.objects.device.parameters.utils.compute_allowed_indices": cai})
                mats = {nm: mat(eps[nm], nm) for nm in names}
                o = Obj(P, dict(axis=axis, single_polymer_columns=single, distance_metric="euclidean", background_material=explicit), "pillar")
                shape = (2, 3, 4)
                try:
                    out = it.call_method(o, "init_module", config=Obj(None, {}, "cfg"), materials=mats, matrix_voxel_grid_shape=shape, single_voxel_size=(1.0, 1.0, 1.0), output_shape={"p": shape})
                except Raised as r:
                    raise AnalysisError(f"PillarDiscretization.init_module raises: {r}")
                n += 1
                want = order.index(explicit if explicit is not None else "air")
                got = seen.get("fill_holes_with_index")
                got = list(got) if isinstance(got, (list, tuple)) else got
                stored = out.attrs.get("_allowed_indices") if isinstance(out, Obj) else None
                if got != [want] or seen.get("num_layers") != shape[axis] or list(seen.get("indices") or []) != [0, 1, 2] or seen.get("single_polymer_columns") is not single or stored is not table:
                    bad.append((names, explicit, axis, single, dict(fill=got, single=seen.get("single_polymer_columns"), num_layers=seen.get("num_layers"), indices=seen.get("indices"), stored=stored), [want]))
    ctx.ob("R24.5", "PillarDiscretization.init_module:background", not bad, "the column table is enumerated over all material indices for the pillar axis' height with the background's index in the permittivity-sorted material order (the order of the candidates' values in __call__), for the default (lowest permittivity) and for an explicit background, whatever the dictionary's insertion order, and is stored as the candidate table" + f" ({n} scopes: 6 orders x 4 backgrounds x 3 axes x the single-polymer option, which is passed on as configured)", bad[:3], "sorted-order index")
    ctx.require_count("R24.5 scopes", n, 144)


def run_thorough(ctx):
    _median(ctx, cases=THOROUGH_CASES)
    _allowed(ctx, heights=(4, 5))


def run(ctx):
    _median(ctx)
    _allowed(ctx)
    _distances(ctx)
    _writeback(ctx)
    _background_index(ctx)
    ctx.require_count("C24", len(ctx.obligations), 24)
    ctx.trusted_base += [
        "direct n-d convolution model (true convolution, zero outside, 'same' cropping); np.pad model on concrete arrays",
        "for values in {0,1} and odd K, round(S/K) is the majority (S/K is never 1/2)",
        "the column filter depends on a column only through (#distinct non-background values, background present)",
        "argmin as an opaque selector over the listed candidates, in order",
    ]
    ctx.assume("odd kernel sizes; padding widths >= kernel half-widths are not required (short padding is part of the oracle)")
