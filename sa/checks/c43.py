"""C43 — shapes are rasterised by cell-centre inclusion."""

from __future__ import annotations

import itertools

from .. import absint
from ..harness import open_obj, stub_repo_calls
from ..index import AnalysisError
from ..ndarr import NdArr, concatenate
from ..poly import Rat
from ..values import Builtin, Obj, Raised, SymBool, to_rat

LEVEL = "other"
EXPLANATION = (
    "Decides the rasterisation predicates by abstract interpretation with symbolic grid edges, radii and spacing: "
    "for spheres / ellipsoids (per-axis radius fallbacks) and cylinders along each axis, on the uniform fallback "
    "(no resolved grid) and on a resolved non-uniform grid, the comparison that defines every mask cell is "
    "observed as it is made and must read  sum_axes ((centre_of_cell - centre_of_box)/radius_axis)^2 < 1  with a "
    "strict <, the cell centre being (i + 1/2)*spacing resp. (e_i + e_{i+1})/2 - e_lower of the object's own slice "
    "on that axis, the box centre half of the object's own extent on the same axis, and each radius paired with "
    "its own axis; the cylinder uses its two transverse axes and is constant along its own axis.  For the extruded "
    "polygon the sample coordinates handed to the point-in-polygon routine are those same cell centres (horizontal "
    "and vertical axis each relative to its own lower edge; uniform branch: first sample at spacing/2, last at "
    "(n - 1/2)*spacing, step spacing), the vertices are shifted by the box centre, and the 2-D mask is repeated "
    "unchanged along the extrusion axis.  The point-in-polygon test itself is a library routine and not decided."
)

N_EDGES = 7
SL = ((1, 4), (2, 4), (0, 3))  # object slice: 3 x 2 x 3 cells, different lower indices on every axis


def _edges(axis):
    return NdArr((N_EDGES,), [Rat.atom((f"e{'xyz'[axis]}", i)) for i in range(N_EDGES)])


def _config(uniform):
    if uniform:
        return open_obj(None, "config", resolved_grid=None, uniform_spacing=Builtin("us", lambda it, a, k: Rat.atom("s")))

    def slice_extent(it, a, k):
        st = a[0]
        return tuple(to_rat(_edges(ax).data[st[ax][1]]) - to_rat(_edges(ax).data[st[ax][0]]) for ax in range(3))

    grid = Obj(None, {"edges": Builtin("edges", lambda it, a, k: _edges(a[0] if a else k["axis"])), "slice_extent": Builtin("slice_extent", slice_extent)}, "grid")
    return open_obj(None, "config", resolved_grid=grid)


def _centre(axis, i, uniform):
    """cell centre relative to the object's own lower edge on `axis`"""
    if uniform:
        return (Rat.const(i) + Rat.const(1) / 2) * Rat.atom("s")
    lo = SL[axis][0]
    e = _edges(axis).data
    return (to_rat(e[lo + i]) + to_rat(e[lo + i + 1])) / 2 - to_rat(e[lo])


def _extent(axis, uniform):
    if uniform:
        return (SL[axis][1] - SL[axis][0]) * Rat.atom("s")
    e = _edges(axis).data
    return to_rat(e[SL[axis][1]]) - to_rat(e[SL[axis][0]])


def _np(it):
    def arange(it_, a, k):
        vals = [int(to_rat(x).const_value()) for x in a]
        return NdArr((len(range(*vals)),), list(range(*vals)))

    def meshgrid(it_, a, k):
        if k.get("indexing", "xy") != "ij":
            raise AnalysisError("meshgrid model: indexing='ij' expected")
        vs = [list((v if isinstance(v, NdArr) else NdArr.from_nested(v)).data) for v in a]
        shape = tuple(len(v) for v in vs)
        outs = []
        for d in range(len(vs)):
            outs.append(NdArr(shape, [vs[d][ix[d]] for ix in itertools.product(*[range(n) for n in shape])]))
        return outs

    it.ext_overrides["np.arange"] = arange
    it.ext_overrides["np.meshgrid"] = meshgrid


def _observe(fn):
    log = []
    h = lambda op, a, b: log.append((op, a, b))
    absint.COMPARE_HOOKS.append(h)
    try:
        out = fn()
    finally:
        absint.COMPARE_HOOKS.remove(h)
    return out, log


def _mask_case(ctx, q, attrs, axes_used, radius_of, uniform, label, const_axis=None):
    ix = ctx.index
    ci = ix.cls(q)
    m = ci.lookup_method("get_voxel_mask_for_shape")
    ctx.unit(m.where())
    it = ctx.fresh_interp()
    _np(it)
    obj = Obj(ci, dict(attrs, name="shape", _grid_slice_tuple=SL, _config=_config(uniform)), "shape")
    try:
        mask, log = _observe(lambda: it.call_method(obj, "get_voxel_mask_for_shape"))
    except Raised as r:
        ctx.ob("R43.0", f"{label}:accepted", False, "a documented combination of shape parameters is rasterised, not rejected", str(r)[:200], "a mask")
        return
    shape = tuple(SL[a][1] - SL[a][0] for a in range(3))
    want_shape = tuple(1 if a == const_axis else shape[a] for a in range(3))
    if not (isinstance(mask, NdArr) and mask.shape == want_shape):
        ctx.ob("R43.2", f"{label}:shape", False, "mask shape: the object's grid shape (size one along a cylinder's own axis)", getattr(mask, "shape", mask), want_shape)
        return
    cmps = [(op, a, b) for op, a, b in log if op in ("lt", "le", "gt", "ge")]
    cells = list(itertools.product(*[range(shape[a]) for a in axes_used]))
    bad = None
    if len(cmps) != len(cells):
        bad = ("count", len(cmps), len(cells))
    else:
        for (op, a, b), idx in zip(cmps, cells):
            want = Rat.const(0)
            for ax, i in zip(axes_used, idx):
                want = want + ((_centre(ax, i, uniform) - _extent(ax, uniform) / 2) / radius_of(ax)) ** 2
            ok = op == "lt" and to_rat(b).equals(1) and to_rat(a).equals(want)
            if not ok:
                bad = bad or (idx, f"{op}: {to_rat(a).fmt()[:220]} vs {to_rat(b).fmt()}", f"lt: {want.fmt()[:220]} vs 1")
    ctx.ob("R43.2", f"{label}:predicate", bad is None, "each mask cell is the strict test sum_axes((cell centre - box centre)/radius_axis)^2 < 1 with centres, extents and radii of the matching axis", bad[1] if bad else f"{len(cells)} cells", bad[2] if bad else "centre-inclusion")
    # the mask holds exactly those predicates, in array order
    flat_ok = len(mask.data) == len(cells) and all(isinstance(v, (SymBool, bool)) for v in mask.data)
    ctx.ob("R43.2", f"{label}:layout", flat_ok, "the mask entries are those predicates, one per cell", len(mask.data), len(cells))


def _sphere(ctx):
    q = "fdtdx.objects.static_material.sphere.Sphere"
    R = Rat.atom("R")
    for uniform in (True, False):
        g = "uniform" if uniform else "nonuniform"
        for tag, attrs in (("sphere", dict(radius=R, radius_x=None, radius_y=None, radius_z=None)), ("ellipsoid", dict(radius=R, radius_x=Rat.atom("Rx"), radius_y=Rat.atom("Ry"), radius_z=Rat.atom("Rz"))), ("partial", dict(radius=R, radius_x=None, radius_y=Rat.atom("Ry"), radius_z=None)), ("partial-z", dict(radius=R, radius_x=None, radius_y=None, radius_z=Rat.atom("Rz"))), ("partial-xz", dict(radius=R, radius_x=Rat.atom("Rx"), radius_y=None, radius_z=Rat.atom("Rz")))):
            rad = lambda ax, _a=attrs: (_a[("radius_x", "radius_y", "radius_z")[ax]] if _a[("radius_x", "radius_y", "radius_z")[ax]] is not None else _a["radius"])
            _mask_case(ctx, q, attrs, (0, 1, 2), rad, uniform, f"Sphere[{tag},{g}]")


def _cylinder(ctx):
    q = "fdtdx.objects.static_material.cylinder.Cylinder"
    R = Rat.atom("R")
    for uniform, axis in itertools.product((True, False), range(3)):
        t = [a for a in range(3) if a != axis]
        _mask_case(ctx, q, dict(radius=R, axis=axis), tuple(t), lambda ax: R, uniform, f"Cylinder[axis{axis},{'uniform' if uniform else 'nonuniform'}]", const_axis=axis)


def _polygon(ctx):
    ix = ctx.index
    q = "fdtdx.objects.static_material.polygon.ExtrudedPolygon"
    ci = ix.cls(q)
    ctx.unit(ci.lookup_method("get_voxel_mask_for_shape").where())
    shape = tuple(SL[a][1] - SL[a][0] for a in range(3))
    for uniform, axis in itertools.product((True, False), range(3)):
        it = ctx.fresh_interp()
        _np(it)
        h, v = [a for a in range(3) if a != axis]
        seen = {}

        def at_points(it_, a, k, _s=seen):
            _s["points"] = (k.get("x_coords", a[0] if a else None), k.get("y_coords", a[1] if len(a) > 1 else None), k.get("polygon_vertices", a[2] if len(a) > 2 else None))
            return NdArr((shape[h], shape[v]), [SymBool(("m", i, j)) for i in range(shape[h]) for j in range(shape[v])])

        def to_mask(it_, a, k, _s=seen):
            _s["mask"] = (k.get("boundary", a[0] if a else None), k.get("resolution", a[1] if len(a) > 1 else None), k.get("polygon_vertices", a[2] if len(a) > 2 else None))
            return NdArr((shape[h], shape[v]), [SymBool(("m", i, j)) for i in range(shape[h]) for j in range(shape[v])])

        stub_repo_calls(it, {"fdtdx.core.grid.polygon_to_mask_at_points": at_points, "fdtdx.core.grid.polygon_to_mask": to_mask})

        def repeat(it_, a, k):
            arr, reps = a[0], k.get("repeats", a[1] if len(a) > 1 else None)
            ax = k.get("axis", a[2] if len(a) > 2 else None)
            if arr.shape[ax] != 1:
                raise AnalysisError("np.repeat model: only size-one axes")
            return concatenate([arr] * int(reps), axis=ax)

        it.ext_overrides["np.repeat"] = repeat
        verts = NdArr((3, 2), [Rat.atom(("vx", i, c)) for i in range(3) for c in range(2)])
        obj = Obj(ci, dict(name="poly", axis=axis, vertices=verts, _grid_slice_tuple=SL, _config=_config(uniform)), "poly")
        try:
            mask = it.call_method(obj, "get_voxel_mask_for_shape")
        except Raised as r:
            raise AnalysisError(f"ExtrudedPolygon raises: {r}")
        label = f"ExtrudedPolygon[axis{axis},{'uniform' if uniform else 'nonuniform'}]"
        ch, cv = _extent(h, uniform) / 2, _extent(v, uniform) / 2
        bad = None
        if uniform:
            b, res, pv = seen.get("mask", (None, None, None))
            s = Rat.atom("s")
            want_b = (s / 2, s / 2, (shape[h] - Rat.const(1) / 2) * s, (shape[v] - Rat.const(1) / 2) * s)
            if b is None or not all(to_rat(x).equals(y) for x, y in zip(b, want_b)) or not to_rat(res).equals(s):
                bad = ("boundary", [to_rat(x).fmt() for x in b] if b else None, [w.fmt() for w in want_b])
        else:
            xs, ys, pv = seen.get("points", (None, None, None))
            for coords, ax, nm in ((xs, h, "horizontal"), (ys, v, "vertical")):
                want = [_centre(ax, i, False) for i in range(shape[ax])]
                got = [to_rat(x) for x in coords.data] if isinstance(coords, NdArr) else None
                if got is None or len(got) != len(want) or not all(g.equals(w) for g, w in zip(got, want)):
                    bad = bad or (nm, [g.fmt() for g in got] if got else None, [w.fmt() for w in want])
        ctx.ob("R43.1", f"{label}:sample-points", bad is None, "the point-in-polygon routine samples the cell centres of the horizontal and vertical axis, each relative to its own lower edge (uniform: first spacing/2, last (n-1/2)*spacing, step spacing)", bad[1] if bad else "cell centres", bad[2] if bad else "cell centres")
        okv = isinstance(pv, NdArr) and pv.shape == (3, 2) and all(to_rat(pv.data[2 * i + c]).equals(Rat.atom(("vx", i, c)) + (ch, cv)[c]) for i in range(3) for c in range(2))
        ctx.ob("R43.1", f"{label}:vertices", okv, "vertices given relative to the object's centre are shifted by half of the object's own extent on the horizontal / vertical axis", [to_rat(x).fmt() for x in pv.data] if isinstance(pv, NdArr) else pv, "v + (extent_h/2, extent_v/2)")
        okm = isinstance(mask, NdArr) and mask.shape == shape
        if okm:
            for ixs in itertools.product(*[range(n) for n in shape]):
                flat = (ixs[0] * shape[1] + ixs[1]) * shape[2] + ixs[2]
                e = mask.data[flat]
                if not (isinstance(e, SymBool) and e.key == ("m", ixs[h], ixs[v]) and not e.negated):
                    okm = False
        ctx.ob("R43.1", f"{label}:extrusion", okm, "the 2-D mask (horizontal, vertical) is repeated unchanged along the extrusion axis", getattr(mask, "shape", mask), shape)


def run(ctx):
    _sphere(ctx)
    _cylinder(ctx)
    _polygon(ctx)
    ctx.require_count("C43", len(ctx.obligations), 40)
    ctx.trusted_base += ["observation of scalar comparisons as the interpreter makes them (operands extracted, not re-derived)", "point-in-polygon library routine outside the analysis", "models of meshgrid / stack / expand_dims / repeat on concrete-shape arrays"]
    ctx.assume("a 3 x 2 x 3 cell object slice with different lower indices per axis stands for all slices (the code is index-generic)")
