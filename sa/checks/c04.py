"""C04 — time-reversal gradients equal exact autodiff gradients (structure of the custom VJP)."""

from __future__ import annotations

import ast

from ..driver import Driver, Facts, StepHarness, _leaves, atom, dyn_signature, field_signature, integer_atom, leaf_key
from ..index import AnalysisError
from ..poly import Rat
from ..values import Closure, Obj, Partial, Raised, to_rat

LEVEL = "other"
EXPLANATION = (
    "The gradient of the reversible method is sum_t (d step_t / d material)^T lambda_{t+1}, the same sum exact "
    "autodiff forms, exactly when the reverse sweep (a) visits every forward step t = T-1 .. 0 once and no other, (b) "
    "linearises the *same* step function the primal ran, at the reconstructed state of step t, (c) threads the "
    "cotangent through the pull-back unchanged, and (d) hands back the material cotangents in the material slots.  "
    "Decided on reversible_fdtd's own custom-VJP closures, captured by interpreting the driver with a symbolic number "
    "of steps T and 1..3 slices (jax.custom_vjp / jax.vjp / eqxi.while_loop replaced by recording models, the single "
    "steps by opaque tokens): the reverse loop starts at (T, final state), moves the counter by -1 per iteration and "
    "stops at 0, so the linearised steps are exactly T-1 .. 0; each iteration reconstructs with "
    "backward(record_detectors=False, reset_fields=False) and then calls jax.vjp on forward_single_args_wrapper with "
    "record_detectors / simulate_boundaries equal to the primal forward's, record_boundaries=False, the container's "
    "conductivities, and the reconstructed state as primals in the wrapper's own parameter order; the pull-back is "
    "applied to the carried cotangent and its result carried on; fdtd_bwd returns that cotangent's inverse-"
    "permittivity / inverse-permeability entries in the slots of the primal's parameters of the same name and None "
    "elsewhere; fdtd_fwd runs the same segmented forward as the primal and its checkpoint i is the field state at "
    "slice boundary s_i, restored exactly when the reverse counter equals s_i; forward_single_args_wrapper stores "
    "each argument in the member of the same name and returns the members in parameter order; the reverse updates "
    "evaluate every source at the time the forward updates did.  Exactness of the reconstruction itself is C02 / C03; "
    "round-off is not decided."
)

WRAP = "fdtdx.fdtd.forward.forward_single_args_wrapper"


def _objects():
    return Obj(None, {}, "objects")


def _wrapper(ctx):
    """Slot discipline of forward_single_args_wrapper."""
    f = ctx.index.function(WRAP)
    ctx.unit(f.where())
    params = [a.arg for a in f.node.args.args]
    d = Driver(ctx, Facts([]))
    arr = d.arrays()
    vals = dict(time_step=integer_atom("t"), E=atom("vE"), H=atom("vH"), psi_E={"pml0": (atom("ve0"), atom("ve1"))}, psi_H={"pml0": (atom("vh0"), atom("vh1"))},
                inv_permittivities=atom("vie"), inv_permeabilities=atom("vim"), detector_states={"det0": {"fields": atom("vd")}}, recording_state=arr.attrs["recording_state"],
                config=Obj(None, {}, "config"), objects=_objects(), key=atom("key"), record_detectors=True, record_boundaries=False, simulate_boundaries=True,
                electric_conductivity=atom("vsE"), magnetic_conductivity=atom("vsH"))
    missing = [p for p in params if p not in vals]
    if missing:
        raise AnalysisError(f"forward_single_args_wrapper grew parameters the harness does not know: {missing}")
    seen = {}

    def fwd(it, a, k):
        kw = dict(k)
        seen.update(kw)
        return kw["state"]

    from ..harness import stub_repo_calls

    it = ctx.fresh_interp()
    stub_repo_calls(it, {"fdtdx.fdtd.forward.forward": fwd})
    out = it.call(it.closure_of(f), [vals[p] for p in params[:9]], {p: vals[p] for p in params[9:]})
    st = seen.get("state")
    ok_in = st is not None and to_rat(st[0]).equals(vals["time_step"])
    bad = []
    if ok_in:
        a = st[1]
        table = {"E": a.attrs["fields"].attrs["E"], "H": a.attrs["fields"].attrs["H"], "psi_E": a.attrs["fields"].attrs["psi_E"], "psi_H": a.attrs["fields"].attrs["psi_H"],
                 "inv_permittivities": a.attrs["inv_permittivities"], "inv_permeabilities": a.attrs["inv_permeabilities"], "detector_states": a.attrs["detector_states"],
                 "recording_state": a.attrs["recording_state"], "electric_conductivity": a.attrs["electric_conductivity"], "magnetic_conductivity": a.attrs["magnetic_conductivity"]}
        for n, v in table.items():
            if [leaf_key(x) for _, x in _leaves(v)] != [leaf_key(x) for _, x in _leaves(vals[n])]:
                bad.append(n)
        for n in ("config", "objects", "record_detectors", "record_boundaries", "simulate_boundaries"):
            if seen.get(n) is not vals[n]:
                bad.append(n)
        if not to_rat(seen.get("key")).equals(vals["key"]):
            bad.append("key")
    ctx.ob("R4.3", f"{WRAP}:inputs", ok_in and not bad, "every argument reaches `forward` in the member / keyword of the same name (E as fields.E, ..., conductivities, flags)", bad, [])
    want = [vals[p] for p in params[:9]]
    ok_out = isinstance(out, tuple) and len(out) == 9 and all([leaf_key(x) for _, x in _leaves(o)] == [leaf_key(x) for _, x in _leaves(w)] for o, w in zip(out, want))
    ctx.ob("R4.3", f"{WRAP}:outputs", ok_out, "the nine results are the members in the order of the nine positional parameters, so cotangent i belongs to primal i", params[:9], "identity on slots")
    return params


def _reverse(ctx, params, slices=(1, 2, 3)):
    T = integer_atom("T")
    for k in slices:
        label = f"reversible_fdtd[{k} slice{'s' if k > 1 else ''}]"
        d = Driver(ctx, Facts([T - max(k, 1)]))
        arr = d.arrays()
        cfg = d.config(T, gradient=dict(method="reversible", num_checkpoints_reversible=k - 1))
        r = d.call("fdtdx.fdtd.fdtd.reversible_fdtd", arr, _objects(), cfg, atom("key"), show_progress=False)
        if isinstance(r, Raised):
            raise AnalysisError(f"reversible_fdtd raises: {r}")
        if len(d.custom_vjps) != 1 or d.custom_vjps[0]["fwd"] is None or d.custom_vjps[0]["bwd"] is None:
            ctx.ob("R4.1", f"{label}:custom-vjp", False, "one custom_vjp function with forward and backward rules", len(d.custom_vjps), 1)
            continue
        cv = d.custom_vjps[0]
        primal_params = [a.arg for a in cv["primal"].node.args.args]
        fwd_params = [a.arg for a in cv["fwd"].node.args.args]
        ctx.ob("R4.4", f"{label}:rule-signatures", primal_params == fwd_params and "inv_permittivities" in primal_params and "inv_permeabilities" in primal_params, "the forward rule takes the primal's parameters in the primal's order", fwd_params, primal_params)
        primal_dyn = dyn_signature(r[1])
        primal_flags = primal_dyn[2] if isinstance(primal_dyn, tuple) and len(primal_dyn) == 6 else None
        inputs = dict(E=arr.attrs["fields"].attrs["E"], H=arr.attrs["fields"].attrs["H"], psi_E=arr.attrs["fields"].attrs["psi_E"], psi_H=arr.attrs["fields"].attrs["psi_H"],
                      inv_permittivities=arr.attrs["inv_permittivities"], inv_permeabilities=arr.attrs["inv_permeabilities"], detector_states=arr.attrs["detector_states"], recording_state=arr.attrs["recording_state"])
        d.loops.clear()
        z = d.run(lambda: d.it.call(cv["fwd"], [], {p: inputs[p] for p in fwd_params}))
        if isinstance(z, Raised):
            raise AnalysisError(f"fdtd_fwd raises: {z}")
        primal_out, residual = z
        fwd_loops = list(d.loops)
        # the forward rule runs the primal's forward: same tokens from the same inputs
        p2 = d.run(lambda: d.it.call(cv["primal"], [], {p: inputs[p] for p in primal_params}))
        same = len(primal_out) == len(p2) and all([leaf_key(x) for _, x in _leaves(a)] == [leaf_key(x) for _, x in _leaves(b)] for a, b in zip(primal_out, p2))
        ctx.ob("R4.6", f"{label}:forward-rule", same and to_rat(primal_out[0]).equals(T), "the forward rule returns what the primal returns (same segmented forward, ending at step T)", to_rat(primal_out[0]).fmt(), "T")
        # checkpoints: field state at each interior boundary
        ckpts = residual[1] if isinstance(residual, tuple) and len(residual) == 2 else None
        ok_ck = isinstance(ckpts, list) and len(ckpts) == k - 1
        ck_h = []
        if ok_ck:
            for i, c in enumerate(ckpts):
                hs = {leaf_key(v)[2] if isinstance(leaf_key(v), tuple) and len(leaf_key(v)) == 3 else None for _, v in _leaves(c, ("fields",))}
                h = next(iter(hs)) if len(hs) == 1 else None
                ck_h.append(h)
                ok_ck = ok_ck and isinstance(h, tuple) and len(h) == 6 and h[0] == "run" and h[3] == "0" and h[4] == f"s{i + 1}" and h[2] == primal_flags
        ctx.ob("R4.5", f"{label}:checkpoints", ok_ck, "checkpoint i is the full field state after the forward steps 0 .. s_i - 1 (i = 1..k-1)", [str(h)[:80] for h in ck_h], [f"run 0 -> s{i + 1}" for i in range(k - 1)])
        # ---- the backward rule
        d.loops.clear()
        d.events.clear()
        d.vjp_calls.clear()
        cot = tuple(atom("cot_in", i) for i in range(len(primal_out)))
        g = d.run(lambda: d.it.call(cv["bwd"], [residual, cot], {}))
        if isinstance(g, Raised):
            raise AnalysisError(f"fdtd_bwd raises: {g}")
        if len(d.loops) != 1:
            ctx.ob("R4.1", f"{label}:reverse-loop", False, "one reverse loop", len(d.loops), 1)
            continue
        lp = d.loops[0]
        ok = lp.nested and lp.step == -1 and to_rat(lp.t0).equals(T) and to_rat(lp.t_exit).is_zero() and lp.enters
        ctx.ob("R4.1", f"{label}:reverse-loop", ok, "the reverse sweep starts at step T, moves the counter by -1 per iteration and stops when it reaches 0: the linearised steps are exactly T-1 .. 0, the forward steps that ran", dict(start=to_rat(lp.t0).fmt(), step=lp.step, exit=to_rat(lp.t_exit).fmt(), cond=f"tau {lp.rel} {to_rat(lp.bound).fmt()}"), dict(start="T", step=-1, exit="0"))
        init_dyn = None
        tau = lp.probe_tau
        bw = [e for e in lp.events if e[0] == "backward"]
        fw = [e for e in lp.events if e[0] == "forward"]
        ok = len(bw) == 1 and to_rat(bw[0][1]).equals(tau) and {k_: v_ for k_, v_ in bw[0][2] if k_ != "materials"} == {"record_detectors": False, "reset_fields": False}
        mats_bw = dict(bw[0][2]).get("materials") if bw else None
        mats_fw = dict(primal_flags).get("materials") if primal_flags else None
        ctx.ob("R4.2", f"{label}:reconstruction-materials", mats_bw is not None and mats_bw == mats_fw, "the reverse reconstruction and the primal forward see the same permittivity, permeability and conductivities", mats_bw, mats_fw)
        ctx.ob("R4.2", f"{label}:reconstruction", ok, "each iteration reconstructs the previous state with backward(record_detectors=False, reset_fields=False) applied to the carried state at the carried step", [(e[0], to_rat(e[1]).fmt(), e[2]) for e in bw], "backward at tau")
        ok = len(lp.vjps) == 1
        if ok:
            v = lp.vjps[0]
            fn = v["fn"]
            ok = isinstance(fn, Partial) and isinstance(fn.func, Closure) and fn.func.qualname.endswith("forward_single_args_wrapper") and not fn.args
        ctx.ob("R4.2", f"{label}:vjp-target", ok, "one jax.vjp per iteration, of forward_single_args_wrapper with keyword-bound static arguments", len(lp.vjps), 1)
        if not ok:
            continue
        kw = fn.kwargs
        flags = (("record_detectors", kw.get("record_detectors")), ("simulate_boundaries", kw.get("simulate_boundaries")))
        ok = primal_flags is not None and flags == tuple(f_ for f_ in primal_flags if f_[0] != "materials") and kw.get("record_boundaries") is False
        ctx.ob("R4.2", f"{label}:vjp-flags", ok, "the linearised step is the step the primal ran: record_detectors and simulate_boundaries equal the primal forward's, and nothing is re-recorded", dict(flags=flags, record_boundaries=kw.get("record_boundaries")), dict(flags=primal_flags, record_boundaries=False))
        okc = kw.get("config") is cfg and to_rat(kw.get("key")).equals(atom("key")) and to_rat(kw.get("electric_conductivity")).equals(to_rat(arr.attrs["electric_conductivity"])) and to_rat(kw.get("magnetic_conductivity")).equals(to_rat(arr.attrs["magnetic_conductivity"]))
        ctx.ob("R4.2", f"{label}:vjp-closure", okc, "config, key and both conductivities of the linearised step are the run's own", sorted(kw), "config, key, electric_conductivity, magnetic_conductivity")
        # primals: the reconstructed state in the wrapper's parameter order
        st = lp.out[0]
        post = st[1]
        table = {"time_step": st[0], "E": post.attrs["fields"].attrs["E"], "H": post.attrs["fields"].attrs["H"], "psi_E": post.attrs["fields"].attrs["psi_E"], "psi_H": post.attrs["fields"].attrs["psi_H"],
                 "inv_permittivities": post.attrs["inv_permittivities"], "inv_permeabilities": post.attrs["inv_permeabilities"], "detector_states": post.attrs["detector_states"], "recording_state": post.attrs["recording_state"]}
        bad = []
        if len(v["primals"]) != 9:
            bad.append(f"{len(v['primals'])} primals")
        else:
            for name, got in zip(params[:9], v["primals"]):
                if [leaf_key(x) for _, x in _leaves(got)] != [leaf_key(x) for _, x in _leaves(table[name])]:
                    bad.append(name)
        at_prev = to_rat(st[0]).equals(tau - 1) and isinstance(field_signature(post), tuple) and field_signature(post)[:2] == ("run", "bwd")
        ctx.ob("R4.2", f"{label}:vjp-primals", not bad and at_prev, "the step is linearised at the state just reconstructed (step tau - 1), each primal in the wrapper parameter of the same name", bad, params[:9])
        # cotangent threading
        cin = v["cot_in"]
        carried_in = lp.out is not None and isinstance(cin, tuple) and [leaf_key(x) for x in cin] == [leaf_key(x) for x in cot]
        new_cot = lp.out[1]
        threaded = isinstance(new_cot, tuple) and all(leaf_key(x) == ("cot", 1, i) for i, x in enumerate(new_cot))
        ctx.ob("R4.4", f"{label}:cotangent-carry", carried_in and threaded, "the pull-back is applied to the carried cotangent and its result is what the loop carries on", dict(applied_to_carry=carried_in, result_carried=threaded), True)
        ie, im = primal_params.index("inv_permittivities"), primal_params.index("inv_permeabilities")
        wi, wm = params.index("inv_permittivities"), params.index("inv_permeabilities")
        ok = isinstance(g, tuple) and len(g) == len(primal_params)
        if ok:
            for i, x in enumerate(g):
                if i == ie:
                    ok = ok and x is not None and leaf_key(x) == ("cot", 1, wi)
                elif i == im:
                    ok = ok and x is not None and leaf_key(x) == ("cot", 1, wm)
                else:
                    ok = ok and x is None
        ctx.ob("R4.4", f"{label}:returned-cotangents", ok, "the backward rule returns the final cotangent's inverse-permittivity / inverse-permeability entries (wrapper positions) in the primal's slots of the same names and None elsewhere", [None if x is None else leaf_key(x) for x in g] if isinstance(g, tuple) else g, f"slot {ie}: cot[{wi}], slot {im}: cot[{wm}]")
        # checkpoint restoration inside the reverse body
        if k > 1:
            ok = _restores(d, lp, ckpts, k)
            detail = [f"tau = s{i}" for i in range(1, k)] + ["tau elsewhere"]
            ctx.ob("R4.5", f"{label}:checkpoint-restore", ok, "before reconstructing from step tau the fields are replaced by checkpoint i exactly when tau = s_i (and left alone otherwise); detector and recording states are never replaced", detail, "select(tau == s_i, checkpoint_i, carried)")


def _restores(d, lp, ckpts, k):
    """Re-run the loop body with the probe step identified with each boundary in turn."""
    from .. import absint

    body_holder = d.last_reverse_body
    if body_holder is None:
        return False
    body, probe_state, carry = body_holder
    tau = lp.probe_tau
    ok = True
    for i in range(0, k):  # i = 0: tau differs from every boundary
        d.events.clear()
        facts_old = d.facts
        d.facts = Facts(list(facts_old.g))
        eqs = {j: (j == i) for j in range(1, k)}
        def oracle(op, dd, _eqs=eqs):
            for j, val in _eqs.items():
                e = Rat.atom(f"s{j}") - tau
                if dd.equals(e) or dd.equals(-e):
                    if op == "eq":
                        return val
                    if op == "ne":
                        return not val
            return None
        absint.COMPARE_ORACLES.insert(0, oracle)
        try:
            d.run(lambda: d.it.call(body, [(probe_state, carry)], {}))
        finally:
            absint.COMPARE_ORACLES.remove(oracle)
            d.facts = facts_old
        bw = [e for e in d.events if e[0] == "backward"]
        if len(bw) != 1:
            return False
        pre = bw[0][3]
        if i == 0:
            ok = ok and pre == ("probe", tau.fmt())
        else:
            # fields from checkpoint i, detector states still the carried ones
            if not (isinstance(pre, tuple) and pre[0] == "M"):
                return False
            ck = {p: leaf_key(v) for p, v in _leaves(ckpts[i - 1], ("fields",))}
            for p, key in pre[1]:
                if p[0] == "fields":
                    ok = ok and key == ck.get(p)
                else:
                    ok = ok and isinstance(key, tuple) and len(key) == 3 and key[2] == ("probe", tau.fmt())
    d.events.clear()
    return ok


def _source_times(ctx, rule="R4.7"):
    """Sibling agreement: the reverse updates evaluate each source at the time the forward updates did."""
    ix = ctx.index
    n = 0
    for fwd, rev in (("update_E", "update_E_reverse"), ("update_H", "update_H_reverse")):
        tables = {}
        for fname in (fwd, rev):
            fi = ix.function(f"fdtdx.fdtd.update.{fname}")
            ctx.unit(fi.where())
            rows = []
            for node in ast.walk(fi.node):
                if isinstance(node, ast.For) and isinstance(node.iter, ast.Attribute) and node.iter.attr == "sources":
                    for c in ast.walk(node):
                        if isinstance(c, ast.Call) and isinstance(c.func, ast.Attribute) and c.func.attr == fwd and isinstance(c.func.value, ast.Name):
                            kws = {kw.arg: ast.unparse(kw.value) for kw in c.keywords}
                            # resolve one level of local assignment of the time variable
                            enclosing = [f_ for f_ in ast.walk(node) if isinstance(f_, ast.FunctionDef) and any(x is c for x in ast.walk(f_))]
                            defs = {}
                            for f_ in enclosing:
                                for st in ast.walk(f_):
                                    if isinstance(st, ast.Assign) and len(st.targets) == 1 and isinstance(st.targets[0], ast.Name):
                                        defs[st.targets[0].id] = ast.unparse(st.value)
                            t = kws.get("time_step")
                            tnode = next((kw.value for kw in c.keywords if kw.arg == "time_step"), None)
                            resolved = t
                            if tnode is not None:
                                names = {x.id for x in ast.walk(tnode) if isinstance(x, ast.Name)}
                                for nm in names:
                                    if nm in defs:
                                        resolved = resolved.replace(nm, f"({defs[nm]})")
                            rows.append(("switched" if enclosing else "always-on", resolved, kws.get("inverse")))
            tables[fname] = sorted(rows)
        n += len(tables[fwd]) + len(tables[rev])
        f_rows = [(b, t) for b, t, _ in tables[fwd]]
        r_rows = [(b, t) for b, t, _ in tables[rev]]
        inv_ok = all(i == "False" for _, _, i in tables[fwd]) and all(i == "True" for _, _, i in tables[rev])
        ctx.ob(rule, f"fdtd.update.{rev}:source-times", f_rows == r_rows and inv_ok and len(f_rows) == 2, f"every source.{fwd} call of the reverse update takes the time argument of the corresponding forward call (always-on and switched branch alike) with inverse=True", tables[rev], tables[fwd])
    ctx.require_count(f"{rule} source call sites", n, 8)


def run_thorough(ctx):
    """The custom-VJP structure for 4..7 slices."""
    f = ctx.index.function(WRAP)
    _reverse(ctx, [a.arg for a in f.node.args.args], slices=(4, 5, 6, 7))


def run(ctx):
    params = _wrapper(ctx)
    _reverse(ctx, params)
    _source_times(ctx)
    from .c02 import reverse_is_inverse

    reverse_is_inverse(ctx, "R4.8")
    # the reconstruction also needs every source's inverse call to take back exactly what its forward call added
    # (def-use rule of C02 / C10 on update_E / update_H and their helpers, per public source class)
    from . import c10

    c10.source_linearity(ctx, rule="R4.9", for_c02=True)
    ctx.require_count("C04", len(ctx.obligations), 35)
    ctx.trusted_base += [
        "counting-loop summary of eqxi.while_loop; recording models of jax.custom_vjp / jax.vjp (sa/driver.py)",
        "`forward` / `backward` as opaque deterministic steps; exactness of the reconstruction is C02 / C03",
        "the chain rule: the gradient is the sum over the executed steps of the step's VJP applied to the running cotangent",
    ]
    ctx.assume("T >= number of slices; lossless recording; the slice boundaries form a strictly increasing partition (C05)")
