"""C25 — brush-constrained designs are unions of brush placements (premises of the loop invariant; narrow)."""

from __future__ import annotations

import itertools
import math
from fractions import Fraction as Fr

from ..harness import stub_repo_calls
from ..index import AnalysisError
from ..ndarr import NdArr
from ..poly import Rat
from ..values import AbsVal, Builtin, Obj, Raised, to_rat

LEVEL = "other"
EXPLANATION = (
    "Write P_s = D(T_s), P_v = D(T_v) for the pixels covered by the solid / void touches (D = dilation by the brush).  "
    "The output is feasible — solid and void are both unions of whole brush footprints — when the loop keeps "
    "P_s and P_v disjoint and stops only once they cover everything; then solid = D(T_s) and void = D(T_v).  Decided on "
    "the code, by interpreting BrushConstraint2D._generator over a set-algebra domain in which arrays are formulas over "
    "T_s, T_v with D an opaque monotone operator and every conditional branch is taken in turn (5 paths): (1) the "
    "result is D(T_s) of the final touches and the loop continues exactly while some pixel is in neither P_s nor P_v; "
    "(2) a touch is valid for solid exactly when it is not yet a solid touch and not in D(P_v) (symmetrically for "
    "void); (3) on every path the touches added lie inside the validity mask of their own colour, the other colour's "
    "touches are returned unchanged on the single-touch paths, and no touch is ever removed; (4) on the path that adds "
    "many touches at once, every added solid touch lies outside D(possible-void pixels U P_v) while every added void "
    "touch lies inside the touches that generate the possible-void pixels (and symmetrically) — so by monotonicity of "
    "D the new footprints of the two colours cannot meet; (5) dilate_jax is the dilation by the brush as given "
    "(zero outside, centred), and circular_brush of any of eleven diameters has odd size and is symmetric under "
    "point reflection, which turns `t not in D(P)` into `footprint(t) does not meet P`.  From (2)-(5) disjointness is "
    "preserved by every iteration; with (1) the output has the stated form.  Not decided: termination, and that a "
    "valid touch exists whenever the loop has not finished (the argmax over an empty mask would pick pixel 0)."
)

Q = "fdtdx.objects.device.parameters.discretization.BrushConstraint2D"


# ------------------------------------------------------------------ set algebra
def And(a, b):
    if a == ("F",) or b == ("F",):
        return ("F",)
    if a == ("T",):
        return b
    if b == ("T",):
        return a
    return ("and", a, b)


def Or(a, b):
    if a == ("T",) or b == ("T",):
        return ("T",)
    if a == ("F",):
        return b
    if b == ("F",):
        return a
    return ("or", a, b)


def Not(a):
    if a == ("T",):
        return ("F",)
    if a == ("F",):
        return ("T",)
    if a[0] == "not":
        return a[1]
    return ("not", a)


def Dil(a):
    return ("F",) if a == ("F",) else ("dil", a)


def _atoms(f, out):
    if f[0] in ("atom", "dil", "pick"):
        out.add(f)
    elif f[0] in ("and", "or"):
        _atoms(f[1], out)
        _atoms(f[2], out)
    elif f[0] == "not":
        _atoms(f[1], out)
    return out


def _eval(f, val):
    if f[0] == "T":
        return True
    if f[0] == "F":
        return False
    if f[0] in ("atom", "dil", "pick"):
        return val[f]
    if f[0] == "not":
        return not _eval(f[1], val)
    if f[0] == "and":
        return _eval(f[1], val) and _eval(f[2], val)
    return _eval(f[1], val) or _eval(f[2], val)


def implies(f, g, facts=()):
    """f => g pointwise, as a propositional tautology in which every D(...) / pick(...) term is an independent
    atom; `facts` are extra pointwise truths (e.g. pick(m) => m)."""
    ats = set()
    for x in (f, g) + tuple(facts):
        _atoms(x, ats)
    ats = sorted(ats, key=repr)
    if len(ats) > 18:
        raise AnalysisError(f"set-algebra decision over {len(ats)} atoms")
    for bits in itertools.product((False, True), repeat=len(ats)):
        val = dict(zip(ats, bits))
        if all(_eval(x, val) for x in facts) and _eval(f, val) and not _eval(g, val):
            return False
    return True


def equiv(f, g, facts=()):
    return implies(f, g, facts) and implies(g, f, facts)


class BSet(AbsVal):
    is_array = True

    def __init__(self, f):
        self.f = f

    def av_unop(self, op):
        if op in ("invert", "not"):
            return BSet(Not(self.f))
        raise AnalysisError(f"BSet unop {op}")

    def av_binop(self, op, other, reflected):
        if not isinstance(other, BSet):
            raise AnalysisError(f"BSet {op} {type(other).__name__}")
        if op in ("bitand", "and"):
            return BSet(And(self.f, other.f))
        if op in ("bitor", "or"):
            return BSet(Or(self.f, other.f))
        raise AnalysisError(f"BSet binop {op}")

    def av_getattr(self, name):
        if name == "shape":
            return ("shape2d",)
        if name == "flatten":
            return Builtin("flatten", lambda it, a, k: _Flat(self))
        if name == "dtype":
            return "bool"
        raise AnalysisError(f"BSet.{name}")

    def av_ext(self, name, args, kwargs, interp=None):
        if name in ("np.all", "np.any"):
            return Opaque((name[3:], self.f))
        if name == "np.zeros_like":
            return BSet(("F",))
        if name == "np.where" and args and args[0] is self:
            return Masked(self.f, args[1])
        if name == "np.where" and args and isinstance(args[0], Opaque) and all(isinstance(x, BSet) for x in args[1:3]):
            return BSet(("where", args[0].key, args[1].f, args[2].f))  # a whole-design selection between two sets
        return NotImplemented

    def av_compare(self, op, other, reflected):
        return BSet(("cmp", op, self.f, getattr(other, "f", other)))


class _Flat(AbsVal):
    def __init__(self, s):
        self.s = s

    def av_getattr(self, name):
        if name == "at":
            return self
        if name == "reshape":
            return Builtin("reshape", lambda it, a, k: self.s)
        raise AnalysisError(f"flat.{name}")

    def av_getitem(self, idx):
        if not isinstance(idx, Opaque) or idx.key[0] != "argmax":
            raise AnalysisError("flattened touch array indexed by something that is not an argmax")

        def set_(it, a, k):
            if a[0] is not True:
                raise AnalysisError("a touch is set to something other than True")
            return _Flat(BSet(Or(self.s.f, ("pick", idx.key[1]))))

        return Obj(None, {"set": Builtin("set", set_)}, "at[idx]")


class Masked(AbsVal):
    """jnp.where(mask, values, -inf)"""

    def __init__(self, mask, values):
        self.mask, self.values = mask, values

    def av_ext(self, name, args, kwargs, interp=None):
        if name == "np.argmax":
            return Opaque(("argmax", self.mask))
        if name == "np.max":
            return Opaque(("max", self.mask, repr(self.values)))
        return NotImplemented


class Opaque(AbsVal):
    def __init__(self, key):
        self.key = key

    def av_unop(self, op):
        return Opaque(("not", self.key))

    def av_compare(self, op, other, reflected):
        return Opaque(("cmp", op, self.key, getattr(other, "key", other)))

    def av_binop(self, op, other, reflected):
        if op in ("bitand", "and", "bitor", "or"):
            return Opaque((op, self.key, getattr(other, "key", other)))
        raise AnalysisError(f"opaque predicate {op}")

    def av_ext(self, name, args, kwargs, interp=None):
        if name == "np.where" and len(args) >= 3 and all(isinstance(x, BSet) for x in args[1:3]):
            return BSet(("where", self.key, args[1].f, args[2].f))
        return NotImplemented

    def av_truth(self):
        raise AnalysisError("an opaque predicate is used as a Python condition")


class Val(AbsVal):
    """The continuous design (only ever compared through where / max)."""

    def __init__(self, sign=1):
        self.sign = sign

    def av_unop(self, op):
        if op == "neg":
            return Val(-self.sign)
        raise AnalysisError(f"design {op}")

    def av_ext(self, name, args, kwargs, interp=None):
        if name == "np.zeros_like":
            return BSet(("F",))
        return NotImplemented

    def av_compare(self, op, other, reflected):
        return BSet(("atom", f"design {'-' if self.sign < 0 else ''}{op} {other!r}"))  # a thresholded copy of the design

    def __repr__(self):
        return f"<design x {self.sign}>"


def _generator_paths(ctx):
    ix = ctx.index
    C = ix.cls(Q)
    g = C.lookup_method("_generator")
    ctx.unit(g.where())
    it = ctx.fresh_interp()
    stub_repo_calls(it, {"dilate_jax": lambda it_, a, k: BSet(Dil((a[0] if a else k["image"]).f)), "erode_jax": lambda it_, a, k: BSet(("erode", (a[0] if a else k["image"]).f))})
    loop = {}

    def while_loop(it_, a, k):
        loop.update(k)
        return (BSet(("atom", "Tv*")), BSet(("atom", "Ts*")))

    it.ext_overrides["eqxi.while_loop"] = while_loop
    script = []

    def cond(it_, a, k):
        if not script:
            raise AnalysisError("more conditionals on the path than expected")
        take = script.pop(0)
        return it_.call(a[1] if take else a[2], list(a[3:]), {})

    it.ext_overrides["lax.cond"] = cond
    it.ext_overrides["jax.lax.cond"] = cond
    obj = Obj(C, dict(brush=Obj(None, {}, "brush")), "brush_constraint")
    try:
        out = it.call_method(obj, "_generator", Val())
    except Raised as r:
        raise AnalysisError(f"_generator raises: {r}")
    ok_out = isinstance(out, BSet) and out.f == Dil(("atom", "Ts*"))
    ctx.ob("R25.1", f"{Q}._generator:result", ok_out, "the result is the dilation of the final solid touches by the brush: the solid region is a union of whole brush footprints by construction", getattr(out, "f", out), "D(T_s*)")
    init = loop.get("init_val")
    ok_init = isinstance(init, tuple) and len(init) == 2 and all(isinstance(x, BSet) and x.f == ("F",) for x in init)
    ctx.ob("R25.1", f"{Q}._generator:start", ok_init, "the loop starts without any touch", [getattr(x, "f", x) for x in init] if isinstance(init, tuple) else init, "(empty, empty)")
    Tv, Ts = ("atom", "Tv"), ("atom", "Ts")
    Pv, Ps = Dil(Tv), Dil(Ts)
    c = it.call(loop["cond_fun"], [(BSet(Tv), BSet(Ts))], {})
    want = ("not", ("all", Or(Ps, Pv)))
    ok_c = isinstance(c, Opaque) and c.key[0] == "not" and c.key[1][0] == "all" and equiv(c.key[1][1], Or(Ps, Pv))
    ctx.ob("R25.1", f"{Q}._generator:continue-condition", ok_c, "the loop continues exactly while some pixel is covered by neither colour: on exit the void region is D(T_v*), a union of footprints, provided the colours stayed disjoint", getattr(c, "key", c), want)
    # the five paths of one iteration
    valid_s = And(Not(Dil(Pv)), Not(Ts))
    valid_v = And(Not(Dil(Ps)), Not(Tv))
    poss_s = Dil(Or(Ts, valid_s))
    poss_v = Dil(Or(Tv, valid_v))
    paths = [
        ("all free touches", [True], "both"),
        ("best resolving touch: solid", [False, True, True], "solid"),
        ("best resolving touch: void", [False, True, False], "void"),
        ("best valid touch: solid", [False, False, True], "solid"),
        ("best valid touch: void", [False, False, False], "void"),
    ]
    for label, decisions, colour in paths:
        script[:] = list(decisions)
        try:
            nv, ns = it.call(loop["body_fun"], [(BSet(Tv), BSet(Ts))], {})
        except Raised as r:
            raise AnalysisError(f"body of the brush loop raises on path '{label}': {r}")
        if script:
            raise AnalysisError(f"path '{label}': {len(script)} scripted decisions were not consumed")
        if not (isinstance(nv, BSet) and isinstance(ns, BSet)):
            ctx.ob("R25.2", f"{Q}._generator[{label}]", False, "returns the two touch sets", (nv, ns), "(T_v', T_s')")
            continue
        facts = []
        for f_ in (nv.f, ns.f):
            for a in _atoms(f_, set()):
                if a[0] == "pick":
                    facts.append(Or(Not(a), a[1]))  # the picked pixel lies in the mask it was picked from (non-empty mask)
        facts = tuple(facts)
        new_s, new_v = And(ns.f, Not(Ts)), And(nv.f, Not(Tv))
        keeps = implies(Ts, ns.f, facts) and implies(Tv, nv.f, facts)
        in_valid = implies(new_s, valid_s, facts) and implies(new_v, valid_v, facts)
        untouched = True
        if colour == "solid":
            untouched = equiv(nv.f, Tv, facts) and not equiv(ns.f, Ts, facts)
        elif colour == "void":
            untouched = equiv(ns.f, Ts, facts) and not equiv(nv.f, Tv, facts)
        detail = dict(no_touch_removed=keeps, new_touches_valid=in_valid, other_colour_unchanged=untouched)
        ok = keeps and in_valid and untouched
        if colour == "both":
            # simultaneous additions: new solid touches avoid D(possible void U P_v); new void touches are among the
            # generators of the possible-void pixels (T_v U valid_v) — and symmetrically
            s_out = implies(new_s, Not(Dil(Or(poss_v, Pv))), facts)
            v_gen = implies(new_v, Or(Tv, valid_v), facts)
            v_out = implies(new_v, Not(Dil(Or(poss_s, Ps))), facts)
            s_gen = implies(new_s, Or(Ts, valid_s), facts)
            detail.update(solid_avoids_possible_void=s_out, void_among_generators=v_gen, void_avoids_possible_solid=v_out, solid_among_generators=s_gen)
            ok = ok and s_out and v_gen and v_out and s_gen
        ctx.ob("R25.2", f"{Q}._generator[{label}]", ok, "no touch is removed; every added touch lies in the validity mask of its colour (not yet a touch, not in D of the other colour's pixels)" + ("; the other colour is returned unchanged" if colour != "both" else "; added solid touches lie outside D(possible void U existing void) while added void touches are among the generators of the possible-void pixels, and symmetrically, so the new footprints cannot meet"), detail, True)


def _conv2d(it, a, k):
    x, ker = a[0], a[1]
    if k.get("mode") != "same" or k.get("boundary", "fill") != "fill" or not isinstance(x, NdArr) or not isinstance(ker, NdArr):
        raise AnalysisError(f"convolve2d model: mode={k.get('mode')!r} boundary={k.get('boundary')!r}")
    H, W = x.shape
    kh, kw = ker.shape
    oh, ow = (kh - 1) // 2, (kw - 1) // 2
    out = []
    for i in range(H):
        for j in range(W):
            tot = Rat.const(0)
            for p in range(kh):
                for q in range(kw):
                    ii, jj = i + oh - p, j + ow - q
                    if 0 <= ii < H and 0 <= jj < W and not to_rat(ker.data[p * kw + q]).is_zero():
                        tot = tot + to_rat(x.data[ii * W + jj]) * to_rat(ker.data[p * kw + q])
            out.append(tot)
    return NdArr((H, W), out)


def _dilation_and_brush(ctx):
    ix = ctx.index
    f = ix.function("fdtdx.objects.device.parameters.binary_transform.dilate_jax")
    ctx.unit(f.where())
    it = ctx.fresh_interp()
    it.ext_overrides["jax.scipy.signal.convolve2d"] = _conv2d
    seen = {}
    it.ext_overrides["np.asarray"] = lambda it_, a, k: (seen.update(dtype=k.get("dtype")), a[0])[1]
    img = NdArr((4, 5), [Rat.atom(("x", i, j)) for i in range(4) for j in range(5)])
    K = [[0, 1, 0], [1, 1, 1], [0, 1, 1]]  # deliberately not symmetric: the test is about orientation
    ker = NdArr((3, 3), [Rat.const(v) for row in K for v in row])
    out = it.call(it.closure_of(f), [img, ker], {})
    bad = None
    for i in range(4):
        for j in range(5):
            want = Rat.const(0)
            for di in (-1, 0, 1):
                for dj in (-1, 0, 1):
                    if K[1 + di][1 + dj] and 0 <= i - di < 4 and 0 <= j - dj < 5:
                        want = want + Rat.atom(("x", i - di, j - dj))  # pixel p is covered by touch q when K[p - q + c]
            if not to_rat(out.data[i * 5 + j]).equals(want):
                bad = bad or ((i, j), to_rat(out.data[i * 5 + j]).fmt(), want.fmt())
    bool_cast = getattr(seen.get("dtype"), "name", seen.get("dtype")) in ("bool", BUILTIN_BOOL)
    ctx.ob("R25.3", "dilate_jax", bad is None and bool_cast, "pixel p is set exactly when some touch q has K[p - q + centre] set (count > 0 cast to bool): the footprint of a touch is the brush itself, centred on it, clipped at the border", bad or seen, "Minkowski dilation by the brush")
    g = ix.function("fdtdx.objects.device.parameters.discretization.circular_brush")
    ctx.unit(g.where())
    bad = []
    ds = [Fr(1), Fr(2), Fr(5, 2), Fr(3), Fr(7, 2), Fr(21, 5), Fr(5), Fr(6), Fr(69, 10), Fr(8), Fr(19, 2)]
    for d in ds:
        it = ctx.fresh_interp()
        it.ext_overrides["np.arange"] = lambda it_, a, k: NdArr((int(to_rat(a[0]).const_value()),), list(range(int(to_rat(a[0]).const_value()))))
        it.ext_overrides["math.ceil"] = lambda it_, a, k: math.ceil(to_rat(a[0]).const_value())

        def sqrt(it_, a, k):
            def one(v):
                c = to_rat(v).const_value()
                r = math.isqrt(c.numerator * c.denominator)
                if r * r == c.numerator * c.denominator:
                    return Fr(r, c.denominator)
                return Fr(math.sqrt(float(c)))  # irrational: never equal to the rational radius it is compared with

            return a[0].map(one) if isinstance(a[0], NdArr) else one(a[0])

        it.ext_overrides["np.sqrt"] = sqrt
        try:
            m = it.call(it.closure_of(g), [d], {})
        except Raised as r:
            raise AnalysisError(f"circular_brush raises: {r}")
        if not (isinstance(m, NdArr) and len(m.shape) == 2 and m.shape[0] == m.shape[1]):
            bad.append((str(d), "shape", getattr(m, "shape", m)))
            continue
        n = m.shape[0]
        B = [[bool(m.data[i * n + j]) for j in range(n)] for i in range(n)]
        sym = all(B[i][j] == B[n - 1 - i][n - 1 - j] == B[j][i] for i in range(n) for j in range(n))
        want = [[(Fr(2 * i - (n - 1), 2) ** 2 + Fr(2 * j - (n - 1), 2) ** 2) <= (d / 2) ** 2 for j in range(n)] for i in range(n)]
        if n % 2 != 1 or not sym or not B[n // 2][n // 2] or B != want:
            bad.append((str(d), n, sym))
    ctx.ob("R25.3", "circular_brush", not bad, f"for each of {len(ds)} diameters the brush has odd size, contains its centre, is the set of pixels within diameter / 2 of the centre (boundary included) and is invariant under point reflection and transposition — so `t not in D(P)` means `the footprint of t does not meet P`", bad[:3], "symmetric disc")


BUILTIN_BOOL = "bool"


def _call_budget(ctx):
    """BrushConstraint2D.__call__: the generator is run to completion for every position of the flat axis — no step
    budget, or one that is at least the number of pixels whichever axis is the flat one."""
    ix = ctx.index
    C = ix.cls(Q)
    m = C.lookup_method("__call__")
    ctx.unit(m.where())
    H, W = 5, 7
    rows = {}
    for axis in range(3):
        shape = [H, W]
        shape.insert(axis, 1)
        it = ctx.fresh_interp()
        seen = {}

        def gen(it_, a, k, _s=seen):
            _s["kwargs"] = dict(k)
            _s["extra"] = list(a[2:])
            return Val()

        stub_repo_calls(it, {"_generator": gen, "get_background_material_name": lambda it_, a, k: "air", "compute_ordered_names": lambda it_, a, k: ["air", "si"], "straight_through_estimator": lambda it_, a, k: a[1]})
        it.ext_overrides["np.take"] = lambda it_, a, k: Val()
        it.ext_overrides["np.expand_dims"] = lambda it_, a, k: a[0]
        it.ext_overrides["np.asarray"] = lambda it_, a, k: a[0]
        arr = Obj(None, {"shape": tuple(shape)}, "param")
        obj = Obj(C, dict(axis=axis, background_material=None, _materials={"air": 1, "si": 2}, brush=Obj(None, {}, "brush")), "bc")
        try:
            it.call_method(obj, "__call__", {"p": arr})
        except Raised as r:
            raise AnalysisError(f"BrushConstraint2D.__call__ raises on a design flat along axis {axis}: {r}")
        budgets = [v for k_, v in seen.get("kwargs", {}).items() if "step" in k_ or "iter" in k_] + seen.get("extra", [])
        rows[axis] = [None if b is None else int(to_rat(b).const_value()) for b in budgets]
    bad = {a: b for a, b in rows.items() if any(x is not None and x < H * W for x in b)}
    ctx.ob("R25.4", f"{Q}.__call__:generator-budget", not bad and len(rows) == 3, f"for a {H}x{W} design flat along axis 0, 1 or 2 alike the generator gets no step budget below the number of pixels ({H * W}) — a loop cut off early leaves uncovered pixels as void that no brush placement explains", rows, "None or >= H*W for every axis")


def run(ctx):
    _call_budget(ctx)
    _generator_paths(ctx)
    _dilation_and_brush(ctx)
    ctx.require_count("C25", len(ctx.obligations), 10)
    ctx.trusted_base += [
        "set algebra with the dilation as an opaque operator; implications decided by truth table over the opaque terms",
        "lemma (by hand, DESIGN.md): D is monotone and distributes over unions; for a point-symmetric brush, t not in D(P) iff footprint(t) is disjoint from P; hence rules (2)-(4) preserve D(T_s) and D(T_v) disjoint",
        "the picked pixel of an argmax over a masked array lies in the mask when the mask is not empty",
    ]
    ctx.assume("the mask a touch is picked from is not empty (existence of a valid touch while the loop runs is the paper's argument, not decided here); termination is not decided")
