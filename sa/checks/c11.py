"""C11 — complex-valued fields reproduce real-valued runs (the step is real-linear; storage type selects nothing)."""

from __future__ import annotations

import ast
import itertools

from .. import tfsf
from ..absint import StopAfter
from ..degree import degree
from ..harness import stub_repo_calls
from ..index import AnalysisError
from ..kernel import clean
from ..ndarr import NdArr
from ..poly import I, Rat
from ..scene import Scene
from ..values import Builtin, ExtRef, Obj, Raised, Unknown, to_rat
from .c10 import _is_state, _solver_scenes

LEVEL = "other"
EXPLANATION = (
    "With complex storage the state is F = Re F + i Im F.  If one step is F' = A F + s with a *real* matrix A and a "
    "*real* source term s, and no code path depends on the storage type, then Re F' = A Re F + s is the real-valued "
    "run and Im F' = A Im F stays zero from a zero start; detectors receive the same numbers.  Decided: (1) on the "
    "scenes of C10 (all material tiers, conductivities, non-uniform metric, CPML on both sides, PEC / PMC walls, "
    "zero-phase periodic faces, three switched sources in different orders) every output of the repo's `forward` — "
    "E, H and every CPML memory — is, as a polynomial in the state symbols, of degree one with coefficients that "
    "contain neither the imaginary unit nor a non-holomorphic function (abs, conj, real, imag, angle) of a state "
    "symbol; (2) the increments of the plane source with real and with complex incident profiles (quadrature pair) "
    "and of the dipoles are free of the imaginary unit; the Bloch halo correction with a zero Bloch vector is the "
    "identity (no phase factor is applied at all); (3) who-may-branch: outside the allocation in _init_arrays no "
    "function of the solver (fdtd/update.py, fdtd/forward.py, fdtd/backward.py, core/physics/curl.py, the boundary "
    "classes, the detector update methods) tests the complexness or dtype of a field array — the sites that test "
    "complexness test an incident profile, a material or a plotted signal; (4) allocation: use_complex_fields=True "
    "gives complex64 / complex128 for E, H and every CPML memory according to the configured real dtype, None follows "
    "the Bloch boundaries, False with a non-zero Bloch vector is rejected.  Round-off differences between real and "
    "complex arithmetic are not decided."
)

NON_HOLOMORPHIC = {"abs", "conj", "real", "imag", "angle", "square_abs", "conjugate"}


def _complex_free(r: Rat):
    """None, or why the expression is not a real-coefficient polynomial of the state symbols."""
    if any(a == I for a in r.atoms()):
        from ..extlib import imag_rat

        if not imag_rat(r).is_zero():
            return "the imaginary unit occurs with a non-zero imaginary part"
    for a in r.atoms():
        if isinstance(a, tuple) and a and a[0] == "call" and a[1] in NON_HOLOMORPHIC:
            for arg in a[2:]:
                if isinstance(arg, Rat) and any(_is_state(x) for x in arg.atoms()):
                    return f"{a[1]}(state) occurs"
    return None


def _job(ctx, payload):
    from .c08 import _build

    label, akw, kw, sources = payload
    it, cfg, objs, arrays, pmls = _build(ctx, akw, sources=sources, **kw)

    def opaque(fn):
        # the state symbols stand for complex numbers here: real / imag / conj / abs of them must not simplify
        def h(it_, a, k_):
            v = a[0]
            vals = v.data if isinstance(v, NdArr) else [v]
            if any(isinstance(x, Rat) and any(_is_state(y) for y in x.atoms()) for x in vals):
                mk = lambda x: Rat.atom(("call", fn, to_rat(x)))
                return v.map(mk) if isinstance(v, NdArr) else mk(v)
            return NotImplemented

        return h

    for fn in ("real", "imag", "conj", "conjugate", "abs", "angle"):
        it.ext_overrides[f"np.{fn}"] = opaque(fn)
    it.ext_overrides["np.iscomplexobj"] = lambda it_, a, k_: True  # complex storage
    f = ctx.index.function("fdtdx.fdtd.forward.forward")
    ctx.unit(f.where())
    try:
        s = it.call(it.closure_of(f), [], dict(state=(Rat.atom("t"), arrays), config=cfg, objects=objs, key=Rat.atom("key"), record_detectors=False, record_boundaries=False, simulate_boundaries=True))
    except Raised as r:
        raise AnalysisError(f"{label}: forward raises on the symbolic scene: {r}")
    flds = s[1].attrs["fields"]
    outs = []
    for F in ("E", "H"):
        arr = flds.attrs[F]
        outs += [(f"{F}{c}", clean(arr.data[c])) for c in range(3)]
    for key in ("psi_E", "psi_H"):
        for nm, pair in (flds.attrs.get(key) or {}).items():
            for slot, v in enumerate(pair):
                outs.append((f"{key}[{nm}][{slot}]", clean(v.data[0] if isinstance(v, NdArr) else v)))
    bad = None
    for nm, r in outs:
        why = _complex_free(r)
        d = degree(r, _is_state)
        if why is None and d not in ({1}, set()):
            why = f"degrees {d} in the state"
        if why:
            bad = bad or (nm, f"{why}: {r.fmt()[:220]}")
    ctx.ob("R11.1", f"forward[{label}]", bad is None, "every output of one step is a degree-one polynomial of the state symbols whose coefficients contain neither i nor abs / conj / real / imag of a state symbol: real and imaginary parts evolve independently under the same real operator" + (f" — fails for {bad[0]}" if bad else ""), bad[1] if bad else f"{len(outs)} outputs", "real-linear")


def _sources(ctx):
    n = 0
    bad = []
    for kind, axis, cplx, (ec, mc) in itertools.product("EH", range(3), (False, True), ((3, 3), (9, 9), (1, 0))):
        try:
            out = tfsf.plane_update(ctx, kind, axis, "+", False, ec, mc, cplx, False)
        except Raised as r:
            raise AnalysisError(f"TFSFPlaneSource.update_{kind} raises: {r}")
        for c in range(3):
            n += 1
            r = to_rat(out.data[c])
            from ..extlib import imag_rat

            if not imag_rat(r).is_zero():  # also catches an imaginary unit hidden inside an opaque call such as exp(i x)
                bad.append((kind, axis, "complex incident" if cplx else "real incident", r.fmt()[:160]))
    ctx.ob("R11.2", "TFSFPlaneSource.update_E/update_H", not bad and n >= 100, "the injected increment is a real expression for real and for complex incident profiles alike (the complex profile enters through its real and imaginary parts times a quadrature pair of real amplitudes)", bad[:2], "no imaginary unit")
    # zero Bloch vector: the halo correction is the identity
    ix = ctx.index
    B = ix.cls("fdtdx.objects.boundaries.bloch.BlochBoundary")
    m = B.lookup_method("apply_pad_correction")
    ctx.unit(m.where())
    it = ctx.fresh_interp()
    sc = Scene(ix, it)
    from ..scene import vec

    okb = True
    for axis in range(3):
        b = Obj(B, dict(name="b", axis=axis, direction="-", bloch_vector=(0, 0, 0), _config=sc.config(), _grid_slice_tuple=((0, 1), (0, 1), (0, 1))), "b")
        F = it.call_function("fdtdx.core.misc.pad_fields", vec("E"), (True, True, True))
        try:
            out = it.call(it.getattr(b, "apply_pad_correction"), [F], dict(volume_shape=(Rat.atom("Nx"), Rat.atom("Ny"), Rat.atom("Nz")), resolution=Rat.atom("res")))
        except (Raised, AnalysisError):
            try:
                out = it.call(it.getattr(b, "apply_pad_correction"), [F], {})
            except (Raised, AnalysisError) as e:
                raise AnalysisError(f"apply_pad_correction: {e}")
        okb = okb and isinstance(out, NdArr) and all(to_rat(x).equals(to_rat(y)) for x, y in zip(out.data, F.data))
    ctx.ob("R11.2", "BlochBoundary.apply_pad_correction[k = 0]", okb, "with a zero Bloch vector the periodic halo is left exactly as it is — no factor exp(i 0) is multiplied in", okb, "identity")


def _other_sources(ctx):
    """sources outside the TFSF family: (a) the hard plane source writes a real value on both its E and its H branch;
    (b) who-may-call: the complex effective inverse permittivity (which keeps the material loss as an imaginary part)
    is taken only by the mode solver's set-up, never by a source that multiplies it into an injected value."""
    from ..extlib import imag_rat
    from ..harness import stub_repo_calls
    from ..scene import vec

    ix = ctx.index
    Hs = ix.cls("fdtdx.objects.sources.source.HardConstantAmplitudePlanceSource")
    bad, n = [], 0
    for kind in "EH":
        m = Hs.lookup_method(f"update_{kind}")
        ctx.unit(m.where())
        it = ctx.fresh_interp()
        sc = Scene(ix, it)
        pol = (NdArr((3,), [Rat.atom(f"pe{c}") for c in range(3)]), NdArr((3,), [Rat.atom(f"ph{c}") for c in range(3)]))
        stub_repo_calls(it, {"normalize_polarization_for_source": lambda it_, a, k, _p=pol: _p})
        wc = Obj(None, {"get_period": Builtin("get_period", lambda it_, a, k: Rat.atom("T")), "phase_shift": Rat.atom("phi")}, "wave")
        absint_ints = ("s_xmin", "s_xmax", "s_ymin", "s_ymax", "s_zmin", "s_zmax")
        from .. import absint

        absint.INTEGER_ATOMS.update(absint_ints)
        gst = tuple((Rat.atom(f"s_{a}min"), Rat.atom(f"s_{a}max")) for a in "xyz")
        src = Obj(Hs, dict(name="hard", amplitude=Rat.atom("amp"), static_amplitude_factor=Rat.atom("A"), wave_character=wc, direction="+", propagation_axis=0, fixed_E_polarization_vector=None, fixed_H_polarization_vector=None, _config=sc.config(), _grid_slice_tuple=gst), "hard")
        try:
            out = it.call_method(src, f"update_{kind}", vec(kind), vec("ie"), vec("im"), Rat.atom("t"), False)
        except Raised as r:
            raise AnalysisError(f"HardConstantAmplitudePlanceSource.update_{kind} raises: {r}")
        if not (isinstance(out, NdArr) and out.shape == (3,)):
            raise AnalysisError(f"HardConstantAmplitudePlanceSource.update_{kind} returned {out!r}")
        for c in range(3):
            n += 1
            r = to_rat(out.data[c])
            if not imag_rat(r).is_zero():
                bad.append((kind, c, r.fmt()[:200]))
    ctx.ob("R11.2", "HardConstantAmplitudePlanceSource.update_E/update_H", not bad and n == 6, "the value the hard source writes is the real part of amplitude * exp(-i (w t + phase)) times real polarisation components, on the E and on the H branch alike — nothing imaginary is left for complex storage to keep", bad[:2], "no imaginary part")
    NAME = "effective_complex_inv_permittivity"
    callers = set()
    for mi in ix.modules.values():
        fns = list(mi.functions.values()) + [m_ for c_ in getattr(mi, "classes", {}).values() for m_ in c_.methods.values()]
        for fi in fns:
            for node in ast.walk(fi.node):
                if isinstance(node, ast.Call) and ast.unparse(node.func).split(".")[-1] == NAME:
                    callers.add(mi.name)
    allowed = {"fdtdx.objects.sources.mode", "fdtdx.objects.detectors.mode", "fdtdx.dispersion"}
    ctx.ob("R11.6", "effective_complex_inv_permittivity:callers", callers <= allowed and len(callers) >= 2, "the loss-carrying complex inverse permittivity is requested only by the mode set-up (whose profile is made real unless the quadrature injection applies, R11.5); dipoles and plane sources sample the real effective value, so no material loss can enter an injected value as an imaginary part", sorted(callers), sorted(allowed))


COMPLEX_TESTS = ("iscomplexobj", "iscomplex", "complexfloating", "isrealobj", "use_complex_fields", "needs_complex_fields")
SOLVER_MODULES = ("fdtdx.fdtd.update", "fdtdx.fdtd.forward", "fdtdx.fdtd.backward", "fdtdx.fdtd.misc", "fdtdx.core.physics.curl")


def _who_may_branch(ctx):
    ix = ctx.index
    hits, all_sites = [], []
    for mi in ix.modules.values():
        in_solver = mi.name in SOLVER_MODULES or mi.name.startswith("fdtdx.objects.boundaries.")
        is_detector = mi.name.startswith("fdtdx.objects.detectors.")
        for fi in list(mi.functions.values()) + [m for c in mi.classes.values() for m in c.methods.values()] if hasattr(mi, "classes") else list(mi.functions.values()):
            for node in ast.walk(fi.node):
                txt = None
                if isinstance(node, ast.Attribute) and node.attr in COMPLEX_TESTS:
                    txt = ast.unparse(node)
                elif isinstance(node, ast.Name) and node.id in COMPLEX_TESTS:
                    txt = node.id
                if txt is None:
                    continue
                site = f"{mi.name}.{fi.name}: {txt}"
                all_sites.append(site)
                # allowed inside the solver: the Bloch boundary's own predicate (a function of its vector, not of the fields)
                if in_solver and not (mi.name.endswith(".bloch") or "needs_complex_fields" in txt and mi.name.startswith("fdtdx.objects.boundaries")):
                    hits.append(site)
                if is_detector and fi.name in ("update", "_update") :
                    hits.append(site)
    ctx.ob("R11.3", "solver:no-branch-on-storage-type", not hits, "no function of the time loop, of a boundary's halo / wall hooks or of a detector's update tests whether the fields are complex: real and complex storage run the same code", hits[:4], "none")
    # positive example: the test sees the known sites elsewhere
    ctx.ob("R11.3", "complexness-tests:inventory", len(all_sites) >= 6 and any("_init_arrays" in s for s in all_sites), "the scan does find the complexness tests that exist (allocation, incident-profile tests of the plane source, Bloch predicate)", len(all_sites), ">= 6 incl. _init_arrays", nontrivial=False)


def _allocation(ctx):
    ix = ctx.index
    f = ix.function("fdtdx.fdtd.initialization._init_arrays")
    ctx.unit(f.where())
    # stop after psi_H is built
    target = None
    for st in f.node.body:
        if isinstance(st, ast.Assign) and isinstance(st.targets[0], ast.Name) and st.targets[0].id == "psi_H":
            target = st
    if target is None:
        raise AnalysisError("_init_arrays no longer assigns psi_H at its top level")
    BLO = ix.cls("fdtdx.objects.boundaries.bloch.BlochBoundary")
    PMLc = ix.cls("fdtdx.objects.boundaries.perfectly_matched_layer.PerfectlyMatchedLayer")
    f32, f64 = ExtRef("jax.numpy.float32"), ExtRef("jax.numpy.float64")
    c64, c128 = "jax.numpy.complex64", "jax.numpy.complex128"
    rows = []
    for use, kvec, dt in itertools.product((None, True, False), ((0, 0, 0), (0, 2, 0)), (f32, f64)):
        it = ctx.fresh_interp()
        sc = Scene(ix, it)
        made = []

        def csm(it_, a, k):
            made.append(k.get("dtype"))
            return Rat.atom(("arr", len(made)))

        stub_repo_calls(it, {"create_named_sharded_matrix": csm, "_warn_if_simulation_volume_too_large": lambda it_, a, k: None})
        it.ext_overrides["np.zeros"] = lambda it_, a, k: (made.append(k.get("dtype")), Rat.atom(("psi", len(made))))[1]
        bl = Obj(BLO, dict(name="bl", axis=1, direction="-", bloch_vector=kvec), "bl")
        pml = Obj(PMLc, dict(name="pml", axis=0, direction="-", grid_shape=(2, 3, 4)), "pml")
        vol = Obj(None, dict(grid_shape=(4, 4, 4)), "volume")
        objs = Obj(None, dict(volume=vol, boundary_objects=[bl, pml], pml_objects=[pml]), "objects")
        cfg = sc.config(resolve_grid=Builtin("resolve_grid", lambda it_, a, k: Obj(None, {"shape": a[0]}, "grid")), use_complex_fields=use, dtype=dt, backend="cpu")
        it.stop_after.add(id(target))
        outcome = None
        try:
            it.call(it.closure_of(f), [objs, cfg], {})
        except StopAfter:
            outcome = [getattr(d, "name", d) for d in made]
        except Raised as r:
            outcome = f"raises {r.exc_name}"
        needs = kvec[1] != 0
        if use is False and needs:
            want = "raises ValueError"
        else:
            cplx = needs if use is None else use
            dn = (c64 if dt is f32 else c128) if cplx else dt.name
            want = [dn] * 6  # E, H, two memories for psi_E and two for psi_H of the one layer
        rows.append((use, kvec, dt.name.split(".")[-1], outcome, want))
    bad = [r for r in rows if r[3] != r[4]]
    ctx.ob("R11.4", "_init_arrays:field-dtype", not bad and len(rows) == 12, "E, H and every CPML memory are allocated with one dtype: complex64 / complex128 (matching the configured real dtype) when complex fields are requested or required by a non-zero Bloch vector, the configured real dtype otherwise; use_complex_fields=False with a non-zero Bloch vector is rejected (12 combinations)", bad[:2], "one dtype per run")


def _complex_profile_vs_filter(ctx):
    """ModePlaneSource.apply: the modal profile is kept complex only on paths on which no filtered temporal profile
    is stored — the injection's quadrature branch (real increments) is taken only without a filter, so a complex
    profile together with a filter would inject complex numbers."""
    ix = ctx.index
    m = ix.cls("fdtdx.objects.sources.mode.ModePlaneSource").lookup_method("apply")
    ctx.unit(m.where())
    defs = {}
    for st in ast.walk(m.node):
        if isinstance(st, ast.Assign) and len(st.targets) == 1 and isinstance(st.targets[0], ast.Name):
            defs.setdefault(st.targets[0].id, []).append(st.value)
    real_if = filt_if = None
    for st in ast.walk(m.node):
        if not isinstance(st, ast.If):
            continue
        body_src = "\n".join(ast.unparse(x) for x in st.body)
        if "jnp.real(" in body_src and any(isinstance(x, ast.Assign) and isinstance(x.targets[0], ast.Tuple) for x in st.body):
            real_if = st
        for c in ast.walk(ast.Module(body=st.body, type_ignores=[])):
            if isinstance(c, ast.Call) and isinstance(c.func, ast.Attribute) and c.func.attr == "aset" and c.args and isinstance(c.args[0], ast.Constant) and c.args[0].value == "_temporal_H_filter" and not (isinstance(c.args[1], ast.Constant) and c.args[1].value is None):
                filt_if = st
    if real_if is None or filt_if is None:
        raise AnalysisError("ModePlaneSource.apply: cannot locate the real-projection branch or the filter branch")

    def resolve(node, depth=0):
        if isinstance(node, ast.Name) and node.id in defs and len(defs[node.id]) == 1 and depth < 3 and isinstance(defs[node.id][0], (ast.BoolOp, ast.Compare, ast.UnaryOp)):
            return resolve(defs[node.id][0], depth + 1)
        if isinstance(node, ast.BoolOp):
            return ast.BoolOp(op=node.op, values=[resolve(v, depth) for v in node.values])
        if isinstance(node, ast.UnaryOp) and isinstance(node.op, ast.Not):
            return ast.UnaryOp(op=ast.Not(), operand=resolve(node.operand, depth))
        return node

    def atoms(node, out):
        if isinstance(node, ast.Compare) and len(node.ops) == 1 and isinstance(node.ops[0], (ast.Is, ast.IsNot)) and isinstance(node.left, ast.Name) and isinstance(node.comparators[0], ast.Constant) and node.comparators[0].value is None:
            out.add(node.left.id)
        elif isinstance(node, ast.BoolOp):
            for v in node.values:
                atoms(v, out)
        elif isinstance(node, ast.UnaryOp):
            atoms(node.operand, out)
        else:
            raise AnalysisError(f"ModePlaneSource.apply: condition not made of `x is (not) None` tests: {ast.unparse(node)}")
        return out

    def ev(node, present):
        if isinstance(node, ast.Compare):
            p_ = present[node.left.id]
            return p_ if isinstance(node.ops[0], ast.IsNot) else not p_
        if isinstance(node, ast.BoolOp):
            vals = [ev(v, present) for v in node.values]
            return all(vals) if isinstance(node.op, ast.And) else any(vals)
        return not ev(node.operand, present)

    proj_test = resolve(real_if.test)  # true -> projected to real
    filt_test = resolve(filt_if.test)
    names = sorted(atoms(proj_test, set()) | atoms(filt_test, set()))
    clash = []
    for bits in itertools.product((False, True), repeat=len(names)):
        present = dict(zip(names, bits))
        if (not ev(proj_test, present)) and ev(filt_test, present):
            clash.append({n: ("given" if b else "None") for n, b in present.items()})
    ctx.ob("R11.5", "ModePlaneSource.apply:complex-profile-vs-filter", not clash and len(names) >= 2, f"over all {2 ** len(names)} combinations of present / absent conductivity and dispersive arrays, the modal profile is never left complex on a path that also stores a filtered temporal profile (the filtered injection multiplies the profile as it is, without the real quadrature decomposition)", clash[:2], "no combination")


def run(ctx):
    from .. import par

    _who_may_branch(ctx)
    _allocation(ctx)
    _sources(ctx)
    _other_sources(ctx)
    _complex_profile_vs_filter(ctx)
    jobs = _solver_scenes()
    err = par.run_jobs(ctx, "sa.checks.c11", "_job", jobs, [j[0] for j in jobs])
    if err:
        raise AnalysisError(err)
    ctx.require_count("C11", len(ctx.obligations), len(jobs) + 5)
    ctx.trusted_base += [
        "a polynomial with real coefficients maps real inputs to real outputs and acts separately on real and imaginary parts",
        "abstract source model of C10; opaque temporal profile (real-valued)",
        "prefix slicing of _init_arrays after the CPML memories are allocated",
    ]
    ctx.assume("zero Bloch phase (the property's own restriction); materials, conductivities and CPML coefficients are real arrays")
