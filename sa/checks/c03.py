"""C03 — the full backward pass reconstructs interior fields despite absorbing layers (record / restore plumbing)."""

from __future__ import annotations

import itertools

from .. import absint
from ..absint import region_key
from ..driver import Driver, Facts, StepHarness, atom, dyn_signature, integer_atom, leaf_key
from ..harness import stub_repo_calls
from ..index import AnalysisError
from ..ndarr import NdArr
from ..poly import Rat
from ..scene import vec
from ..values import AbsVal, Builtin, Obj, Raised, to_rat
from .c04 import _source_times

LEVEL = "other"
EXPLANATION = (
    "A reverse step reproduces the interior exactly (C02) provided every value it reads from outside the interior is "
    "the forward value of the same step.  The only such reads are one cell deep (the curls' one-cell differences), "
    "into the layer cell adjacent to the interior.  Decided on the code: (1) collect_interfaces -> Recorder.compress "
    "(no modules: the lossless case) -> Recorder.decompress -> add_interfaces, interpreted end to end on symbolic "
    "fields with absorbing layers on every axis and side and recording buffers of arbitrary prior content, puts back "
    "at time index t exactly the E and H that were collected at index t, at exactly the cells they were taken from, "
    "whatever the buffers held before, and touches nothing else; those cells are the layer cells adjacent to the "
    "interior (last cell of a min-side slab, first cell of a max-side slab), interface_slice, interface_slice_tuple and "
    "interface_grid_shape agree with each other and with the shapes _init_arrays declares to the recorder; (2) "
    "`forward` records after both field updates with the pre-increment step index and returns index + 1, `backward` "
    "decrements first and restores at that same index before the reverse updates, which run H then E (the inverse "
    "order of the forward E then H); the layer reset runs after both reverse updates over all boundaries for E and H, "
    "and detectors see the restored H as the time-centring partner; (3) PerfectlyMatchedLayer.apply_field_reset zeroes "
    "exactly its own slab in every field handed to it; (4) full_backward steps from the current index down to "
    "start_time_step (exclusive exit) with the caller's flags; (5) the reverse updates evaluate every source at the "
    "forward call's time.  Exactness of the interior reverse update is C02's; grading at the inner face is C12's."
)

PML = "fdtdx.objects.boundaries.perfectly_matched_layer.PerfectlyMatchedLayer"
AX = "xyz"


class TimeBuf(AbsVal):
    """A time-indexed recording buffer: arbitrary old content plus a log of writes."""

    is_array = True

    def __init__(self, name, writes=()):
        self.name = name
        self.writes = tuple(writes)

    def old(self, idx):
        return ("old", self.name, to_rat(idx).fmt())

    def av_getattr(self, name):
        if name == "at":
            return _BufAt(self)
        if name in ("shape", "dtype", "ndim"):
            raise AnalysisError(f"TimeBuf.{name}")
        raise AnalysisError(f"TimeBuf: attribute {name}")

    def read(self, idx):
        idx = to_rat(idx)
        val = None
        for widx, op, v in self.writes:
            if not to_rat(widx).equals(idx):
                # a write at another (symbolically different) index: undecidable aliasing
                raise AnalysisError(f"recording buffer read at {idx.fmt()} after a write at {to_rat(widx).fmt()}")
            if op == "set":
                val = ("set", v)
            else:
                val = ("add", v, val)
        return val

    def av_ext(self, name, args, kwargs, interp=None):
        if name == "np.take" and args and args[0] is self:
            idx = kwargs.get("indices", args[1] if len(args) > 1 else None)
            if isinstance(idx, NdArr) and len(idx.data) == 1:
                idx = idx.data[0]
            return _Taken(self, idx)
        return NotImplemented


class _BufAt(AbsVal):
    def __init__(self, buf):
        self.buf = buf

    def av_getitem(self, idx):
        b = self.buf
        mk = lambda op: Builtin(op, lambda it, a, k: TimeBuf(b.name, b.writes + ((idx, op, a[0]),)))
        return Obj(None, {"set": mk("set"), "add": mk("add")}, "at[idx]")


class _Taken(AbsVal):
    """Result of jnp.take(buffer, [idx], axis=0): one leading axis of length one."""

    def __init__(self, buf, idx):
        self.buf, self.idx = buf, idx

    def av_getattr(self, name):
        if name == "squeeze":
            def sq(it, a, k):
                r = self.buf.read(self.idx)
                if r is None:
                    return Rat.atom(self.buf.old(self.idx))
                if r[0] == "set":
                    return r[1]
                # accumulated on top of what was there
                base = Rat.atom(self.buf.old(self.idx)) if r[2] is None else None
                if base is None:
                    raise AnalysisError("nested accumulation in a recording buffer")
                v = r[1]
                return v.map(lambda x: to_rat(x) + base) if isinstance(v, NdArr) else to_rat(v) + base

            return Builtin("squeeze", sq)
        raise AnalysisError(f"taken slice: attribute {name}")


def _pmls(ctx, sides):
    ix = ctx.index
    P = ix.cls(PML)
    out = []
    for axis, direction in sides:
        names = []
        gst = []
        for a in range(3):
            lo, hi = f"p{axis}{'m' if direction == '-' else 'p'}_{AX[a]}lo", f"p{axis}{'m' if direction == '-' else 'p'}_{AX[a]}hi"
            absint.INTEGER_ATOMS.update((lo, hi))
            gst.append((Rat.atom(lo), Rat.atom(hi)))
        out.append(Obj(P, dict(name=f"pml_{AX[axis]}{'min' if direction == '-' else 'max'}", axis=axis, direction=direction, _grid_slice_tuple=tuple(gst)), f"pml{axis}{direction}"))
    return out


def _iface_region(p):
    """Oracle: the slab cell adjacent to the interior."""
    axis, direction = p.attrs["axis"], p.attrs["direction"]
    sl = []
    for a, (lo, hi) in enumerate(p.attrs["_grid_slice_tuple"]):
        if a == axis:
            sl.append(slice(hi - 1, hi, None) if direction == "-" else slice(lo, lo + 1, None))
        else:
            sl.append(slice(lo, hi, None))
    return tuple(sl)


def _ind(region):
    return Rat.atom(("ind", ("region", region_key(region))))


def _record_restore(ctx, scenes=None):
    ix = ctx.index
    for f in ("fdtdx.fdtd.update.collect_interfaces", "fdtdx.fdtd.update.add_interfaces", "fdtdx.fdtd.misc.collect_boundary_interfaces", "fdtdx.fdtd.misc.add_boundary_interfaces"):
        ctx.unit(ix.function(f).where())
    R = ix.cls("fdtdx.interfaces.recorder.Recorder")
    for m in ("compress", "decompress"):
        ctx.unit(R.lookup_method(m).where())
    all_sides = [(a, d) for a in range(3) for d in "-+"]
    scenes = scenes or [all_sides, [(2, "-")], [(0, "+"), (1, "-")]]
    t = integer_atom("t")
    n = 0
    for sides in scenes:
        pmls = _pmls(ctx, sides)
        it = ctx.fresh_interp()
        stub_repo_calls(it, {"fdtdx.core.jax.utils.check_shape_dtype": lambda it_, a, k: None})
        facts = Facts([t])
        drv = Driver.__new__(Driver)
        drv.facts = facts
        oracle = lambda op, d, _d=drv: Driver._oracle(_d, op, d)
        recorder = Obj(R, dict(modules=[], _input_shape_dtypes={}, _output_shape_dtypes={}, _max_time_steps=integer_atom("T"), _latent_array_size=integer_atom("T")), "recorder")
        cfg = Obj(None, {"gradient_config": Obj(None, {"recorder": recorder}, "gradient_config")}, "config")
        objects = Obj(None, {"pml_objects": pmls}, "objects")
        RS = ix.cls("fdtdx.interfaces.state.RecordingState")
        AC, FS = ix.cls("fdtdx.fdtd.container.ArrayContainer"), ix.cls("fdtdx.fdtd.container.FieldState")
        data0 = {f"{p.attrs['name']}_{F}": TimeBuf(f"{p.attrs['name']}_{F}") for p in pmls for F in "EH"}

        def container(tag, rec):
            return Obj(AC, dict(fields=Obj(FS, dict(E=vec(f"E{tag}"), H=vec(f"H{tag}"), psi_E={}, psi_H={}, dispersive_P_curr=None, dispersive_P_prev=None), "fields"),
                                inv_permittivities=atom("ie"), inv_permeabilities=atom("im"), detector_states={}, recording_state=rec), f"arrays{tag}")

        A1 = container("1", Obj(RS, dict(data=dict(data0), state={}), "rec"))
        label = "+".join(p.attrs["name"] for p in pmls) if len(pmls) < 6 else "all six faces"
        absint.COMPARE_ORACLES.append(oracle)
        try:
            try:
                A1r = it.call_function("fdtdx.fdtd.update.collect_interfaces", time_step=t, arrays=A1, objects=objects, config=cfg, key=atom("key"))
                A2 = container("2", A1r.attrs["recording_state"])
                A2r = it.call_function("fdtdx.fdtd.update.add_interfaces", time_step=t, arrays=A2, objects=objects, config=cfg, key=atom("key"))
            except Raised as r:
                raise AnalysisError(f"interface record / restore raises: {r}")
        finally:
            absint.COMPARE_ORACLES.remove(oracle)
        # what was written
        rec = A1r.attrs["recording_state"].attrs["data"]
        bad = []
        for k_, buf in rec.items():
            if not (isinstance(buf, TimeBuf) and len(buf.writes) == 1 and buf.writes[0][1] == "set" and to_rat(buf.writes[0][0]).equals(t)):
                bad.append((k_, [(to_rat(w[0]).fmt(), w[1]) for w in getattr(buf, "writes", ())]))
        ctx.ob("R3.1", f"collect_interfaces[{label}]:writes", not bad and set(rec) == set(data0), "every buffer receives exactly one overwrite (not an accumulation) at time index t; no buffer is added or dropped", bad[:3], "one .set at index t per buffer")
        ok_fields1 = all(to_rat(a).equals(to_rat(b)) for F in "EH" for a, b in zip(A1r.attrs["fields"].attrs[F].data, A1.attrs["fields"].attrs[F].data))
        ctx.ob("R3.1", f"collect_interfaces[{label}]:fields-untouched", ok_fields1, "recording does not modify the fields", ok_fields1, True)
        # what is put back
        for F in "EH":
            got = A2r.attrs["fields"].attrs[F]
            src, dst = vec(f"{F}1"), vec(f"{F}2")
            badc = None
            for c in range(3):
                x = to_rat(dst.data[c])
                for p in pmls:
                    x = x + _ind(_iface_region(p)) * (to_rat(src.data[c]) - x)
                if not to_rat(got.data[c]).equals(x):
                    badc = badc or (c, to_rat(got.data[c]).fmt()[:300], x.fmt()[:300])
            n += 1
            ctx.ob("R3.1", f"add_interfaces[{label}]:{F}", badc is None, f"after the restore at index t, {F} equals the {F} collected at index t on the slab cell adjacent to the interior of every layer (last cell of a min-side slab, first cell of a max-side slab) and is untouched elsewhere — independently of the buffers' previous content" + (f" — component {badc[0]} differs" if badc else ""), badc[1] if badc else "3 components", badc[2] if badc else "recorded values at the interface cells")
    ctx.require_count("R3.1 restore cases", n, min(6, 2 * len(scenes)))


def _slices(ctx):
    ix = ctx.index
    P = ix.cls(PML)
    for m in ("interface_slice", "interface_slice_tuple", "interface_grid_shape"):
        ctx.unit(P.lookup_method(m).where())
    it = ctx.fresh_interp()
    bad = []
    for axis, direction in itertools.product(range(3), "-+"):
        (p,) = _pmls(ctx, [(axis, direction)])
        sl = it.call_method(p, "interface_slice")
        tp = it.call_method(p, "interface_slice_tuple")
        want = _iface_region(p)
        got_sl = tuple((to_rat(s.start).fmt(), to_rat(s.stop).fmt()) for s in sl)
        got_tp = tuple((to_rat(a).fmt(), to_rat(b).fmt()) for a, b in tp)
        w = tuple((to_rat(s.start).fmt(), to_rat(s.stop).fmt()) for s in want)
        if got_sl != w or got_tp != w:
            bad.append((axis, direction, got_sl, got_tp, w))
        # shape: the layer's own shape with extent one along its axis
        shp = tuple(Rat.atom(f"n{a}") for a in range(3))
        q = p.replace(grid_shape=shp)
        gs = it.call_method(q, "interface_grid_shape")
        wshape = tuple("1" if a == axis else f"n{a}" for a in range(3))
        if tuple(to_rat(x).fmt() for x in gs) != wshape:
            bad.append((axis, direction, "shape", tuple(to_rat(x).fmt() for x in gs), wshape))
    ctx.ob("R3.4", f"{PML}:interface-tables", not bad, "interface_slice and interface_slice_tuple both select the slab cell adjacent to the interior (min side: last cell, max side: first cell, full transverse extent), interface_grid_shape is the slab shape with extent one along the layer's axis (6 layers)", bad[:2], "adjacent cell")
    _declared_shapes(ctx)


def _declared_shapes(ctx):
    """What _init_arrays declares to the recorder, read off by interpreting the function up to that statement on a
    scene with three absorbing layers: one entry per key collect_boundary_interfaces produces, with its shape."""
    import ast
    import math

    from ..absint import StopAfter
    from ..harness import mk_material
    from ..scene import SP, Scene
    from ..values import Unknown

    ix = ctx.index
    fi = ix.function("fdtdx.fdtd.initialization._init_arrays")
    ctx.unit(fi.where())
    stop = None
    for st in fi.node.body:
        if isinstance(st, ast.If) and "recorder" in ast.unparse(st.test):
            stop = st
    if stop is None:
        raise AnalysisError("_init_arrays no longer has a top-level statement that initialises the recorder")
    it = ctx.fresh_interp()
    sc = Scene(ix, it)
    V = ix.cls("fdtdx.objects.static_material.static.SimulationVolume")
    one = (1, 0, 0, 0, 1, 0, 0, 0, 1)
    zero = (0,) * 9
    mat = mk_material(it, permittivity=one, permeability=one, electric_conductivity=zero, magnetic_conductivity=zero)
    vol = Obj(V, dict(name="vol", placement_order=-1000, material=mat, _grid_slice_tuple=((0, Rat.atom("Nx")), (0, Rat.atom("Ny")), (0, Rat.atom("Nz"))), grid_shape=(Rat.atom("Nx"), Rat.atom("Ny"), Rat.atom("Nz"))), "vol")
    pmls = _pmls(ctx, [(0, "-"), (1, "+"), (2, "-")])
    for p_ in pmls:
        p_.attrs["grid_shape"] = tuple(hi - lo for lo, hi in p_.attrs["_grid_slice_tuple"])
    OC = ix.cls("fdtdx.fdtd.container.ObjectContainer")
    oc = Obj(OC, {"object_list": [vol] + pmls, "volume_idx": 0}, "objects")
    declared = {}

    def init_state(it_, a, k):
        declared.update({kk: (tuple(v.attrs["shape"]), v.attrs["dtype"]) for kk, v in k["input_shape_dtypes"].items()})
        declared["__max_time_steps__"] = k.get("max_time_steps")
        return (recorder, Obj(None, {}, "recording_state"))

    recorder = Obj(None, {"init_state": Builtin("init_state", init_state)}, "recorder")
    GC = ix.cls("fdtdx.config.GradientConfig")
    gc = Obj(GC, dict(method="reversible", recorder=recorder, num_checkpoints=None, num_checkpoints_reversible=0), "gradient_config")

    def csm(it_, a, k):
        shape = k.get("shape", a[0] if a else None)
        lead = tuple(int(x) for x in shape[:-3])
        return NdArr(lead, [k.get("value", 0)] * math.prod(lead), SP)

    def sps(it_, a, k):
        arr, idx, val = a[0], a[1], a[2]
        return it_.call(it_.getattr(it_.getitem(it_.getattr(arr, "at"), idx), "set"), [val], {})

    stub_repo_calls(it, {"create_named_sharded_matrix": csm, "sharding_preserving_set": sps, "_warn_if_simulation_volume_too_large": lambda it_, a, k: None})
    it.ext_overrides["jax.ShapeDtypeStruct"] = lambda it_, a, k: Obj(None, dict(shape=k.get("shape", a[0] if a else ()), dtype=k.get("dtype", a[1] if len(a) > 1 else None)), "sds")
    it.ext_overrides["np.zeros"] = lambda it_, a, k: Rat.const(0)
    cfg = sc.config(resolve_grid=Builtin("resolve_grid", lambda it_, a, k: Obj(None, {"shape": a[0]}, "grid")), use_complex_fields=None, dtype="real_dtype", backend="cpu", courant_number=Rat.atom("courant"), gradient_config=gc, time_steps_total=integer_atom("T"))
    it.stop_after.add(id(stop))
    try:
        it.call(it.closure_of(fi), [oc, cfg], {})
        raise AnalysisError("_init_arrays returned before the recorder was initialised")
    except StopAfter:
        pass
    except Raised as r:
        raise AnalysisError(f"_init_arrays raises on the scene: {r}")
    want = {}
    for p_ in pmls:
        shape = tuple(1 if a == p_.attrs["axis"] else (hi - lo) for a, (lo, hi) in enumerate(p_.attrs["_grid_slice_tuple"]))
        for F in "EH":
            want[f"{p_.attrs['name']}_{F}"] = (3,) + shape
    got = {k: v[0] for k, v in declared.items() if k != "__max_time_steps__"}
    same_keys = set(got) == set(want)
    same_shapes = same_keys and all(len(got[k]) == 4 and all(to_rat(x).equals(to_rat(y)) for x, y in zip(got[k], want[k])) for k in want)
    dtypes = {v[1] for k, v in declared.items() if k != "__max_time_steps__"}
    tmax = declared.get("__max_time_steps__")
    ok_t = tmax is not None and to_rat(tmax).equals(integer_atom("T"))
    ctx.ob("R3.4", "_init_arrays:recorder-declaration", same_keys and same_shapes and dtypes == {"real_dtype"} and ok_t, "the recorder is initialised for time_steps_total steps with one entry '<layer>_E' and one '<layer>_H' per absorbing layer, of the field dtype and of shape (3, slab shape with extent one along the layer's axis) — the keys and shapes collect_boundary_interfaces produces", {k: tuple(to_rat(x).fmt() for x in v) for k, v in got.items()}, {k: tuple(to_rat(x).fmt() for x in v) for k, v in want.items()})


def _step_order(ctx):
    t = integer_atom("t")
    sh = StepHarness(ctx)
    f = sh.forward(record_detectors=True, record_boundaries=True, simulate_boundaries=True)
    names = [c[0] for c in f["calls"]]
    times = [to_rat(c[1]).fmt() for c in f["calls"]]
    hprev = leaf_key(f["arr_in"].attrs["fields"].attrs["H"])
    det = next((c for c in f["calls"] if c[0] == "update_detector_states"), None)
    ok = names == ["update_E", "update_H", "collect_interfaces", "update_detector_states"] and set(times) == {"t"} and f["t_out"].equals(t + 1)
    ok_det = det is not None and det[2].get("H_prev") == hprev and det[2].get("inverse") is False
    ctx.ob("R3.2", "fdtdx.fdtd.forward.forward:order", ok and ok_det, "E update, H update, then the interfaces are recorded (after both updates) with the pre-increment step index, then detectors with the step's initial H as partner; the step returns index + 1", list(zip(names, times)), "update_E, update_H, collect_interfaces, update_detector_states @ t -> t + 1")
    sims = {c[0]: c[2].get("simulate_boundaries") for c in f["calls"] if c[0] in ("update_E", "update_H")}
    ctx.ob("R3.2", "fdtdx.fdtd.forward.forward:flags", sims == {"update_E": True, "update_H": True}, "simulate_boundaries reaches both field updates", sims, True)
    sh = StepHarness(ctx)
    b = sh.backward(record_detectors=True, reset_fields=True)
    names = [c[0] for c in b["calls"]]
    times = [to_rat(c[1]).fmt() if isinstance(c[1], Rat) else c[1] for c in b["calls"]]
    want = ["add_interfaces", "update_H_reverse", "update_E_reverse", "apply_field_reset", "apply_field_reset", "update_detector_states"]
    ok = names == want and all(tm == "t" for nm, tm in zip(names, times) if nm != "apply_field_reset") and b["t_out"].equals(t)
    resets = [c for c in b["calls"] if c[0] == "apply_field_reset"]
    ok_reset = [c[1] for c in resets] == [0, 1] and all(c[2] == ("E", "H") for c in resets)
    # H handed to the detectors: the H right after the restore
    add_out_H = None
    hr = next((c for c in b["calls"] if c[0] == "update_H_reverse"), None)
    det = next((c for c in b["calls"] if c[0] == "update_detector_states"), None)
    ok_det = False
    if hr is not None and det is not None:
        sig = hr[3]
        # the H leaf inside the state seen by update_H_reverse
        hkey = None
        if isinstance(sig, tuple) and sig[0] == "M":
            hkey = dict(sig[1]).get(("fields", "H"))
        ok_det = det[2].get("H_prev") == hkey and det[2].get("inverse") is True and hkey is not None and hkey[2][0] == "add_interfaces"
    ctx.ob("R3.3", "fdtdx.fdtd.backward.backward:order", ok and ok_reset and ok_det, "the step index is decremented first; the interfaces recorded at that index are restored before the reverse updates, which run H then E; afterwards every boundary resets E and H; detectors get the restored H as partner with inverse=True; the step returns the decremented index", list(zip(names, times)), "add_interfaces, update_H_reverse, update_E_reverse, reset x boundaries, detectors @ t from t + 1")
    # flags off
    sh = StepHarness(ctx)
    b2 = sh.backward(record_detectors=False, reset_fields=False)
    names2 = [c[0] for c in b2["calls"]]
    ctx.ob("R3.3", "fdtdx.fdtd.backward.backward:flags-off", names2 == ["add_interfaces", "update_H_reverse", "update_E_reverse"], "without reset / detector recording only restore and the two reverse updates run", names2, want[:3])
    sh = StepHarness(ctx)
    f2 = sh.forward(record_detectors=False, record_boundaries=False, simulate_boundaries=True)
    names3 = [c[0] for c in f2["calls"]]
    ctx.ob("R3.2", "fdtdx.fdtd.forward.forward:flags-off", names3 == ["update_E", "update_H"], "without recording only the two updates run", names3, ["update_E", "update_H"])


def _reset(ctx):
    ix = ctx.index
    P = ix.cls(PML)
    ctx.unit(P.lookup_method("apply_field_reset").where())
    it = ctx.fresh_interp()
    bad = []
    for axis, direction in itertools.product(range(3), "-+"):
        (p,) = _pmls(ctx, [(axis, direction)])
        fields = {"E": vec("E"), "H": vec("H"), "X": vec("X")}
        out = it.call_method(p, "apply_field_reset", fields)
        region = tuple(slice(lo, hi, None) for lo, hi in p.attrs["_grid_slice_tuple"])
        for nm, F in fields.items():
            for c in range(3):
                want = to_rat(F.data[c]) * (1 - _ind(region))
                if nm not in out or not to_rat(out[nm].data[c]).equals(want):
                    bad.append((axis, direction, nm, c))
        if set(out) != set(fields):
            bad.append((axis, direction, sorted(out)))
    ctx.ob("R3.5", f"{PML}.apply_field_reset", not bad, "every field handed in is zeroed on exactly the layer's slab (all three components) and unchanged elsewhere; no field is dropped (6 layers x 3 fields)", bad[:3], "F * (1 - 1[slab])")
    B = ix.cls("fdtdx.objects.boundaries.boundary.BaseBoundary")
    m = B.lookup_method("apply_field_reset")
    ctx.unit(m.where())
    o = Obj(B, {}, "b")
    fields = {"E": vec("E")}
    ctx.ob("R3.5", "BaseBoundary.apply_field_reset", it.call_method(o, "apply_field_reset", fields) is fields, "boundaries that absorb nothing leave the fields alone", "identity", "identity")


def _full_backward(ctx):
    T, s = integer_atom("T"), integer_atom("s")
    for rd, rf in ((True, True), (False, False)):
        d = Driver(ctx, Facts([s, T - s]))
        arr = d.arrays()
        r = d.call("fdtdx.fdtd.backward.full_backward", (T, arr), Obj(None, {}, "objects"), d.config(T), key=atom("key"), record_detectors=rd, reset_fields=rf, start_time_step=s)
        if isinstance(r, Raised):
            raise AnalysisError(f"full_backward raises: {r}")
        ok = len(d.loops) == 1
        if ok:
            lp = d.loops[0]
            ev = [e for e in lp.events if e[0] == "backward"]
            ok = lp.step == -1 and to_rat(lp.t0).equals(T) and to_rat(lp.t_exit).equals(s) and lp.enters and len(ev) == 1 and {k_: v_ for k_, v_ in ev[0][2] if k_ != "materials"} == {"record_detectors": rd, "reset_fields": rf} and to_rat(r[0]).equals(s)
        ctx.ob("R3.6", f"full_backward[record_detectors={rd},reset_fields={rf}]", ok, "one reverse step per iteration with the caller's flags, from the current index down to start_time_step, where it stops: every earlier step is reproduced once and nothing before the start", [(to_rat(lp.t0).fmt(), to_rat(lp.t_exit).fmt(), lp.step) for lp in d.loops], "T -> s by -1")


def run_thorough(ctx):
    """Every single face and every pair of faces."""
    sides = [(a, d) for a in range(3) for d in "-+"]
    _record_restore(ctx, scenes=[[s_] for s_ in sides] + [list(p) for p in itertools.combinations(sides, 2)])


def run(ctx):
    _record_restore(ctx)
    _slices(ctx)
    _step_order(ctx)
    _reset(ctx)
    _full_backward(ctx)
    _source_times(ctx, rule="R3.7")
    from .c02 import reverse_is_inverse

    reverse_is_inverse(ctx, "R3.8")
    ctx.require_count("C03", len(ctx.obligations), 25)
    ctx.trusted_base += [
        "model of a time-indexed buffer (arbitrary prior content, log of .at[i].set / .add writes, jnp.take reads)",
        "indicator algebra of .at[region].set on symbolic fields (sa/ndarr.py)",
        "exactness of the interior reverse update (C02); no loss or stretching at the inner face (C12)",
        "counting-loop summary (sa/driver.py)",
    ]
    ctx.assume("lossless recording = a Recorder without modules; time index t >= 0")
