"""C32 — symmetry unfolding is consistent."""

from __future__ import annotations

import itertools

from ..harness import open_obj
from ..index import AnalysisError
from ..ndarr import NdArr
from ..poly import Rat
from ..values import Obj, Raised, Unknown, to_rat

LEVEL = "other"
EXPLANATION = (
    "Decides the unfolding code on arrays of free symbolic entries (so every identity holds for all inputs of the "
    "interpreted shapes): (1) the 36-entry parity table equals the image-field rule (electric wall: normal E and "
    "tangential H even, tangential E and normal H odd; magnetic wall: the opposite) and the on-plane table equals "
    "the Yee staggering (E_c is half a cell off along c only, H_c along the other two), mirror_pairs_on_plane = "
    "electric wall and on-plane; (2) unfold_fields for all 26 symmetry tuples x {E,H}: the upper half is the "
    "input, the lower half is parity * kept[mirror(index)] with mirror = n-1-j off-plane and n-j on-plane (first "
    "sample its own mirror, outermost sample repeating its neighbour); (3) unfold_array with signs / on-plane "
    "axes; (4) _unfold_one_detector for field, phasor, energy (volume, slices) and Poynting detectors, spatial "
    "records with and without co-location: each unfolded row is the parity of the component that row actually "
    "holds (read off the record's own atoms, so a wrong row/spec pairing shows) times the mirrored record; "
    "(5) reduced records: unfolding the reduced value equals reducing the unfolded spatial record (mean for "
    "field/phasor, sum for energy/Poynting) for 1, 2 and 3 touched planes of either kind.  Not decided: which "
    "detectors straddle a plane (placement, C34) and round-off."
)

KEPT = (2, 3, 2)


def arr(name, shape):
    return NdArr(shape, [Rat.atom((name,) + ix) for ix in itertools.product(*[range(n) for n in shape])])


def _flat(shape, ix):
    k = 0
    for n, i in zip(shape, ix):
        k = k * n + i
    return k


def parity_oracle(ft, c, a, wall):
    normal = c == a
    e = 1 if ((ft == "E") == normal) else -1  # electric wall: E normal +, E tangential -, H normal -, H tangential +
    return e if wall == -1 else -e


def onplane_oracle(ft, c, a):
    # Yee offsets: E_c at +1/2 along c only; H_c at +1/2 along the two other axes.  On the plane <=> offset 0 along a.
    off = (c == a) if ft == "E" else (c != a)
    return not off


def _src_index(I, n, sym, on_plane):
    """full index I along an axis of n kept samples -> (kept index, mirrored?)"""
    if sym == 0:
        return I, False
    if I >= n:
        return I - n, False
    if not on_plane:
        return n - 1 - I, True
    J = max(I, 1)  # outermost reconstructed sample repeats its neighbour
    return n - J, True


def _tables(ctx):
    it = ctx.fresh_interp()
    ix = ctx.index
    f = ix.function("fdtdx.core.physics.symmetry.field_component_parity")
    g = ix.function("fdtdx.core.physics.symmetry.component_sits_on_plane")
    h = ix.function("fdtdx.core.physics.symmetry.mirror_pairs_on_plane")
    for fn in (f, g, h):
        ctx.unit(fn.where())
    bad = []
    n = 0
    for ft, c, a, wall in itertools.product("EH", range(3), range(3), (-1, 1)):
        got = it.call(it.closure_of(f), [ft, c, a, wall], {})
        n += 1
        if got != parity_oracle(ft, c, a, wall):
            bad.append((ft, c, a, wall, got))
    ctx.ob("R32.1", "fdtdx.core.physics.symmetry.field_component_parity", not bad and n == 36, "36-entry table == image-field parities of a polar E and an axial H; a magnetic wall negates all four", bad[:4], "electric: E_n +, E_t -, H_n -, H_t +")
    bad = []
    for ft, c, a in itertools.product("EH", range(3), range(3)):
        got = it.call(it.closure_of(g), [ft, c, a], {})
        if got != onplane_oracle(ft, c, a):
            bad.append((ft, c, a, got))
        for wall in (-1, 1):
            got2 = it.call(it.closure_of(h), [ft, c, a, wall], {})
            if got2 != (wall == -1 and onplane_oracle(ft, c, a)):
                bad.append(("pairs", ft, c, a, wall, got2))
    ctx.ob("R32.2", "component_sits_on_plane / mirror_pairs_on_plane", not bad, "on-plane <=> the component's Yee offset along the mirror axis is 0; samples pair about a shared row only on an electric wall", bad[:4], "E_c: c != axis; H_c: c == axis")
    pp = ix.function("fdtdx.fdtd.symmetry._poynting_parity")
    ctx.unit(pp.where())
    bad = []
    for c, a, wall in itertools.product(range(3), range(3), (-1, 1)):
        got = it.call(it.closure_of(pp), [c, a, wall], {})
        j, k = [x for x in range(3) if x != c]
        want = parity_oracle("E", j, a, wall) * parity_oracle("H", k, a, wall)
        want2 = parity_oracle("E", k, a, wall) * parity_oracle("H", j, a, wall)
        if got != want or want != want2:
            bad.append((c, a, wall, got, want, want2))
    ctx.ob("R32.5", "fdtdx.fdtd.symmetry._poynting_parity", not bad, "parity of S_c is the product of the parities of the two transverse field components (both pairings agree)", bad[:3], "p(E_j) p(H_k)")


def _unfold_fields(ctx):
    ix = ctx.index
    f = ix.function("fdtdx.fdtd.symmetry.unfold_fields")
    ctx.unit(f.where())
    n = 0
    for ft in "EH":
        F = arr(ft, (3,) + KEPT)
        for sym in itertools.product((-1, 0, 1), repeat=3):
            if sym == (0, 0, 0):
                continue
            it = ctx.fresh_interp()
            try:
                res = it.call(it.closure_of(f), [F, sym, ft], {})
            except Raised as r:
                ctx.ob("R32.3", f"unfold_fields[{ft},{sym}]", False, f"raises: {r}", str(r), "full-domain array")
                continue
            full_shape = (3,) + tuple(n_ * (2 if s else 1) for n_, s in zip(KEPT, sym))
            if not (isinstance(res, NdArr) and res.shape == full_shape):
                ctx.ob("R32.3", f"unfold_fields[{ft},{sym}]", False, "each symmetric axis doubles", getattr(res, "shape", res), full_shape)
                continue
            bad = None
            for c in range(3):
                for I in itertools.product(*[range(m) for m in full_shape[1:]]):
                    src, sign = [], 1
                    for a in range(3):
                        j, mir = _src_index(I[a], KEPT[a], sym[a], sym[a] == -1 and onplane_oracle(ft, c, a))
                        src.append(j)
                        if mir:
                            sign *= parity_oracle(ft, c, a, sym[a])
                    want = sign * to_rat(F.data[_flat(F.shape, (c,) + tuple(src))])
                    got = to_rat(res.data[_flat(full_shape, (c,) + I)])
                    if not got.equals(want):
                        bad = bad or ((c,) + I, got.fmt(), want.fmt())
            n += 1
            ctx.ob("R32.3", f"unfold_fields[{ft},{sym}]", bad is None, "upper half == input; lower half == parity * kept[mirror(index)] (n-1-j off-plane, n-j on-plane, outermost sample repeats its neighbour)" + (f" — fails at {bad[0]}" if bad else ""), bad[1] if bad else "all entries", bad[2] if bad else "index map")
    ctx.require_count("R32.3 unfold_fields cases", n, 52)


def _unfold_array(ctx):
    ix = ctx.index
    f = ix.function("fdtdx.fdtd.symmetry.unfold_array")
    ctx.unit(f.where())
    A = arr("a", (2,) + KEPT)  # leading "component" axis of size 2
    for sym, on_plane in (((-1, 0, 1), (0,)), ((1, -1, -1), (1,)), ((0, 0, -1), ()), ((-1, -1, 0), (0, 1))):
        it = ctx.fresh_interp()
        signs = {a: NdArr((2, 1, 1, 1), [Rat.atom(f"s{a}_0"), Rat.atom(f"s{a}_1")]) for a in range(3) if sym[a] and a != 2}
        res = it.call(it.closure_of(f), [A, sym, (1, 2, 3), signs, on_plane], {})
        full_shape = (2,) + tuple(n_ * (2 if s else 1) for n_, s in zip(KEPT, sym))
        bad = None
        if not (isinstance(res, NdArr) and res.shape == full_shape):
            bad = ("shape", getattr(res, "shape", res), full_shape)
        else:
            for c in range(2):
                for I in itertools.product(*[range(m) for m in full_shape[1:]]):
                    src, sign = [], Rat.const(1)
                    for a in range(3):
                        j, mir = _src_index(I[a], KEPT[a], sym[a], a in on_plane)
                        src.append(j)
                        if mir and a in signs:
                            sign = sign * Rat.atom(f"s{a}_{c}")
                    want = sign * to_rat(A.data[_flat(A.shape, (c,) + tuple(src))])
                    got = to_rat(res.data[_flat(full_shape, (c,) + I)])
                    if not got.equals(want):
                        bad = bad or ((c,) + I, got.fmt(), want.fmt())
        ctx.ob("R32.4", f"unfold_array[{sym},on_plane={on_plane}]", bad is None, "mirror image (times the per-component sign) is concatenated in front of the original along the mapped array axis; on-plane axes use the shared-row map", bad[1] if bad else "all entries", bad[2] if bad else "index map")


# ------------------------------------------------------------------------------------ detectors
def _row_component(row_vals):
    """which field component a record row holds, read off its atoms: ('E', c) / ('H', c)"""
    comps = set()
    for v in row_vals:
        for a in to_rat(v).atoms():
            if isinstance(a, tuple) and a and a[0] in ("E", "H"):
                comps.add((a[0], a[1]))
    return comps


def _unfold_one(ctx, det, state, touched):
    ix = ctx.index
    it = ctx.fresh_interp()
    f = ix.function("fdtdx.fdtd.symmetry._unfold_one_detector")
    ctx.unit(f.where())
    count = sum(1 for t in touched if t)
    try:
        return it.call(it.closure_of(f), [det, state, touched, count], {})
    except Raised as r:
        raise AnalysisError(f"_unfold_one_detector raises: {r}")


def _mean(vals):
    return sum(vals, Rat.const(0)) / len(vals)


def _detectors(ctx):
    ix = ctx.index
    FD = ix.cls("fdtdx.objects.detectors.field.FieldDetector")
    PD = ix.cls("fdtdx.objects.detectors.phasor.PhasorDetector")
    ED = ix.cls("fdtdx.objects.detectors.energy.EnergyDetector")
    SD = ix.cls("fdtdx.objects.detectors.poynting_flux.PoyntingFluxDetector")
    E, H = arr("E", (3,) + KEPT), arr("H", (3,) + KEPT)
    names = ("Ex", "Ey", "Ez", "Hx", "Hy", "Hz")
    touched_cases = [(-1, 0, 0), (0, 1, 0), (-1, -1, 0), (1, -1, 0), (-1, 1, -1), (1, 1, 1), (0, 0, -1)]
    n = 0
    for touched in touched_cases:
        full = tuple(m * (2 if t else 1) for m, t in zip(KEPT, touched))
        for comps in (names, ("Hz", "Ex"), ("Ey", "Hx", "Hy")):
            # the record as the detector stacks it: canonical order of the listed components
            rows = [(nm[0], "xyz".index(nm[1])) for nm in names if nm in comps]
            rec_data = []
            for ft, c in rows:
                src = E if ft == "E" else H
                rec_data += src.data[c * len(src.data) // 3 : (c + 1) * len(src.data) // 3]
            for cls, key, lead in ((FD, "fields", (1,)), (PD, "phasor", (1, 1))):
                rec = NdArr(lead + (len(rows),) + KEPT, list(rec_data))
                for exact in (False, True):
                    det = Obj(cls, dict(components=tuple(comps), reduce_volume=False, exact_interpolation=exact, name="det"), "det")
                    out = _unfold_one(ctx, det, {key: rec}, touched)[key]
                    want_shape = lead + (len(rows),) + full
                    bad = None
                    if not (isinstance(out, NdArr) and out.shape == want_shape):
                        bad = ("shape", getattr(out, "shape", out), want_shape)
                    else:
                        onp = tuple(a for a in (0, 1) if touched[a] == -1) if exact else ()
                        for r, (ft, c) in enumerate(rows):
                            for I in itertools.product(*[range(m) for m in full]):
                                src, sign = [], 1
                                for a in range(3):
                                    j, mir = _src_index(I[a], KEPT[a], touched[a], a in onp)
                                    src.append(j)
                                    if mir:
                                        sign *= parity_oracle(ft, c, a, touched[a])
                                want = sign * to_rat(rec.data[_flat(rec.shape, tuple(0 for _ in lead) + (r,) + tuple(src))])
                                got = to_rat(out.data[_flat(want_shape, tuple(0 for _ in lead) + (r,) + I)])
                                if not got.equals(want):
                                    bad = bad or ((r,) + I, got.fmt(), want.fmt())
                    n += 1
                    ctx.ob("R32.6", f"_unfold_one_detector[{cls.name},{','.join(comps)},touched={touched},exact={exact}]", bad is None, "each unfolded row == parity of the component that row holds * mirrored record (co-located records use the shared-row map on electric planes in x, y)" + (f" — fails at {bad[0]}" if bad else ""), bad[1] if bad else "all entries", bad[2] if bad else "parity * mirror")
                # reduced (mean) record: unfold(reduce(x)) == reduce(unfold(x)) with plain-flip unfolding
                det_s = Obj(cls, dict(components=tuple(comps), reduce_volume=False, exact_interpolation=False, name="det"), "det")
                det_r = Obj(cls, dict(components=tuple(comps), reduce_volume=True, exact_interpolation=False, name="det"), "det")
                full_rec = _unfold_one(ctx, det_s, {key: rec}, touched)[key]
                ncell = len(rec.data) // len(rows)
                red = NdArr(lead + (len(rows),), [_mean([to_rat(x) for x in rec.data[r * ncell : (r + 1) * ncell]]) for r in range(len(rows))])
                out_r = _unfold_one(ctx, det_r, {key: red}, touched)[key]
                nfull = len(full_rec.data) // len(rows)
                want = [_mean([to_rat(x) for x in full_rec.data[r * nfull : (r + 1) * nfull]]) for r in range(len(rows))]
                got = [to_rat(x) for x in out_r.data] if isinstance(out_r, NdArr) else []
                ok = len(got) == len(want) and all(g.equals(w) for g, w in zip(got, want))
                n += 1
                ctx.ob("R32.7", f"_unfold_one_detector[{cls.name},{','.join(comps)},touched={touched}]:reduced", ok, "unfolding the volume-mean equals the volume-mean of the unfolded spatial record", [g.fmt()[:80] for g in got[:3]], [w.fmt()[:80] for w in want[:3]])
        # energy (even), volume record and reduced sum
        en = arr("U", (1,) + KEPT)
        for exact in (False, True):
            det = Obj(ED, dict(as_slices=False, reduce_volume=False, exact_interpolation=exact, name="det"), "det")
            out = _unfold_one(ctx, det, {"energy": en}, touched)["energy"]
            onp = tuple(a for a in (0, 1) if touched[a] == -1) if exact else ()
            bad = None
            if not (isinstance(out, NdArr) and out.shape == (1,) + full):
                bad = ("shape", getattr(out, "shape", out), (1,) + full)
            else:
                for I in itertools.product(*[range(m) for m in full]):
                    src = [_src_index(I[a], KEPT[a], touched[a], a in onp)[0] for a in range(3)]
                    if not to_rat(out.data[_flat(out.shape, (0,) + I)]).equals(to_rat(en.data[_flat(en.shape, (0,) + tuple(src))])):
                        bad = bad or (I, "", "")
            n += 1
            ctx.ob("R32.6", f"_unfold_one_detector[EnergyDetector,touched={touched},exact={exact}]", bad is None, "energy density is even: the mirrored half is the mirrored record", bad, "even mirror")
        det = Obj(ED, dict(as_slices=False, reduce_volume=False, exact_interpolation=False, name="det"), "det")
        det_r = Obj(ED, dict(as_slices=False, reduce_volume=True, exact_interpolation=False, name="det"), "det")
        full_rec = _unfold_one(ctx, det, {"energy": en}, touched)["energy"]
        tot_half = sum((to_rat(x) for x in en.data), Rat.const(0))
        out_r = _unfold_one(ctx, det_r, {"energy": NdArr((1, 1), [tot_half])}, touched)["energy"]
        want = sum((to_rat(x) for x in full_rec.data), Rat.const(0))
        got = to_rat(out_r.data[0]) if isinstance(out_r, NdArr) else to_rat(out_r)
        n += 1
        ctx.ob("R32.7", f"_unfold_one_detector[EnergyDetector,touched={touched}]:reduced", got.equals(want), "unfolding the summed energy equals the sum of the unfolded energy density", got.fmt()[:120], want.fmt()[:120])
        # Poynting flux: all components / single component, spatial and summed
        S = arr("S", (1, 3) + KEPT)
        for keep, paxis in ((True, 0), (False, 0), (False, 1), (False, 2)):
            base = dict(keep_all_components=keep, fixed_propagation_axis=paxis, grid_shape=KEPT, exact_interpolation=False, name="det")
            comps = (0, 1, 2) if keep else (paxis,)
            rec = S if keep else NdArr((1,) + KEPT, S.data[paxis * (len(S.data) // 3) : (paxis + 1) * (len(S.data) // 3)])
            det = Obj(SD, dict(base, reduce_volume=False), "det")
            out = _unfold_one(ctx, det, {"poynting_flux": rec}, touched)["poynting_flux"]
            want_shape = ((1, 3) if keep else (1,)) + full
            bad = None
            if not (isinstance(out, NdArr) and out.shape == want_shape):
                bad = ("shape", getattr(out, "shape", out), want_shape)
            else:
                for r, c in enumerate(comps):
                    j, k = [x for x in range(3) if x != c]
                    for I in itertools.product(*[range(m) for m in full]):
                        src, sign = [], 1
                        for a in range(3):
                            jj, mir = _src_index(I[a], KEPT[a], touched[a], False)
                            src.append(jj)
                            if mir:
                                sign *= parity_oracle("E", j, a, touched[a]) * parity_oracle("H", k, a, touched[a])
                        idx_rec = ((0, r) if keep else (0,)) + tuple(src)
                        idx_out = ((0, r) if keep else (0,)) + I
                        if not to_rat(out.data[_flat(want_shape, idx_out)]).equals(sign * to_rat(rec.data[_flat(rec.shape, idx_rec)])):
                            bad = bad or (idx_out, "", "")
            n += 1
            ctx.ob("R32.6", f"_unfold_one_detector[PoyntingFluxDetector,keep_all={keep},axis={paxis},touched={touched}]", bad is None, "flux component S_c mirrors with parity p(E_j) p(H_k)", bad, "parity * mirror")
            if bad is None:
                det_r = Obj(SD, dict(base, reduce_volume=True), "det")
                per = len(rec.data) // len(comps)
                sums = [sum((to_rat(x) for x in rec.data[r * per : (r + 1) * per]), Rat.const(0)) for r in range(len(comps))]
                red = NdArr((1, 3), sums) if keep else NdArr((1, 1), sums)
                out_r = _unfold_one(ctx, det_r, {"poynting_flux": red}, touched)["poynting_flux"]
                perf = len(out.data) // len(comps)
                want = [sum((to_rat(x) for x in out.data[r * perf : (r + 1) * perf]), Rat.const(0)) for r in range(len(comps))]
                got = [to_rat(x) for x in out_r.data] if isinstance(out_r, NdArr) else [to_rat(out_r)]
                ok = len(got) == len(want) and all(g.equals(w) for g, w in zip(got, want))
                n += 1
                ctx.ob("R32.7", f"_unfold_one_detector[PoyntingFluxDetector,keep_all={keep},axis={paxis},touched={touched}]:reduced", ok, "unfolding the summed flux equals the sum of the unfolded flux density", [g.fmt()[:80] for g in got], [w.fmt()[:80] for w in want])
    ctx.require_count("R32 detector cases", n, 150)


def _dispatch(ctx):
    """unfold_detector_states: each detector is unfolded across exactly the planes that clipped it"""
    from ..harness import stub_repo_calls
    from ..values import Builtin

    ix = ctx.index
    f = ix.function("fdtdx.fdtd.symmetry.unfold_detector_states")
    ctx.unit(f.where())
    bad, n = [], 0
    for sym in [s_ for s_ in itertools.product((-1, 0, 1), repeat=3) if any(s_)]:
        patterns = [p for p in itertools.product((False, True), repeat=3)]
        it = ctx.fresh_interp()
        calls = {}

        def unfold_one(it_, a, k, _c=calls):
            det, state, touched, count = a[0], a[1], a[2], a[3]
            _c[det.attrs["name"]] = (tuple(touched), count)
            return {"unfolded": det.attrs["name"]}

        stub_repo_calls(it, {"_unfold_one_detector": unfold_one})
        dets = []
        for i, pat in enumerate(patterns):
            # a detector may begin on the plane row without having been clipped: "touches" is the weaker predicate
            dets.append(Obj(None, {"name": f"d{i}", "straddles_symmetry_plane": Builtin("straddles", lambda it_, a, k, _p=pat: _p[a[0]]), "touches_symmetry_plane": Builtin("touches", lambda it_, a, k: True)}, f"d{i}"))
        states = {d.attrs["name"]: {"raw": d.attrs["name"]} for d in dets}
        states["orphan"] = {"raw": "orphan"}
        arrays = open_obj(ix.cls("fdtdx.fdtd.container.ArrayContainer"), "arrays", detector_states=states)
        objs = Obj(None, {"detectors": dets}, "objects")
        cfg = Obj(ix.cls("fdtdx.config.SimulationConfig"), dict(symmetry=sym), "config")
        try:
            out = it.call(it.closure_of(f), [arrays, objs, cfg], {})
        except Raised as r:
            raise AnalysisError(f"unfold_detector_states raises for symmetry {sym}: {r}")
        new = out.attrs.get("detector_states") if isinstance(out, Obj) else None
        if not isinstance(new, dict):
            raise AnalysisError("unfold_detector_states did not return an array container with detector states")
        for d, pat in zip(dets, patterns):
            nm = d.attrs["name"]
            touched = tuple(sym[a] if pat[a] else 0 for a in range(3))
            cnt = sum(1 for t in touched if t)
            n += 1
            if cnt == 0:
                if nm in calls or new.get(nm) != {"raw": nm}:
                    bad.append((sym, pat, "a detector that crosses no plane must be returned as stored", calls.get(nm)))
            elif calls.get(nm) != (touched, cnt) or new.get(nm) != {"unfolded": nm}:
                bad.append((sym, pat, calls.get(nm), (touched, cnt)))
        if new.get("orphan") != {"raw": "orphan"}:
            bad.append((sym, "state without a detector must be kept as stored"))
    ctx.ob("R32.7", "unfold_detector_states:dispatch", not bad and n == 26 * 8, "for each detector the unfolding receives touched[a] = symmetry[a] on the axes whose plane clipped it — straddled, not merely touched — (0 elsewhere) and count = the number of those axes — not the number of symmetric axes of the simulation; detectors that cross no plane and states without a detector are returned as stored (26 symmetries x 8 crossing patterns)", bad[:3], "touched / count per detector")


def _job(ctx, payload):
    {"tables": _tables, "fields": _unfold_fields, "array": _unfold_array, "detectors": _detectors, "dispatch": _dispatch}[payload](ctx)


def run(ctx):
    from ..par import run_jobs

    jobs = ["tables", "fields", "array", "detectors", "dispatch"]
    err = run_jobs(ctx, "sa.checks.c32", "_job", jobs, jobs)
    if err is not None:
        raise AnalysisError(err)
    ctx.require_count("C32", len(ctx.obligations), 200)
    ctx.trusted_base += ["sa/ndarr.py model of flip / concatenate / reshape / broadcasting on concrete-shape arrays", "size-uniformity of those index maps (kept half 2x3x2 interpreted)"]
    ctx.assume("the kept half has at least two samples along an on-plane axis")
