"""C09 — periodic and Bloch domains match their supercells (necessary structural clauses)."""

from __future__ import annotations

import ast
import itertools
from fractions import Fraction as Fr

from ..harness import open_obj
from ..index import AnalysisError
from ..ndarr import NdArr
from ..poly import I, Rat, apply_fn, normalise_exp
from ..scene import Scene
from ..values import Builtin, Obj, Raised, to_rat
from .c15 import _np_pad

LEVEL = "other"
EXPLANATION = (
    "The supercell identity holds exactly when every read of a neighbouring cell across a periodic face sees what "
    "the adjacent copy of the cell would hold: the wrapped value times exp(+-i k L).  Decided on the code: (1) "
    "pad_fields_for_boundaries, interpreted on a concrete 3x2x2 grid of free symbolic entries with Bloch / "
    "periodic / terminating faces in every combination of axes, produces halo cells that are the wrapped "
    "neighbour times conj(phase) on the min side and phase on the max side, phase = exp(i k_a L_a) with L_a = "
    "N_a * resolution (uniform) or edge[N_a] - edge[0] (resolved grid), corners carrying the product of the phases, "
    "zero behind terminating faces, the interior untouched; this for k of either sign (a negative k is phased like "
    "a positive one) while k = 0 is plain wrap.  (2) needs_complex_fields is true exactly for a non-zero component "
    "along the boundary's own axis (negative included); wrap padding is reported exactly for axes with a periodic / "
    "Bloch face.  (3) Who-may-pad: inside the solver (fdtd/update.py) the bare pad_fields is called only from "
    "pad_fields_for_boundaries, and every array handed to a curl or an anisotropic averaging routine in the four "
    "update functions is the result of pad_fields_for_boundaries, so no neighbour read can bypass the phase.  The "
    "(4) One whole forward step of a concrete cell and of its supercell (fields tiled with the Bloch phase, materials "
    "and cell widths tiled; every entry a free symbol; uniform and stretched grids, isotropic / diagonal / full-tensor "
    "materials, periodic and Bloch faces) agree entry by entry as rational functions — whole runs follow by induction.  "
    "Round-off is not decided; energy / adjointness aspects are C01's."
)

N = (3, 2, 2)
BLO = "fdtdx.objects.boundaries.bloch.BlochBoundary"
PEC = "fdtdx.objects.boundaries.pec.PerfectElectricConductor"


def _arr():
    shape = (3,) + N
    return NdArr(shape, [Rat.atom(("F",) + ix) for ix in itertools.product(*[range(n) for n in shape])])


def _scene(ctx, kinds, kvec, resolved):
    """kinds[a] in {'bloch', 'none'}; returns (interp, objects, config)"""
    ix = ctx.index
    it = ctx.fresh_interp()
    it.ext_overrides["np.pad"] = _np_pad
    sc = Scene(ix, it)
    grid = None
    if resolved:
        edges = [NdArr((N[a] + 1,), [Rat.atom((f"e{a}", i)) for i in range(N[a] + 1)]) for a in range(3)]
        grid = Obj(None, {"edges": Builtin("edges", lambda it_, a, k: edges[a[0] if a else k.get("axis")]), "min_spacing": Rat.atom("dmin")}, "grid")
    cfg = sc.config(resolved_grid=grid, has_nonuniform_grid=resolved)
    V = ix.cls("fdtdx.objects.static_material.static.SimulationVolume")
    vol = Obj(V, dict(name="volume", grid_shape=N, _grid_slice_tuple=tuple((0, n) for n in N)), "volume")
    bs = []
    for a, kind in enumerate(kinds):
        for d in "-+":
            gst = tuple(((0, 1) if d == "-" else (N[b] - 1, N[b])) if b == a else (0, N[b]) for b in range(3))
            if kind == "bloch":
                bs.append(Obj(ix.cls(BLO), dict(name=f"bloch_{a}{d}", axis=a, direction=d, bloch_vector=tuple(kvec), _grid_slice_tuple=gst, _config=cfg), f"bloch_{a}{d}"))
            elif kind == "pec":
                bs.append(Obj(ix.cls(PEC), dict(name=f"pec_{a}{d}", axis=a, direction=d, _grid_slice_tuple=gst, _config=cfg, _is_symmetry_wall=False), f"pec_{a}{d}"))
    OC = ix.cls("fdtdx.fdtd.container.ObjectContainer")
    return it, Obj(OC, {"object_list": [vol] + bs, "volume_idx": 0}, "objects"), cfg


def _phase(a, k, resolved):
    if to_rat(k).is_zero():
        return Rat.const(1)
    L = (Rat.atom((f"e{a}", N[a])) - Rat.atom((f"e{a}", 0))) if resolved else N[a] * (Rat.atom("dmin") if resolved else Rat.atom("res"))
    return apply_fn("exp", Rat.atom(I) * to_rat(k) * L)


def _halo_rules(ctx):
    ix = ctx.index
    f = ix.function("fdtdx.fdtd.update.pad_fields_for_boundaries")
    ctx.unit(f.where())
    ctx.unit(ix.cls(BLO).lookup_method("apply_pad_correction").where())
    F = _arr()
    cases = []
    for kinds in itertools.product(("bloch", "none"), repeat=3):
        if all(k == "none" for k in kinds):
            continue
        cases.append((kinds, (Fr(3, 2), Fr(-5, 4), Fr(2)), False))
    cases += [(("bloch", "bloch", "bloch"), (Fr(-1), Fr(3, 4), Fr(-7, 2)), True), (("bloch", "pec", "bloch"), (0, 0, Fr(-2)), False), (("bloch", "bloch", "none"), (0, 0, 0), False)]
    for kinds, kvec, resolved in cases:
        it, objs, cfg = _scene(ctx, kinds, kvec, resolved)
        try:
            P = it.call(it.closure_of(f), [F, objs, cfg], {})
        except Raised as r:
            raise AnalysisError(f"pad_fields_for_boundaries raises: {r}")
        shape = (3,) + tuple(n + 2 for n in N)
        label = f"pad_fields_for_boundaries[{','.join(kinds)},k={tuple(str(x) for x in kvec)}{',resolved-grid' if resolved else ''}]"
        if not (isinstance(P, NdArr) and P.shape == shape):
            ctx.ob("R9.1", label, False, "one halo cell on both sides of every spatial axis", getattr(P, "shape", P), shape)
            continue
        from ..extlib import conj_rat

        bad = None
        for c in range(3):
            for pix in itertools.product(*[range(n + 2) for n in N]):
                src, fac, zero = [], Rat.const(1), False
                for a in range(3):
                    i = pix[a] - 1
                    if 0 <= i < N[a]:
                        src.append(i)
                    elif kinds[a] == "bloch":
                        ph = _phase(a, kvec[a], resolved)
                        fac = fac * (conj_rat(ph) if i < 0 else ph)
                        src.append(i % N[a])
                    else:
                        zero = True
                        src.append(0)
                want = Rat.const(0) if zero else fac * Rat.atom(("F", c) + tuple(src))
                flat = ((c * shape[1] + pix[0]) * shape[2] + pix[1]) * shape[3] + pix[2]
                got = to_rat(P.data[flat])
                if not got.equals(want):
                    bad = bad or ((c,) + pix, got.fmt()[:200], want.fmt()[:200])
        ctx.ob("R9.1", label, bad is None, "every halo cell holds what the adjacent copy of the cell would hold: wrapped neighbour * conj(phase) (min side) / phase (max side), phase = exp(i k L) per Bloch axis (products at corners, either sign of k), zero behind terminating faces, interior untouched" + (f" — differs at {bad[0]}" if bad else ""), bad[1] if bad else f"{len(P.data)} entries", bad[2] if bad else "supercell halo")


def _flags(ctx):
    ix = ctx.index
    B = ix.cls(BLO)
    it = ctx.fresh_interp()
    bad = []
    for axis, kvec in itertools.product(range(3), itertools.product((Fr(-3, 2), 0, Fr(2)), repeat=3)):
        got = it.getattr(Obj(B, dict(axis=axis, direction="-", bloch_vector=kvec), "b"), "needs_complex_fields")
        if bool(got) is not (kvec[axis] != 0):
            bad.append((axis, tuple(str(x) for x in kvec), got))
    ctx.ob("R9.2", f"{BLO}.needs_complex_fields", not bad, "true exactly when the Bloch vector component along the boundary's own axis is non-zero — negative values included (81 cases)", bad[:3], "k_axis != 0")
    g = ix.function("fdtdx.fdtd.update.get_wrap_padding_axes")
    ctx.unit(g.where())
    bad = []
    for kinds in itertools.product(("bloch", "pec", "none"), repeat=3):
        it2, objs, cfg = _scene(ctx, kinds, (0, 0, 0), False)
        got = tuple(bool(x) for x in it2.call(it2.closure_of(g), [objs], {}))
        want = tuple(k == "bloch" for k in kinds)
        if got != want:
            bad.append((kinds, got))
    ctx.ob("R9.2", "get_wrap_padding_axes", not bad, "wrap padding exactly on the axes that carry a periodic / Bloch face (27 combinations)", bad[:3], "periodic axes")
    # complex promotion at initialisation follows needs_complex_fields
    ia = ix.function("fdtdx.fdtd.initialization._init_arrays")
    src = ast.unparse(ia.node)
    ok = "needs_complex_fields" in src and "BlochBoundary" in src
    ctx.ob("R9.2", "_init_arrays:complex-promotion", ok, "field arrays are promoted to complex when some Bloch boundary needs complex fields", ok, True)


def _who_may_pad(ctx):
    ix = ctx.index
    mod = ix.module("fdtdx.fdtd.update")
    callers = []
    for fi in list(mod.functions.values()):
        for c in ast.walk(fi.node):
            if isinstance(c, ast.Call) and ast.unparse(c.func) == "pad_fields":
                callers.append(fi.name)
    ctx.ob("R9.3", "fdtd.update:bare-pad_fields", sorted(set(callers)) == ["pad_fields_for_boundaries"], "inside the solver the phase-less pad_fields is called only from pad_fields_for_boundaries", sorted(set(callers)), ["pad_fields_for_boundaries"])
    sinks = ("curl_E", "curl_H", "avg_anisotropic_E_component", "avg_anisotropic_H_component", "avg_anisotropic_component")
    n = 0
    for fname in ("update_E", "update_H", "update_E_reverse", "update_H_reverse"):
        fi = ix.function(f"fdtdx.fdtd.update.{fname}")
        ctx.unit(fi.where())
        defs = {}
        for st in ast.walk(fi.node):
            if isinstance(st, ast.Assign) and len(st.targets) == 1 and isinstance(st.targets[0], ast.Name):
                defs.setdefault(st.targets[0].id, []).append(st.value)
        bad = []
        for c in ast.walk(fi.node):
            if not (isinstance(c, ast.Call) and ast.unparse(c.func).split(".")[-1] in sinks):
                continue
            # the field-like argument: 2nd positional of the curls (config first), 1st of the averaging helpers
            name = ast.unparse(c.func).split(".")[-1]
            arg = (c.args[1] if len(c.args) > 1 else None) if name.startswith("curl_") else (c.args[0] if c.args else None)
            if arg is None:
                for kw in c.keywords:
                    if kw.arg in ("E_pad", "H_pad", "field_pad", "arr", "padded"):
                        arg = kw.value
            if not isinstance(arg, ast.Name):
                bad.append((name, ast.unparse(arg) if arg is not None else None, "not a plain name"))
                continue
            ds = defs.get(arg.id, [])
            n += 1
            if not ds or not all(isinstance(d, ast.Call) and ast.unparse(d.func) == "pad_fields_for_boundaries" for d in ds):
                bad.append((name, arg.id, [ast.unparse(d)[:60] for d in ds]))
        ctx.ob("R9.3", f"fdtd.update.{fname}:padded-inputs", not bad, "every array handed to a curl / anisotropic averaging routine is the result of pad_fields_for_boundaries (wrap + Bloch phase), never of a phase-less padding", bad[:3], "pad_fields_for_boundaries(...)")
    ctx.require_count("R9.3 neighbour-reading call sites", n, 16)


def _config_kinds(ctx):
    """boundary_objects_from_config: a face declared 'periodic' gets a zero Bloch vector whatever the configured
    vector is; a face declared 'bloch' gets the configured one; walls are not periodic objects at all."""
    from ..values import Builtin, ClassRef

    ix = ctx.index
    f = ix.function("fdtdx.objects.boundaries.initialization.boundary_objects_from_config")
    ctx.unit(f.where())
    BC = ix.cls("fdtdx.objects.boundaries.initialization.BoundaryConfig")
    faces = {"min_x": "minx", "max_x": "maxx", "min_y": "miny", "max_y": "maxy", "min_z": "minz", "max_z": "maxz"}
    kvec = (Rat.atom("kx"), Rat.atom("ky"), Rat.atom("kz"))
    bad, n = [], 0
    for kinds in (("bloch", "periodic", "pec"), ("periodic", "bloch", "periodic"), ("periodic", "pmc", "bloch"), ("bloch", "bloch", "bloch"), ("periodic", "periodic", "periodic")):
        it = ctx.fresh_interp()
        attrs = {"bloch_vector": kvec}
        for kind, sfx in faces.items():
            axis = "xyz".index(kind[-1])
            attrs[f"boundary_type_{sfx}"] = kinds[axis]
            attrs[f"thickness_grid_{sfx}"] = 1
        made = []

        def mk(it_, callee, args, kwargs, _made=made):
            if isinstance(callee, ClassRef) and callee.ci.module.name.startswith("fdtdx.objects.boundaries.") and callee.ci.name in ("BlochBoundary", "PerfectElectricConductor", "PerfectMagneticConductor", "PerfectlyMatchedLayer"):
                o = Obj(callee.ci, dict(kwargs), callee.ci.name)
                o.attrs["place_relative_to"] = Builtin("place_relative_to", lambda i2, a2, k2: ("constraint",))
                _made.append(o)
                return o
            return NotImplemented

        it.call_hooks.append(mk)
        try:
            bnds, _ = it.call(it.closure_of(f), [Obj(BC, attrs, "bc"), Obj(None, {"name": "volume"}, "volume")], {})
        except Raised as r:
            raise AnalysisError(f"boundary_objects_from_config raises: {r}")
        for kind in faces:
            axis = "xyz".index(kind[-1])
            b = bnds.get(kind)
            want_kind = kinds[axis]
            n += 1
            if not isinstance(b, Obj):
                bad.append((kinds, kind, "missing"))
                continue
            is_bloch_obj = b.cls is ix.cls(BLO)
            if want_kind in ("bloch", "periodic"):
                vec = b.attrs.get("bloch_vector")
                want = kvec if want_kind == "bloch" else (0, 0, 0)
                ok = is_bloch_obj and vec is not None and len(vec) == 3 and all(to_rat(x).equals(to_rat(y)) for x, y in zip(vec, want)) and b.attrs.get("axis") == axis and b.attrs.get("direction") == ("-" if kind.startswith("min") else "+")
                if not ok:
                    bad.append((kinds, kind, [to_rat(x).fmt() for x in vec] if vec else vec))
            elif is_bloch_obj:
                bad.append((kinds, kind, "a wall was built as a periodic face"))
    ctx.ob("R9.4", "boundary_objects_from_config:periodic-vs-bloch", not bad and n == 30, "a face declared 'periodic' carries the zero Bloch vector even when the configuration holds a non-zero one (plain copies in the supercell), a face declared 'bloch' carries the configured vector, on its own axis and side; walls are not periodic faces (5 mixed configurations, 30 faces)", bad[:3], "periodic -> (0,0,0); bloch -> config.bloch_vector")


def _tile(F, reps, phases=None):
    """tile a (C, n0, n1, n2) array of entries reps[a] times along spatial axis a; copy c along axis a carries
    phases[a] ** c"""
    C, n = F.shape[0], F.shape[1:]
    big = tuple(n[a] * reps[a] for a in range(3))
    data = []
    for c in range(C):
        for p in itertools.product(*[range(m) for m in big]):
            q = tuple(p[a] % n[a] for a in range(3))
            v = to_rat(F.data[((c * n[0] + q[0]) * n[1] + q[1]) * n[2] + q[2]])
            if phases is not None:
                for a in range(3):
                    for _ in range(p[a] // n[a]):
                        v = v * phases[a]
            data.append(v)
    return NdArr((C,) + big, data)


def _sym_arr(name, comps, shape):
    return NdArr((comps,) + shape, [Rat.atom((name, c) + p) for c in range(comps) for p in itertools.product(*[range(m) for m in shape])])


def _solve_identity(it, a, k):
    """linalg.solve(M1, M2) with M1 the (broadcast) identity: M2 (the lossless full-tensor update)."""
    M1, M2 = a[0], a[1]
    if isinstance(M1, NdArr) and M1.shape[-2:] == (3, 3) and all(d == 1 for d in M1.shape[:-2]) and all(to_rat(v).equals(1 if (i // 3) == (i % 3) else 0) for i, v in enumerate(M1.data)):
        return M2
    raise AnalysisError("linalg.solve with a non-identity left matrix")


def _supercell_scene(ctx, shape, periodic, kvec, widths, walls=False):
    """a domain of `shape` cells, periodic / Bloch faces on the axes in `periodic`, elsewhere conducting walls or
    (default) plain truncation (zero halo), so that no field entry is forced to zero; widths = None
    (uniform) or per-axis lists of cell-width entries (resolved rectilinear grid)"""
    from ..harness import stub_repo_calls

    ix = ctx.index
    it = ctx.fresh_interp()
    it.ext_overrides["np.pad"] = _np_pad
    it.ext_handlers["np.linalg.solve"] = _solve_identity
    sc = Scene(ix, it)
    grid = None
    if widths is not None:
        W = [NdArr((shape[a],), list(widths[a])) for a in range(3)]
        edges = []
        for a in range(3):
            acc, e = Rat.const(0), [Rat.const(0)]
            for w in widths[a]:
                acc = acc + to_rat(w)
                e.append(acc)
            edges.append(NdArr((shape[a] + 1,), e))
        pick = lambda tab: (lambda it_, a, k: tab[a[0] if a else k.get("axis")])
        grid = Obj(None, {"cell_widths": Builtin("cell_widths", pick(W)), "edges": Builtin("edges", pick(edges)), "min_spacing": Rat.atom("dmin")}, "grid")
    cfg = sc.config(resolved_grid=grid, has_nonuniform_grid=widths is not None)
    V = ix.cls("fdtdx.objects.static_material.static.SimulationVolume")
    objs = [Obj(V, dict(name="volume", grid_shape=shape, _grid_slice_tuple=tuple((0, n) for n in shape)), "volume")]
    cplx = any(not to_rat(k).is_zero() for k in kvec)
    for a in range(3):
        for d in "-+":
            gst = tuple(((0, 1) if d == "-" else (shape[b] - 1, shape[b])) if b == a else (0, shape[b]) for b in range(3))
            if periodic[a]:
                objs.append(Obj(ix.cls(BLO), dict(name=f"per_{a}{d}", axis=a, direction=d, bloch_vector=tuple(kvec), _grid_slice_tuple=gst, _config=cfg, _is_symmetry_wall=False), f"per{a}{d}"))
            elif walls:
                objs.append(Obj(ix.cls(PEC), dict(name=f"pec_{a}{d}", axis=a, direction=d, _grid_slice_tuple=gst, _config=cfg, _is_symmetry_wall=False), f"pec{a}{d}"))
    OC = ix.cls("fdtdx.fdtd.container.ObjectContainer")
    stub_repo_calls(it, {"_check_updated_state_layout": lambda it_, a, k: None})
    return it, sc, Obj(OC, {"object_list": objs, "volume_idx": 0}, "objects"), cfg, cplx


def _one_step(it, sc, objs, cfg, E, H, ie, im, disp=None):
    if disp is not None:
        P, Qp, c1, c2, c3 = disp
        arrays = sc.arrays(fields=sc.fields(E=E, H=H, dispersive_P_curr=P, dispersive_P_prev=Qp), inv_permittivities=ie, inv_permeabilities=im, detector_states={}, dispersive_c1=c1, dispersive_c2=c2, dispersive_c3=c3, dispersive_c4=None)
        try:
            state = it.call_function("fdtdx.fdtd.forward.forward", state=(0, arrays), config=cfg, objects=objs, key=Rat.atom("key"), record_detectors=False, record_boundaries=False, simulate_boundaries=True)
        except Raised as r:
            raise AnalysisError(f"forward raises on the concrete periodic scene with oriented poles: {r}")
        f = state[1].attrs["fields"]
        return f.attrs["E"], f.attrs["H"], f.attrs["dispersive_P_curr"]
    arrays = sc.arrays(fields=sc.fields(E=E, H=H), inv_permittivities=ie, inv_permeabilities=im, detector_states={})
    try:
        state = it.call_function("fdtdx.fdtd.forward.forward", state=(0, arrays), config=cfg, objects=objs, key=Rat.atom("key"), record_detectors=False, record_boundaries=False, simulate_boundaries=True)
    except Raised as r:
        raise AnalysisError(f"forward raises on the concrete periodic scene: {r}")
    f = state[1].attrs["fields"]
    return f.attrs["E"], f.attrs["H"]


SUPERCELLS = [
    # label, shape, reps, periodic axes, k, material components (eps, mu), resolved non-uniform grid
    ("uniform:x-periodic:diag", (3, 2, 2), (2, 1, 1), (True, False, False), (0, 0, 0), (3, 3), False),
    ("stretched:x-periodic:diag", (3, 2, 2), (2, 1, 1), (True, False, False), (0, 0, 0), (3, 3), True),
    ("stretched:yz-periodic:iso", (2, 2, 2), (1, 2, 2), (False, True, True), (0, 0, 0), (1, 1), True),
    ("stretched:x-periodic:full-eps", (2, 2, 2), (2, 1, 1), (True, False, False), (0, 0, 0), (9, 1), True),
    ("stretched:y-periodic:full-mu", (2, 2, 2), (1, 2, 1), (False, True, False), (0, 0, 0), (1, 9), True),
    ("uniform:x-bloch:diag", (3, 2, 2), (2, 1, 1), (True, False, False), (Fr(3, 2), 0, 0), (3, 3), False),
    ("stretched:y-bloch:diag", (2, 2, 2), (1, 2, 1), (False, True, False), (0, Fr(-5, 4), 0), (3, 3), True),
    ("stretched:z-bloch:iso", (2, 2, 2), (1, 1, 3), (False, False, True), (0, 0, Fr(7, 4)), (1, 1), True),
]
THOROUGH_SUPERCELLS = [
    ("stretched:z-periodic:full-eps-full-mu", (2, 1, 2), (1, 1, 2), (False, False, True), (0, 0, 0), (9, 9), True),
    ("stretched:xyz-periodic:diag", (2, 2, 2), (2, 2, 2), (True, True, True), (0, 0, 0), (3, 3), True),
    ("stretched:x-periodic:x3:diag", (2, 2, 2), (3, 1, 1), (True, False, False), (0, 0, 0), (3, 3), True),
    ("stretched:yz-periodic:iso:3", (2, 3, 2), (1, 2, 2), (False, True, True), (0, 0, 0), (1, 1), True),
    ("stretched:y-bloch:diag:3", (2, 3, 2), (1, 2, 1), (False, True, False), (0, Fr(-5, 4), 0), (3, 3), True),
    ("stretched:x-periodic:full-eps:3", (3, 2, 2), (2, 1, 1), (True, False, False), (0, 0, 0), (9, 3), True),
    ("stretched:z-periodic:full-mu:3", (2, 2, 3), (1, 1, 2), (False, False, True), (0, 0, 0), (3, 9), True),
    ("stretched:xz-bloch:iso", (3, 2, 2), (2, 1, 2), (True, False, True), (Fr(1, 2), 0, Fr(-7, 4)), (1, 1), True),
]


def _supercell_case(ctx, payload):
    label, shape, reps, periodic, kvec, comps, stretched = payload
    big = tuple(shape[a] * reps[a] for a in range(3))
    # full tensors: distinct widths on the periodic axes only (one symbol per other axis) keeps the forms small
    only_periodic = stretched and 9 in comps
    widths = [[Rat.atom((f"w{a}", i if (periodic[a] or not only_periodic) else 0)) for i in range(shape[a])] for a in range(3)] if stretched else None
    E0, H0 = _sym_arr("E", 3, shape), _sym_arr("H", 3, shape)
    ie, im = _sym_arr("ie", comps[0], shape), _sym_arr("im", comps[1], shape)
    it, sc, objs, cfg, cplx = _supercell_scene(ctx, shape, periodic, kvec, widths)
    E1, H1 = _one_step(it, sc, objs, cfg, E0, H0, ie, im)
    phases = None
    if cplx:
        phases = []
        for a in range(3):
            if to_rat(kvec[a]).is_zero() or not periodic[a]:
                phases.append(Rat.const(1))
            else:
                L = sum((to_rat(w) for w in widths[a]), Rat.const(0)) if stretched else shape[a] * Rat.atom("res")
                phases.append(apply_fn("exp", Rat.atom(I) * to_rat(kvec[a]) * L))
    wbig = [[widths[a][i % shape[a]] for i in range(big[a])] for a in range(3)] if stretched else None
    itb, scb, objsb, cfgb, _ = _supercell_scene(ctx, big, periodic, kvec, wbig)
    EB1, HB1 = _one_step(itb, scb, objsb, cfgb, _tile(E0, reps, phases), _tile(H0, reps, phases), _tile(ie, reps), _tile(im, reps))
    bad, n = None, 0
    for ft, got, want in (("E", EB1, _tile(E1, reps, phases)), ("H", HB1, _tile(H1, reps, phases))):
        if not (isinstance(got, NdArr) and got.shape == want.shape):
            raise AnalysisError(f"{label}: step returns {getattr(got, 'shape', got)}")
        for i, (g, w) in enumerate(zip(got.data, want.data)):
            n += 1
            if not to_rat(g).equals(to_rat(w)) and not normalise_exp(to_rat(g) - to_rat(w)).is_zero():
                bad = bad or (f"{ft} entry {i} of {got.shape}", to_rat(g).fmt()[:260], to_rat(w).fmt()[:260])
    ctx.ob("R9.5", f"supercell-step[{label}]", bad is None and n >= 6 * 8, f"one whole forward step of the {big} supercell (materials tiled {reps}, fields tiled with the Bloch phase per copy, same faces{', cell widths tiled' if stretched else ''}) equals the tiled step of the {shape} cell, entry by entry as rational functions of free field, material{' and cell-width' if stretched else ''} symbols" + (f" — differs for {bad[0]}" if bad else ""), bad[1] if bad else f"{n} entries", bad[2] if bad else "tile(step(cell))")


def _lead_tile(F, reps, phases=None):
    """tile an array with two leading axes (pole, component) over its three spatial axes"""
    a, b = F.shape[:2]
    flat = NdArr((a * b,) + F.shape[2:], list(F.data))
    t = _tile(flat, reps, phases)
    return NdArr((a, b) + t.shape[1:], list(t.data))


def _oriented_case(ctx, payload):
    """the same identity with an oriented-pole medium (3x3 coupling per pole, full permittivity tensor) that fills only
    part of the cell, across a Bloch seam: the coefficient halo of the symmetrised off-diagonal coupling must wrap
    exactly where the field halo wraps"""
    from .. import absint

    label, shape, reps, periodic, kvec = payload
    big = tuple(shape[a] * reps[a] for a in range(3))
    cells = list(itertools.product(*[range(n) for n in shape]))
    medium = lambda p: p[0] == 0  # the first layer along x carries the poles; the rest of the cell is plain

    def nonzero_coeff(op, d):
        ats = d.atoms()
        if len(ats) == 1:
            (a_,) = ats
            if isinstance(a_, tuple) and a_ and a_[0] in ("g", "a", "b") and (d - Rat.atom(a_)).is_zero():
                return {"eq": False, "ne": True}.get(op)
        return None

    tab = lambda nm, comps: NdArr((1, comps) + shape, [(Rat.atom((nm, c) + p) if medium(p) else 0) for c in range(comps) for p in cells])
    E0, H0 = _sym_arr("E", 3, shape), _sym_arr("H", 3, shape)
    ie, im = _sym_arr("ie", 9, shape), _sym_arr("im", 1, shape)
    P0 = NdArr((1, 3) + shape, [Rat.atom(("P", c) + p) if medium(p) else 0 for c in range(3) for p in cells])
    Q0 = NdArr((1, 3) + shape, [Rat.atom(("Q", c) + p) if medium(p) else 0 for c in range(3) for p in cells])
    c1, c2, c3 = tab("a", 3), tab("b", 3), tab("g", 9)
    absint.COMPARE_ORACLES.append(nonzero_coeff)
    try:
        it, sc, objs, cfg, cplx = _supercell_scene(ctx, shape, periodic, kvec, None)
        E1, H1, P1 = _one_step(it, sc, objs, cfg, E0, H0, ie, im, disp=(P0, Q0, c1, c2, c3))
        phases = None
        if cplx:
            phases = [Rat.const(1) if (to_rat(kvec[a]).is_zero() or not periodic[a]) else apply_fn("exp", Rat.atom(I) * to_rat(kvec[a]) * shape[a] * Rat.atom("res")) for a in range(3)]
        itb, scb, objsb, cfgb, _ = _supercell_scene(ctx, big, periodic, kvec, None)
        EB, HB, PB = _one_step(itb, scb, objsb, cfgb, _tile(E0, reps, phases), _tile(H0, reps, phases), _tile(ie, reps), _tile(im, reps), disp=(_lead_tile(P0, reps, phases), _lead_tile(Q0, reps, phases), _lead_tile(c1, reps), _lead_tile(c2, reps), _lead_tile(c3, reps)))
    finally:
        absint.COMPARE_ORACLES.remove(nonzero_coeff)
    bad, n = None, 0
    for nm, got, want in (("E", EB, _tile(E1, reps, phases)), ("H", HB, _tile(H1, reps, phases)), ("P", PB, _lead_tile(P1, reps, phases))):
        if not (isinstance(got, NdArr) and got.shape == want.shape):
            raise AnalysisError(f"{label}: step returns {getattr(got, 'shape', got)} for {nm}")
        for i, (g, w) in enumerate(zip(got.data, want.data)):
            n += 1
            if not to_rat(g).equals(to_rat(w)) and not normalise_exp(to_rat(g) - to_rat(w)).is_zero():
                bad = bad or (f"{nm} entry {i} of {got.shape}", to_rat(g).fmt()[:240], to_rat(w).fmt()[:240])
    ctx.ob("R9.5", f"supercell-step[{label}]", bad is None and n >= 100, f"one whole forward step of the {big} supercell equals the tiled step of the {shape} cell for fields and stored polarisation, with an oriented-pole medium in part of the cell (3x3 coupling, symmetrised pair weights read the coefficient halo across the seam)" + (f" — differs for {bad[0]}" if bad else ""), bad[1] if bad else f"{n} entries", bad[2] if bad else "tile(step(cell))")


ORIENTED = [
    ("oriented-poles:x-bloch", (2, 2, 2), (2, 1, 1), (True, False, False), (Fr(3, 2), 0, 0)),
    ("oriented-poles:x-periodic", (2, 2, 2), (2, 1, 1), (True, False, False), (0, 0, 0)),
]


def _supercell_steps(ctx, tier):
    from .. import par

    fwd = ctx.index.function("fdtdx.fdtd.forward.forward")
    ctx.unit(fwd.where())
    for q in ("fdtdx.fdtd.update.update_E", "fdtdx.fdtd.update.update_H", "fdtdx.core.physics.curl.curl_E", "fdtdx.core.physics.curl.curl_H"):
        ctx.unit(ctx.index.function(q).where())
    cases = SUPERCELLS + (THOROUGH_SUPERCELLS if tier == "thorough" else [])
    err = par.run_jobs(ctx, "sa.checks.c09", "_supercell_case", cases, [c[0] for c in cases])
    if err:
        raise AnalysisError(err)
    err = par.run_jobs(ctx, "sa.checks.c09", "_oriented_case", ORIENTED, [c[0] for c in ORIENTED])
    if err:
        raise AnalysisError(err)


def run(ctx):
    _halo_rules(ctx)
    _flags(ctx)
    _who_may_pad(ctx)
    _config_kinds(ctx)
    _supercell_steps(ctx, ctx.tier)
    ctx.require_count("C09", len(ctx.obligations), 16 + len(SUPERCELLS) + len(ORIENTED))
    ctx.trusted_base += ["np.pad model on concrete arrays", "syntax-tree def-use of the padded inputs (single-assignment names)"]
    ctx.assume("uniform resolution L = N*res or resolved-grid extent; the supercell copy c carries exp(i k c L)")
