"""C31 — setups survive a JSON round trip (writer / reader agreement, decided on abstract object graphs)."""

from __future__ import annotations

import ast
from fractions import Fraction as Fr

from ..absint import BUILTINS, ExtRef
from ..index import AnalysisError
from ..poly import Rat
from ..values import Builtin, ClassRef, Obj, Raised, RepoMod, to_rat

LEVEL = "other"
EXPLANATION = (
    "place_objects is a function of (config, object_list, constraints); the round trip preserves grid slices and "
    "arrays when import(export(x)) rebuilds the same three values.  Decided by interpreting the repo's own "
    "_export_json / _import_obj_from_json / JsonSetup.dumps / loads / validate on abstract object graphs, with json "
    "itself modelled as what it is specified to do (dict keys sorted, lists kept in order, tuples written as lists): "
    "(1) for every node form the writer emits — None, scalars, tuples, lists, string-keyed dicts, frozen dataclasses "
    "(the four constraint kinds), tree classes (configuration, grid policy, volume, material objects, sources with "
    "nested wave character / profile / switch, detectors) and every member of JAX_DTYPES — the reader rebuilds a value "
    "of the same class with equal public fields, recursively, tuples staying tuples and lists lists; (2) a whole "
    "setup with several overlapping objects whose names are not in alphabetical order comes back with object_list and "
    "constraints in the original order (list order decides which of two overlapping equal-priority objects is "
    "painted last); (3) every dtype of JAX_DTYPES is written as the dotted name the reader resolves back to the same "
    "dtype; (4) the public fields a tree class exports are exactly the keyword arguments its constructor accepts "
    "(init flag), for every class the validator admits.  That place_objects is deterministic in those three values, "
    "and float formatting by json (shortest round-trip repr) are assumed."
)

JSON = "fdtdx.conversion.json"


class JStr:
    """What json.dumps(sort_keys=True) denotes: the value with dict keys sorted and tuples turned into lists."""

    def __init__(self, v):
        self.v = v


def _norm(v):
    if isinstance(v, dict):
        for k in v:
            if not isinstance(k, str):
                raise Raised("TypeError", "keys must be str")
        return {k: _norm(v[k]) for k in sorted(v)}
    if isinstance(v, (list, tuple)):
        return [_norm(x) for x in v]
    if v is None or isinstance(v, (bool, int, float, str, Fr)):
        return v
    if isinstance(v, Rat):
        return v
    raise Raised("TypeError", f"Object of type {type(v).__name__} is not JSON serializable")


def _is_dataclass_cls(ci):
    for d in ci.node.decorator_list:
        s = ast.unparse(d)
        if s.split("(")[0].split(".")[-1] == "dataclass":
            return True
    return False


def _init_fields(ci):
    """Names of the fields a tree class takes in its constructor (init flag of the field helper)."""
    out = []
    for name, (c, (ann, val)) in ci.all_fields().items():
        if ann is None:
            continue
        if ast.unparse(ann).startswith("ClassVar"):
            continue
        init = True
        if isinstance(val, ast.Call):
            helper = ast.unparse(val.func).split(".")[-1]
            if helper in ("private_field", "frozen_private_field"):
                init = False
            for kw in val.keywords:
                if kw.arg == "init" and isinstance(kw.value, ast.Constant):
                    init = bool(kw.value.value)
        if init:
            out.append(name)
    return out


def _interp(ctx):
    ix = ctx.index
    it = ctx.fresh_interp()
    TC = ix.cls("fdtdx.core.jax.pytrees.TreeClass")
    ov = it.ext_overrides
    ov["dataclasses.is_dataclass"] = lambda it_, a, k: isinstance(a[0], Obj) and a[0].cls is not None and _is_dataclass_cls(a[0].cls)
    ov["json.dumps"] = lambda it_, a, k: JStr(_norm(a[0])) if k.get("sort_keys") else JStr(a[0])
    ov["json.loads"] = lambda it_, a, k: _norm(a[0].v) if isinstance(a[0], JStr) else (_ for _ in ()).throw(AnalysisError("json.loads of a non-json value"))
    ov["importlib.metadata.version"] = lambda it_, a, k: "0.0"

    def regex(fn):
        # constant folding: a regular expression applied to a concrete string is evaluated by the stdlib
        def h(it_, a, k):
            import re as _re

            if not all(isinstance(x, str) for x in a[:2]):
                raise AnalysisError("regular expression on a non-constant string")
            m = getattr(_re, fn)(a[0], a[1])
            if m is None:
                return None
            return Obj(None, {"group": Builtin("group", lambda it2, aa, kk, _m=m: _m.group(*aa)), "groups": Builtin("groups", lambda it2, aa, kk, _m=m: _m.groups())}, "match")

        return h

    for fn in ("search", "match", "fullmatch"):
        ov[f"re.{fn}"] = regex(fn)

    def import_module(it_, a, k):
        name = a[0]
        if name in ix.modules:
            return RepoMod(name)
        if name == "builtins":
            return Obj(None, dict(BUILTINS), "builtins")
        return ExtRef(name)

    ov["importlib.import_module"] = import_module

    def attr_hook(it_, obj, name):
        if name == "__dict__" and isinstance(obj, Obj) and obj.cls is not None:
            return dict(obj.attrs)
        if name == "get_public_fields" and isinstance(obj, Obj) and obj.cls is not None and obj.cls.is_subclass_of(TC):
            def gpf(it2, a, k, _o=obj):
                return [Obj(None, {"name": n, "value": it2.getattr(_o, n)}, "field") for n in _init_fields(_o.cls)]

            return Builtin("get_public_fields", gpf)
        return NotImplemented

    it.attr_hooks.append(attr_hook)
    from ..harness import stub_repo_calls

    # hardware probing in the configuration's post-init is environment, not data
    stub_repo_calls(it, {"fdtdx.config.SimulationConfig.__post_init__": lambda it_, a, k: None})
    return it


def _deep_equal(a, b, path="value", it=None):
    """None when equal, else a description of the first difference."""
    if isinstance(a, Obj) and isinstance(b, Obj):
        if a.cls is not b.cls:
            return f"{path}: class {getattr(b.cls, 'name', None)} instead of {getattr(a.cls, 'name', None)}"
        names = _init_fields(a.cls) if not _is_dataclass_cls(a.cls) else [n for n in a.attrs if not n.startswith("_")]
        for n in names:
            try:
                va = it.getattr(a, n) if it is not None else a.attrs[n]
                vb = it.getattr(b, n) if it is not None else b.attrs[n]
            except (AnalysisError, KeyError):
                if n not in a.attrs and n not in b.attrs:
                    continue  # a required field neither side carries: nothing was exported for it
                return f"{path}.{n}: present on one side only"
            d = _deep_equal(va, vb, f"{path}.{n}", it)
            if d:
                return d
        return None
    if isinstance(a, (list, tuple)) or isinstance(b, (list, tuple)):
        if type(a) is not type(b):
            return f"{path}: {type(b).__name__} instead of {type(a).__name__}"
        if len(a) != len(b):
            return f"{path}: length {len(b)} instead of {len(a)}"
        for i, (x, y) in enumerate(zip(a, b)):
            d = _deep_equal(x, y, f"{path}[{i}]", it)
            if d:
                return d
        return None
    if isinstance(a, dict) or isinstance(b, dict):
        if not (isinstance(a, dict) and isinstance(b, dict)) or set(a) != set(b):
            return f"{path}: dict keys differ"
        for k in a:
            d = _deep_equal(a[k], b[k], f"{path}[{k!r}]", it)
            if d:
                return d
        return None
    if isinstance(a, ExtRef) or isinstance(b, ExtRef):
        if not (isinstance(a, ExtRef) and isinstance(b, ExtRef) and _dtype_name(a) == _dtype_name(b)):
            return f"{path}: {getattr(b, 'name', b)!r} instead of {getattr(a, 'name', a)!r}"
        return None
    if a is None or b is None or isinstance(a, (bool, str)) or isinstance(b, (bool, str)):
        return None if (a == b and type(a) is type(b)) else f"{path}: {b!r} instead of {a!r}"
    try:
        return None if to_rat(a).equals(to_rat(b)) else f"{path}: {b!r} instead of {a!r}"
    except Exception:
        return None if a is b else f"{path}: incomparable values {a!r} / {b!r}"


def _dtype_name(e: ExtRef):
    return e.name.replace("jnp.", "jax.numpy.").split(".")[-1]


def _roundtrip(ctx, it, value):
    ix = ctx.index
    exp = ix.function(f"{JSON}.export_json_str")
    imp = ix.function(f"{JSON}.import_from_json")
    s = it.call(it.closure_of(exp), [value], {})
    return it.call(it.closure_of(imp), [s], {})


def _scene(ctx, it):
    """A setup with nested tree classes, tuples, lists, dtypes and names out of alphabetical order."""
    ix = ctx.index
    mk = lambda q, **kw: it.instantiate(ix.cls(q), [], kw)
    f32, bf16 = ExtRef("jax.numpy.float32"), ExtRef("jax.numpy.bfloat16")
    grid = mk("fdtdx.core.grid.UniformGrid", spacing=Fr(1, 20), center=(0, Fr(1, 2), 0))
    cfg = Obj(ix.cls("fdtdx.config.SimulationConfig"), dict(time=Fr(3, 2), grid=grid, backend="cpu", dtype=bf16, courant_factor=Fr(99, 100), gradient_config=None, symmetry=(0, -1, 0)), "config")
    vol = Obj(ix.cls("fdtdx.objects.static_material.static.SimulationVolume"), dict(name="volume", partial_real_shape=(Fr(2), Fr(2), None), partial_grid_shape=(None, None, 30)), "volume")
    MAT = ix.cls("fdtdx.materials.Material")
    try:
        m1 = it.instantiate(MAT, [], dict(permittivity=Fr(5, 2)))
        m2 = it.instantiate(MAT, [], dict(permittivity=(Fr(4), Fr(4), Fr(9, 2)), electric_conductivity=Fr(1, 10)))
    except Raised as r:
        raise AnalysisError(f"Material(...) raises: {r}")
    UMO = ix.cls("fdtdx.objects.static_material.static.UniformMaterialObject")
    sub = Obj(UMO, dict(name="substrate", material=m1, partial_real_shape=(None, None, Fr(1, 2)), placement_order=0, color=(Fr(1, 2), Fr(1, 2), Fr(1, 2))), "substrate")
    core = Obj(UMO, dict(name="core", material=m2, partial_grid_shape=(4, 4, 4), placement_order=0, color=None), "core")
    WC = ix.cls("fdtdx.core.wavelength.WaveCharacter")
    wc = Obj(WC, dict(wavelength=Fr(31, 20), phase_shift=Fr(1, 4)), "wc")
    prof = Obj(ix.cls("fdtdx.objects.sources.profile.GaussianPulseProfile"), dict(spectral_width=Obj(WC, dict(frequency=Fr(1, 8)), "wc3"), center_wave=Obj(WC, dict(frequency=Fr(7, 3), phase_shift=Fr(1, 5)), "wc2")), "profile")
    sw = Obj(ix.cls("fdtdx.core.switch.OnOffSwitch"), dict(start_time=Fr(1, 10), end_time=None, interval=2, fixed_on_time_steps=[1, 4, 9]), "switch")
    src = Obj(ix.cls("fdtdx.objects.sources.linear_polarization.UniformPlaneSource"), dict(name="a_source", wave_character=wc, temporal_profile=prof, switch=sw, direction="-", fixed_E_polarization_vector=(1, 0, 0), partial_grid_shape=(None, None, 1), amplitude=Fr(3, 2)), "src")
    det = Obj(ix.cls("fdtdx.objects.detectors.energy.EnergyDetector"), dict(name="detector", dtype=f32, as_slices=True, reduce_volume=False, switch=sw, partial_grid_shape=(None, 1, None)), "det")
    objects = [vol, sub, core, src, det]
    PCq, SCq, SEq, GCq = (f"fdtdx.objects.object.{n}" for n in ("PositionConstraint", "SizeConstraint", "SizeExtensionConstraint", "GridCoordinateConstraint"))
    constraints = [
        Obj(ix.cls(PCq), dict(object="substrate", other_object="volume", axes=(2,), object_positions=(-1,), other_object_positions=(-1,), margins=(0,), grid_margins=(0,)), "pc"),
        Obj(ix.cls(SCq), dict(object="core", other_object="substrate", axes=(0, 1), proportions=(Fr(1, 2), Fr(1, 2)), offsets=(0, 0), grid_offsets=(0, 0)), "sc"),
        Obj(ix.cls(SEq), dict(object="detector", other_object=None, axis=0, direction="+", other_position=0, offset=0, grid_offset=0), "se"),
        Obj(ix.cls(GCq), dict(object="a_source", axes=(2,), sides=("-",), coordinates=(20,)), "gc"),
        Obj(ix.cls(PCq), dict(object="core", other_object="substrate", axes=(0, 1, 2), object_positions=(0, 0, 1), other_object_positions=(0, 0, 1), margins=(0, 0, 0), grid_margins=(0, 0, 0)), "pc2"),
    ]
    return cfg, objects, constraints


def _forms(ctx):
    ix = ctx.index
    for q in ("_export_json", "_import_obj_from_json", "export_json", "import_from_json", "_json_dict_to_str"):
        ctx.unit(ix.function(f"{JSON}.{q}").where())
    it = _interp(ctx)
    cfg, objects, constraints = _scene(ctx, it)
    forms = [("None", {"x": None}), ("scalars", {"i": 3, "f": Fr(5, 2), "s": "text", "b": True}), ("tuple", {"t": (1, (2, 3), "a")}), ("list", {"l": [1, [2, 3], (4,)]}), ("nested dict", {"d": {"k": {"z": 1, "a": [1, 2]}}})]
    forms += [(f"constraint {c.cls.name}[{i}]", {"c": c}) for i, c in enumerate(constraints)]
    forms += [(f"object {o.cls.name} '{o.attrs['name']}'", {"o": o}) for o in objects]
    forms += [("SimulationConfig", {"config": cfg})]
    n = 0
    for label, value in forms:
        try:
            back = _roundtrip(ctx, it, value)
        except Raised as r:
            ctx.ob("R31.1", f"round-trip[{label}]", False, "export then import succeeds", str(r)[:200], "same value")
            continue
        diff = _deep_equal(value, back, "value", it)
        n += 1
        ctx.ob("R31.1", f"round-trip[{label}]", diff is None, "import(export(x)) has the class of x and equal public fields, recursively; tuples stay tuples, lists stay lists, dict keys are kept", diff, "equal")
    ctx.require_count("R31.1 node forms", n, 14)


def _dtypes(ctx):
    ix = ctx.index
    it = _interp(ctx)
    names = [ast.unparse(e) for e in _jax_dtypes_node(ix).elts]
    bad = []
    for nm in names:
        ref = ExtRef(nm.replace("jnp.", "jax.numpy."))
        it.ext_overrides["str"] = None
        try:
            back = _roundtrip(ctx, it, {"dtype": ref})
        except Raised as r:
            bad.append((nm, str(r)[:80]))
            continue
        got = back.get("dtype") if isinstance(back, dict) else None
        if not (isinstance(got, ExtRef) and _dtype_name(got) == _dtype_name(ref) and got.name.rsplit(".", 1)[0] in ("jax.numpy", "jnp")):
            bad.append((nm, getattr(got, "name", got)))
    ctx.ob("R31.3", "round-trip[JAX_DTYPES]", not bad and len(names) >= 15, f"each of the {len(names)} members of JAX_DTYPES is written as 'jax.numpy.<name>' and read back as the same jax.numpy attribute", bad[:4], "same dtype")


def _jax_dtypes_node(ix):
    mi = ix.module("fdtdx.typing")
    for st in mi.tree.body:
        if isinstance(st, ast.Assign) and any(isinstance(t, ast.Name) and t.id == "JAX_DTYPES" for t in st.targets) and isinstance(st.value, ast.List):
            return st.value
    raise AnalysisError("JAX_DTYPES is no longer a literal list in fdtdx.typing")


def _setup(ctx):
    ix = ctx.index
    JS = ix.cls(f"{JSON}.JsonSetup")
    for m in ("dumps", "loads", "from_dict", "validate", "_unwrap_list"):
        ctx.unit(JS.lookup_method(m).where())
    it = _interp(ctx)
    cfg, objects, constraints = _scene(ctx, it)
    setup = Obj(JS, dict(config=cfg, object_list=objects, constraints=constraints, meta={"note": "n", "tags": ["a", "b"]}), "setup")
    try:
        s = it.call_method(setup, "dumps")
        back = it.call(it.getattr(ClassRef(JS), "loads"), [s], {})
    except Raised as r:
        ctx.ob("R31.2", "JsonSetup.dumps/loads", False, "the round trip of a whole setup succeeds", str(r)[:240], "setup")
        return
    names_in = [o.attrs["name"] for o in objects]
    names_out = [o.attrs.get("name") for o in back.attrs.get("object_list", [])] if isinstance(back, Obj) else None
    ctx.ob("R31.2", "JsonSetup:object-order", names_out == names_in and sorted(names_in) != names_in, "object_list comes back in its original order (the scene lists 'substrate' before the embedded 'core': the order decides which of two overlapping objects with equal placement_order is painted last)", names_out, names_in)
    cons_out = back.attrs.get("constraints") if isinstance(back, Obj) else None
    d = _deep_equal(constraints, cons_out, "constraints", it) if isinstance(cons_out, list) else "not a list"
    ctx.ob("R31.2", "JsonSetup:constraints", d is None, "the constraints come back equal and in order", d, "equal")
    d = _deep_equal(objects, back.attrs.get("object_list"), "object_list", it) if isinstance(back, Obj) else "no setup"
    ctx.ob("R31.2", "JsonSetup:objects", d is None, "every object comes back with its class and public fields", d, "equal")
    d = _deep_equal(cfg, back.attrs.get("config"), "config", it) if isinstance(back, Obj) else "no setup"
    ctx.ob("R31.2", "JsonSetup:config", d is None, "the configuration (grid policy, dtype, symmetry, times) comes back equal", d, "equal")
    d = _deep_equal(setup.attrs["meta"], back.attrs.get("meta"), "meta", it) if isinstance(back, Obj) else "no setup"
    ctx.ob("R31.2", "JsonSetup:meta", d is None, "free-form metadata survives", d, "equal")


def _constructor_agreement(ctx):
    """Exported public fields == constructor keywords, for every class the validator admits."""
    ix = ctx.index
    JS = ix.cls(f"{JSON}.JsonSetup")
    val = JS.lookup_method("validate")
    names = set()
    for node in ast.walk(val.node):
        if isinstance(node, ast.Assign) and isinstance(node.targets[0], ast.Name) and node.targets[0].id in ("valid_object_names", "valid_constraint_names") and isinstance(node.value, ast.Set):
            names |= {e.value for e in node.value.elts if isinstance(e, ast.Constant)}
    TC = ix.cls("fdtdx.core.jax.pytrees.TreeClass")
    bad, n = [], 0
    for nm in sorted(names):
        cands = [c for c in ix.classes.values() if c.name == nm]
        if not cands:
            bad.append((nm, "no such class"))
            continue
        for ci in cands:
            n += 1
            if _is_dataclass_cls(ci):
                continue  # dataclasses export __dict__ and rebuild with cls(**fields): the same names by construction
            if not ci.is_subclass_of(TC):
                bad.append((nm, "neither a dataclass nor a tree class"))
                continue
            if ci.lookup_method("__init__") is not None and ci.lookup_method("__init__").where().split(":")[0].endswith("pytrees.py") is False:
                init = ci.lookup_method("__init__")
                params = {a.arg for a in init.node.args.args[1:] + init.node.args.kwonlyargs}
                missing = [f for f in _init_fields(ci) if f not in params and init.node.args.kwarg is None]
                if missing:
                    bad.append((nm, f"exported fields the hand-written constructor does not take: {missing}"))
    ctx.ob("R31.4", "validator classes:constructor-agreement", not bad and n >= 24, f"every class the validator admits ({n} classes) is either a dataclass or a tree class whose exported public fields are constructor keywords (generated constructor: by the init flag; hand-written constructor: parameter names checked)", bad[:4], "fields == keywords")


def _arrays(ctx):
    """Edge arrays of an explicit grid (and arrays in general) come back entry by entry."""
    from ..ndarr import NdArr

    ix = ctx.index
    it = _interp(ctx)
    ov = it.ext_overrides

    def allclose(it_, a, k):
        x, y = a[0], a[1]
        xs = [to_rat(v).const_value() for v in (x.data if isinstance(x, NdArr) else [x])]
        ys = [to_rat(v).const_value() for v in (y.data if isinstance(y, NdArr) else [y])]
        if len(ys) == 1:
            ys = ys * len(xs)
        rtol, atol = Fr(k.get("rtol", Fr(1, 10**5))), Fr(k.get("atol", Fr(1, 10**8)))
        return all(abs(p - q) <= atol + rtol * abs(q) for p, q in zip(xs, ys))

    def linspace(it_, a, k):
        kw = dict(zip(("start", "stop", "num"), a))
        kw.update(k)
        n = int(to_rat(kw["num"]).const_value())
        lo, hi = to_rat(kw["start"]).const_value(), to_rat(kw["stop"]).const_value()
        return NdArr((n,), [lo + (hi - lo) * Fr(i, n - 1) for i in range(n)])

    ov["np.allclose"] = allclose
    ov["np.linspace"] = linspace
    ov["np.asarray"] = lambda it_, a, k: a[0] if isinstance(a[0], NdArr) else NotImplemented
    class JaxArr(NdArr):
        array_kind = "jax"

    class NpArr(NdArr):
        array_kind = "numpy"

    nm = Fr(1, 10**9)
    widths = [28 * nm, 26 * nm, 24 * nm, 22 * nm, 20 * nm]  # graded, nanometre scale: differences far below numpy's default atol
    z, acc = [Fr(0)], Fr(0)
    for w in widths:
        acc += w
        z.append(acc)
    cases = {
        "graded edges (nm)": NdArr((len(z),), z),
        "uniform edges": NdArr((5,), [Fr(-1, 2) + Fr(i, 4) for i in range(5)]),
        "two entries": NdArr((2,), [Fr(0), Fr(3, 10**7)]),
        "2-d": NdArr((2, 3), [Fr(i, 7) for i in range(6)]),
    }
    bad = []
    both = {}
    for label, arr in cases.items():
        both[label + " [jax]"] = JaxArr(arr.shape, arr.data)
        both[label + " [numpy]"] = NpArr(arr.shape, arr.data)
    for label, arr in both.items():
        try:
            back = _roundtrip(ctx, it, {"a": arr})
        except Raised as r:
            bad.append((label, str(r)[:100]))
            continue
        got = back.get("a") if isinstance(back, dict) else None
        if not (isinstance(got, NdArr) and got.shape == arr.shape and all(to_rat(x).equals(to_rat(y)) for x, y in zip(got.data, arr.data))):
            first = next((i for i, (x, y) in enumerate(zip(getattr(got, "data", []), arr.data)) if not to_rat(x).equals(to_rat(y))), None)
            bad.append((label, f"shape {getattr(got, 'shape', got)}; first differing entry {first}"))
    ctx.ob("R31.5", "round-trip[arrays]", not bad, "arrays (the edge coordinates of an explicit grid: graded at the nanometre scale, uniform, two entries; a 2-d array) come back with the same shape and the same entries — no entry is recomputed from a summary of the array", bad, "entry-wise equal")
    # an explicit grid inside a configuration
    RG = ix.cls("fdtdx.core.grid.RectilinearGrid")

    def hook(it_, callee, args, kwargs):
        if isinstance(callee, ClassRef) and callee.ci is RG:
            return Obj(RG, dict(kwargs), "grid")  # the derived attributes are functions of the edges (C37 / C38)
        return NotImplemented

    it.call_hooks.insert(0, hook)
    grid = Obj(RG, dict(x_edges=both["uniform edges [jax]"], y_edges=both["uniform edges [jax]"], z_edges=both["graded edges (nm) [jax]"]), "grid")
    cfg = Obj(ix.cls("fdtdx.config.SimulationConfig"), dict(time=Fr(1), grid=grid, backend="cpu", dtype=ExtRef("jax.numpy.float32"), courant_factor=Fr(99, 100), gradient_config=None, symmetry=(0, 0, 0)), "config")
    try:
        back = _roundtrip(ctx, it, {"config": cfg})
        g2 = back["config"].attrs["grid"]
        ok = isinstance(g2, Obj) and g2.cls is RG and all(isinstance(g2.attrs.get(n), NdArr) and all(to_rat(x).equals(to_rat(y)) for x, y in zip(g2.attrs[n].data, grid.attrs[n].data)) and g2.attrs[n].shape == grid.attrs[n].shape for n in ("x_edges", "y_edges", "z_edges"))
        detail = "edges equal" if ok else {n: getattr(g2.attrs.get(n), "shape", None) for n in ("x_edges", "y_edges", "z_edges")}
    except Raised as r:
        ok, detail = False, str(r)[:160]
    ctx.ob("R31.5", "round-trip[SimulationConfig with an explicit RectilinearGrid]", ok, "an explicit grid comes back with exactly its three edge arrays", detail, "edges equal")


def _purity(ctx):
    """export / import depend on their argument only: the module keeps no mutable state between calls."""
    ix = ctx.index

    def stateful(tree):
        mutable = {}
        for st in tree.body:
            tgt = None
            if isinstance(st, ast.Assign) and len(st.targets) == 1 and isinstance(st.targets[0], ast.Name):
                tgt, val = st.targets[0].id, st.value
            elif isinstance(st, ast.AnnAssign) and isinstance(st.target, ast.Name) and st.value is not None:
                tgt, val = st.target.id, st.value
            if tgt is None:
                continue
            if isinstance(val, (ast.Dict, ast.List, ast.Set, ast.ListComp, ast.DictComp, ast.SetComp)) or (isinstance(val, ast.Call) and ast.unparse(val.func).split(".")[-1] in ("dict", "list", "set", "defaultdict", "OrderedDict", "WeakValueDictionary", "WeakKeyDictionary")):
                mutable[tgt] = st.lineno
        hits = []
        for fn in ast.walk(tree):
            if isinstance(fn, (ast.FunctionDef, ast.AsyncFunctionDef)):
                for n in ast.walk(fn):
                    if isinstance(n, ast.Name) and n.id in mutable:
                        hits.append((fn.name, n.id))
                    if isinstance(n, ast.Global):
                        hits += [(fn.name, g) for g in n.names]
                    if isinstance(n, ast.Call) and ast.unparse(n.func).split(".")[-1] in ("lru_cache", "cache", "cached_property"):
                        hits.append((fn.name, ast.unparse(n.func)))
                for d in fn.decorator_list:
                    if ast.unparse(d).split("(")[0].split(".")[-1] in ("lru_cache", "cache"):
                        hits.append((fn.name, ast.unparse(d)))
        return sorted(set(hits))

    mi = ix.module(JSON)
    hits = stateful(mi.tree)
    probe = ast.parse("_C = {}\ndef f(o):\n    if o in _C:\n        return _C[o]\n    _C[o] = 1\n    return 1\n")
    ctx.ob("R31.6", f"{JSON}:stateless", not hits and bool(stateful(probe)), "no function of the serialisation module reads or writes a module-level container, declares a global or memoises: what is written for an object depends on that object alone, not on what was exported before (objects compare equal by name only, so any cache keyed on them would hand out stale data)", hits, "no module-level mutable state")


def run(ctx):
    _forms(ctx)
    _dtypes(ctx)
    _setup(ctx)
    _constructor_agreement(ctx)
    _arrays(ctx)
    _purity(ctx)
    ctx.require_count("C31", len(ctx.obligations), 25)
    ctx.trusted_base += [
        "json modelled by its specification (sort_keys sorts dict keys only; arrays keep order; tuples are written as arrays); importlib resolves a module by its dotted name",
        "str(<dtype class>) is \"<class 'jax.numpy.NAME'>\"",
        "place_objects is a deterministic function of (config, object_list, constraints)",
    ]
    ctx.assume("objects are serialised before placement (private, non-init state is not part of a setup)")
