"""C39 — material descriptions are normalised and classified consistently."""

from __future__ import annotations

import ast
import itertools
import re
from fractions import Fraction as Fr

from ..harness import mk_material
from ..index import AnalysisError
from ..poly import I, Rat
from ..values import AbsVal, Builtin, Obj, Raised, to_rat

LEVEL = "other"
EXPLANATION = (
    "Decides the material description code by abstract interpretation.  (1) _normalize_material_property maps a "
    "scalar, a 3-tuple, a flat 9-tuple and a nested 3x3 tuple of pairwise distinct values to the same row-major "
    "9-tuple (positions identified by the distinct values); malformed tuples are rejected.  (2) Predicates against "
    "the tensor: for each of the four properties, perturbing any single off-diagonal entry (all six positions) "
    "falsifies both the isotropic and the diagonal predicate, unequal diagonals falsify only the isotropic one, "
    "and the per-property Material predicates (isotropic / diagonal / magnetic / conductive) react to their own "
    "property and to no other.  (3) One material order: compute_ordered_names / _materials and the four "
    "compute_allowed_* lists (all three tiers) enumerate a shuffled dictionary in the same order, the tier slices "
    "are (xx), (xx, yy, zz), all nine; and no function of the package other than "
    "compute_ordered_material_name_tuples sorts a materials dictionary.  (4) from_complex_permittivity, with "
    "symbolic complex entries in all four input formats (permittivity and permeability): the stored real tensor "
    "is the real part and the conductivity tensor is omega*eps0 (omega*mu0) times the imaginary part at the same "
    "row-major position, so eps' + i sigma/(omega eps0) reproduces the requested tensor at the reference "
    "frequency; omega = 2 pi f from exactly one of reference / wavelength / frequency.  Float tolerances of "
    "math.isclose are not decided."
)

MAT = "fdtdx.materials"
PROPS = ("permittivity", "permeability", "electric_conductivity", "magnetic_conductivity")


def _vals9():
    return tuple(Fr(k + 2, 7) for k in range(9))  # pairwise distinct


def _normalisation(ctx):
    ix = ctx.index
    f = ix.function(f"{MAT}._normalize_material_property")
    ctx.unit(f.where())
    it = ctx.fresh_interp()
    v = _vals9()
    s = Fr(5, 3)
    cases = [
        ("scalar", s, (s, 0, 0, 0, s, 0, 0, 0, s)),
        ("3-tuple", (v[0], v[1], v[2]), (v[0], 0, 0, 0, v[1], 0, 0, 0, v[2])),
        ("9-tuple", v, v),
        ("nested", (v[0:3], v[3:6], v[6:9]), v),
    ]
    for tag, inp, want in cases:
        try:
            got = it.call(it.closure_of(f), [inp], {})
            ok = len(got) == 9 and all(to_rat(g).equals(to_rat(w)) for g, w in zip(got, want))
        except Raised as r:
            got, ok = str(r), False
        ctx.ob("R39.1", f"_normalize_material_property[{tag}]", ok, "normalises to the row-major 9-tuple (xx, xy, xz, yx, yy, yz, zx, zy, zz)", got, want)
    # the four formats of one tensor agree
    diag = (v[0], v[4], v[8])
    full_diag = (v[0], 0, 0, 0, v[4], 0, 0, 0, v[8])
    a = it.call(it.closure_of(f), [diag], {})
    b = it.call(it.closure_of(f), [tuple(Fr(x) for x in full_diag)], {})
    c = it.call(it.closure_of(f), [(tuple(Fr(x) for x in full_diag[0:3]), tuple(Fr(x) for x in full_diag[3:6]), tuple(Fr(x) for x in full_diag[6:9]))], {})
    ctx.ob("R39.1", "_normalize_material_property[formats-agree]", all(to_rat(x).equals(to_rat(y)) and to_rat(y).equals(to_rat(z)) for x, y, z in zip(a, b, c)), "3-tuple, flat 9-tuple and nested 3x3 descriptions of one tensor normalise identically", (a, b, c), "equal")
    for tag, inp in (("2-tuple", (v[0], v[1])), ("ragged-nested", ((v[0], v[1]), (v[2], v[3], v[4]), (v[5], v[6], v[7]))), ("4-tuple", v[:4])):
        try:
            it.call(it.closure_of(f), [inp], {})
            rej = False
        except Raised:
            rej = True
        ctx.ob("R39.1", f"_normalize_material_property[{tag}]", rej, "malformed tuples are rejected", rej, True)


def _predicates(ctx):
    ix = ctx.index
    it = ctx.fresh_interp()
    fi = ix.function(f"{MAT}._is_property_isotropic")
    fd = ix.function(f"{MAT}._is_property_diagonally_anisotropic")
    ctx.unit(fi.where())
    ctx.unit(fd.where())
    base = [Fr(2), 0, 0, 0, Fr(2), 0, 0, 0, Fr(2)]
    bad = []
    for k in range(9):
        t = list(base)
        t[k] = t[k] + Fr(1, 3)
        iso = it.call(it.closure_of(fi), [tuple(t)], {})
        dia = it.call(it.closure_of(fd), [tuple(t)], {})
        off = k in (1, 2, 3, 5, 6, 7)
        if bool(iso) is not False or bool(dia) is not (not off):
            bad.append((k, iso, dia))
    iso0, dia0 = it.call(it.closure_of(fi), [tuple(base)], {}), it.call(it.closure_of(fd), [tuple(base)], {})
    ctx.ob("R39.2", "_is_property_isotropic/_is_property_diagonally_anisotropic", not bad and iso0 is True and dia0 is True, "each of the six off-diagonal positions falsifies both predicates, a changed diagonal entry only the isotropic one", bad, "off-diagonal index set {1,2,3,5,6,7}")
    # per-property Material predicates
    M = ix.cls(f"{MAT}.Material")
    ident = {"permittivity": Fr(1), "permeability": Fr(1), "electric_conductivity": Fr(0), "magnetic_conductivity": Fr(0)}
    short = {"permittivity": "permittivity", "permeability": "permeability", "electric_conductivity": "electric_conductivity", "magnetic_conductivity": "magnetic_conductivity"}
    flags = {"permeability": "is_magnetic", "electric_conductivity": "is_electrically_conductive", "magnetic_conductivity": "is_magnetically_conductive"}
    bad = []
    n = 0
    for prop in PROPS:
        for kind in ("offdiag2", "offdiag6", "diag"):
            t = [ident[prop], 0, 0, 0, ident[prop], 0, 0, 0, ident[prop]]
            if kind == "offdiag2":
                t[2] = Fr(1, 4)
            elif kind == "offdiag6":
                t[6] = Fr(1, 4)
            else:
                t[4] = t[4] + Fr(1, 2)
            m = mk_material(it, **{prop: tuple(Fr(x) for x in t)})
            for q in PROPS:
                iso = it.getattr(m, f"is_isotropic_{short[q]}")
                dia = it.getattr(m, f"is_diagonally_anisotropic_{short[q]}")
                want_iso = q != prop
                want_dia = q != prop or kind == "diag"
                n += 1
                if bool(iso) is not want_iso or bool(dia) is not want_dia:
                    bad.append((prop, kind, q, iso, dia))
            for q, flag in flags.items():
                got = it.getattr(m, flag)
                if bool(got) is not (q == prop):
                    bad.append((prop, kind, flag, got))
            if it.getattr(m, "is_all_isotropic") is not False or bool(it.getattr(m, "is_all_diagonally_anisotropic")) is not (kind == "diag"):
                bad.append((prop, kind, "is_all_*"))
    ctx.ob("R39.2", f"{MAT}.Material predicates", not bad, f"{n} (perturbed property, predicate) pairs: each per-property predicate reacts to its own property's tensor only (xz and zx off-diagonals included); magnetic / conductive flags likewise", bad[:4], "own property only")
    m0 = mk_material(it)
    ok0 = all(it.getattr(m0, f"is_isotropic_{short[q]}") is True for q in PROPS) and not any(it.getattr(m0, f) for f in flags.values())
    ctx.ob("R39.2", f"{MAT}.Material[vacuum]", ok0, "the default material is isotropic, non-magnetic and lossless", ok0, True)


def _ordering(ctx):
    ix = ctx.index
    it = ctx.fresh_interp()
    D = lambda a, b, c: (Fr(a), 0, 0, 0, Fr(b), 0, 0, 0, Fr(c))
    mats = {
        "zeta": mk_material(it, permittivity=D(4, 5, 6), permeability=D(2, 2, 3), electric_conductivity=D(1, 2, 3), magnetic_conductivity=(Fr(1), Fr(1, 2), 0, Fr(1, 2), Fr(2), 0, 0, 0, Fr(3))),
        "alpha": mk_material(it, permittivity=(Fr(2), Fr(1, 5), 0, Fr(1, 5), Fr(3), 0, 0, 0, Fr(9)), permeability=D(1, 1, 1), electric_conductivity=D(0, 0, 0), magnetic_conductivity=D(0, 0, 0)),
        "mid": mk_material(it, permittivity=D(4, 1, 1), permeability=D(1, 7, 1), electric_conductivity=D(5, 0, 1), magnetic_conductivity=D(0, 0, 0)),
        "beta": mk_material(it, permittivity=D(1, 8, 2), permeability=D(3, 1, 1), electric_conductivity=D(0, 1, 0), magnetic_conductivity=D(2, 2, 2)),
    }
    names = it.call_function(f"{MAT}.compute_ordered_names", mats)
    ctx.unit(ix.function(f"{MAT}.compute_ordered_material_name_tuples").where())
    want = sorted(mats, key=lambda n: tuple(to_rat(mats[n].attrs[p][0]).const_value() for p in PROPS))
    ctx.ob("R39.3", "compute_ordered_names", list(names) == want, "ascending by the xx entries of (permittivity, permeability, electric, magnetic conductivity)", list(names), want)
    ordered = it.call_function(f"{MAT}.compute_ordered_materials", mats)
    ctx.ob("R39.3", "compute_ordered_materials", [id(x) for x in ordered] == [id(mats[n]) for n in names], "the material list follows the name order", [getattr(x, "label", x) for x in ordered], list(names))
    fns = {"permittivity": "compute_allowed_permittivities", "permeability": "compute_allowed_permeabilities", "electric_conductivity": "compute_allowed_electric_conductivities", "magnetic_conductivity": "compute_allowed_magnetic_conductivities"}
    for prop, fn in fns.items():
        ctx.unit(ix.function(f"{MAT}.{fn}").where())
        for tier, kw, sel in (("iso", dict(isotropic=True), (0,)), ("diag", dict(diagonally_anisotropic=True), (0, 4, 8)), ("full", {}, tuple(range(9)))):
            got = it.call_function(f"{MAT}.{fn}", mats, **kw)
            want_l = [tuple(to_rat(mats[n].attrs[prop][k]) for k in sel) for n in names]
            ok = len(got) == len(want_l) and all(len(g) == len(w) and all(to_rat(x).equals(y) for x, y in zip(g, w)) for g, w in zip(got, want_l))
            ctx.ob("R39.4", f"{fn}[{tier}]", ok, "one entry per material in the common order; tier slice (xx) / (xx, yy, zz) / all nine of that material's own property", [[to_rat(x).fmt() for x in g] for g in got][:2], "common order, own property")
    # who sorts a materials dictionary
    sorters = []
    for fi in ix.all_functions():
        for c in ast.walk(fi.node):
            if isinstance(c, ast.Call):
                fn = ast.unparse(c.func)
                if (fn == "sorted" and c.args and re.search(r"\bmaterials\b", ast.unparse(c.args[0]))) or (fn.endswith(".sort") and re.search(r"\bmaterials\b", fn)):
                    sorters.append(fi.qualname)
    ctx.ob("R39.3", "single-sort-site", sorted(set(sorters)) == [f"{MAT}.compute_ordered_material_name_tuples"], "only compute_ordered_material_name_tuples sorts a materials dictionary in the whole package", sorted(set(sorters)), [f"{MAT}.compute_ordered_material_name_tuples"])
    users = []
    for fi in ix.all_functions():
        if fi.module.name == MAT and fi.name.startswith(("compute_allowed_", "compute_ordered_names", "compute_ordered_materials")):
            calls = {ast.unparse(c.func) for c in ast.walk(fi.node) if isinstance(c, ast.Call)}
            users.append((fi.name, bool(calls & {"compute_ordered_material_name_tuples", "compute_ordered_materials", "compute_ordered_names"})))
    ctx.ob("R39.3", "order-consumers", len(users) >= 6 and all(u for _, u in users), "every per-material list in materials.py obtains its order from the common ordering function", users, "all via compute_ordered_material_name_tuples")


class _Mat(AbsVal):
    is_array = True

    def av_getattr(self, name):
        if name in ("reshape", "max"):
            return Builtin(name, lambda it, a, k: self if name == "reshape" else Fr(1))
        raise AnalysisError(f"_Mat.{name}")


def _complex_rules(ctx):
    ix = ctx.index
    M = ix.cls(f"{MAT}.Material")
    ctx.unit(M.lookup_method("from_complex_permittivity").where())
    ctx.unit(ix.function(f"{MAT}._split_complex_property").where())
    from ..values import ClassRef

    def z(tag, k):
        return Rat.atom(f"{tag}r{k}") + Rat.atom(I) * Rat.atom(f"{tag}i{k}")

    consts = ix.module("fdtdx.constants")
    formats = {
        "scalar": (lambda t: z(t, 0), lambda k: 0 if k in (0, 4, 8) else None),
        "3-tuple": (lambda t: (z(t, 0), z(t, 1), z(t, 2)), lambda k: {0: 0, 4: 1, 8: 2}.get(k)),
        "9-tuple": (lambda t: tuple(z(t, k) for k in range(9)), lambda k: k),
        "nested": (lambda t: tuple(tuple(z(t, 3 * i + j) for j in range(3)) for i in range(3)), lambda k: k),
    }
    for (fe, (mk_e, pos_e)), (fm, (mk_m, pos_m)) in itertools.product(formats.items(), list(formats.items())[:1] + list(formats.items())[3:]):
        it = ctx.fresh_interp()
        it.rat_is_float = True
        it.ext_overrides["np.array"] = lambda it_, a, k: _Mat()
        it.ext_overrides["np.abs"] = lambda it_, a, k: _Mat()
        it.ext_overrides["np.linalg.det"] = lambda it_, a, k: Fr(1)
        it.ext_handlers["warnings.warn"] = lambda it_, a, k: None
        eps0 = to_rat(it.lookup_global(consts, "eps0"))
        mu0 = to_rat(it.lookup_global(consts, "mu0"))
        outs = []
        # the constructor's sign test on the diagonal (a warning only) is explored on both outcomes
        for path, out in it.explore(lambda: it.call(it.getattr(ClassRef(M), "from_complex_permittivity"), [mk_e("e")], dict(frequency=Rat.atom("f"), permeability=mk_m("m"))), limit=64):
            if out[0] != "ok":
                raise AnalysisError(f"from_complex_permittivity raises on symbolic input ({fe}/{fm}): {out[1]}")
            outs.append(out[1])
        m = outs[0]
        for o in outs[1:]:
            if any(not to_rat(x).equals(to_rat(y)) for p_ in PROPS for x, y in zip(o.attrs[p_], m.attrs[p_])):
                raise AnalysisError("from_complex_permittivity: result depends on the sign-warning branch")
        omega = 2 * Rat.atom("π") * Rat.atom("f")
        bad = None
        for prop, cond, tag, pos, vac in (("permittivity", "electric_conductivity", "e", pos_e, eps0), ("permeability", "magnetic_conductivity", "m", pos_m, mu0)):
            real_t, cond_t = m.attrs[prop], m.attrs[cond]
            for k in range(9):
                src = pos(k)
                wr = Rat.atom(f"{tag}r{src}") if src is not None else Rat.const(0)
                wi = Rat.atom(f"{tag}i{src}") if src is not None else Rat.const(0)
                if not to_rat(real_t[k]).equals(wr):
                    bad = bad or (prop, k, to_rat(real_t[k]).fmt(), wr.fmt())
                # sigma / (omega * vacuum constant) must give back the imaginary part at the same position
                back = to_rat(cond_t[k]) / (omega * vac)
                if not back.equals(wi):
                    bad = bad or (cond, k, back.fmt(), wi.fmt())
        ctx.ob("R39.5", f"Material.from_complex_permittivity[eps:{fe},mu:{fm}]", bad is None, "real tensor = Re(input) and conductivity/(omega*vacuum constant) = Im(input) at the same row-major position: eps' + i sigma/(omega eps0) reproduces the requested tensor at the reference frequency", bad, "row-major, position-preserving")
    # omega from exactly one of reference / wavelength / frequency
    g = ix.function(f"{MAT}._resolve_reference_omega")
    ctx.unit(g.where())
    it = ctx.fresh_interp()
    c0 = to_rat(it.lookup_global(consts, "c"))
    ref = Obj(None, {"get_frequency": Builtin("get_frequency", lambda it_, a, k: Rat.atom("fr"))}, "wave")
    bad = []
    for mask in range(8):
        args = [ref if mask & 1 else None, Rat.atom("lam") if mask & 2 else None, Rat.atom("f") if mask & 4 else None]
        try:
            om = to_rat(it.call(it.closure_of(g), args, {}))
            got = om
        except Raised:
            got = None
        if bin(mask).count("1") != 1:
            if got is not None:
                bad.append((mask, "accepted"))
            continue
        freq = Rat.atom("fr") if mask == 1 else c0 / Rat.atom("lam") if mask == 2 else Rat.atom("f")
        if got is None or not got.equals(2 * Rat.atom("π") * freq):
            bad.append((mask, got.fmt() if got is not None else None))
    ctx.ob("R39.5", "_resolve_reference_omega", not bad, "omega = 2 pi f with f from exactly one of reference / c/wavelength / frequency; any other count is rejected", bad, "exactly-one-of")


def run(ctx):
    _normalisation(ctx)
    _predicates(ctx)
    _ordering(ctx)
    _complex_rules(ctx)
    ctx.require_count("C39", len(ctx.obligations), 35)
    ctx.trusted_base += ["math.isclose modelled exactly on rationals", "numpy determinant check of from_complex_permittivity stubbed (non-singular input)", "symbolic reals accepted where the code tests isinstance(x, float)"]
