"""C19 — discretization picks the nearest allowed material."""

from __future__ import annotations

from fractions import Fraction

from ..harness import mk_material, open_obj
from ..index import AnalysisError
from ..ndarr import Dim, NdArr, field_atom
from ..poly import Rat, apply_fn, derivative
from ..values import Obj, Raised, to_rat

LEVEL = "other"
EXPLANATION = (
    "Decides by abstract interpretation of ClosestIndex.__call__ and straight_through_estimator on a "
    "symbolic voxel array of symbolic shape (X,Y,Z): (1) the straight-through estimator's value equals the "
    "discrete argument and its derivative w.r.t. the continuous argument is exactly 1 (dual reading of "
    "stop_gradient); (2) the integer branch is clip(round(x), 0, M-1); (3) the inverse-permittivity branch "
    "returns, per voxel, argmin over the M materials (in the library's material order) of "
    "|x - 1/eps_m| and keeps the input's shape — the array-shape model rejects any broadcast that aligns a "
    "spatial axis with the material axis.  Tie-breaking of round/argmin and float rounding are not decided."
)

SP = (Dim(0, "X"), Dim(1, "Y"), Dim(2, "Z"))


def run(ctx):
    ix = ctx.index
    # ---------------------------------------------------------------- R19.1
    it = ctx.fresh_interp()
    it.dual_mode = True
    f = ix.function("fdtdx.core.jax.ste.straight_through_estimator")
    ctx.unit(f.where())
    x, y = Rat.atom("x"), Rat.atom("y")
    # the discrete argument may be an integer array (the argmin branch hands in int32 indices): a cast of the result to
    # the dtype of y is not the identity — it cuts the gradient path — so such a cast is kept visible as an opaque atom
    from .. import absint
    from ..values import Builtin

    old_scalar_attr = absint.scalar_attr

    def scalar_attr(interp, v, name):
        if name == "dtype":
            return ("dtype-of", to_rat(v).fmt())
        if name == "astype":
            return Builtin("astype", lambda it_, a, k_, _v=v: Rat.atom(("cast", to_rat(_v).fmt(), a[0][1])) if a and isinstance(a[0], tuple) and a[0][:1] == ("dtype-of",) and a[0][1] != to_rat(_v).fmt() else _v)
        return old_scalar_attr(interp, v, name)

    absint.scalar_attr = scalar_attr
    try:
        r = to_rat(it.call(it.closure_of(f), [x, y], {}))
    finally:
        absint.scalar_attr = old_scalar_attr
    thaw = {a: Rat.atom(a[1]) for a in r.atoms() if isinstance(a, tuple) and a and a[0] == "sg"}
    val = r.subs(thaw)
    ctx.ob("R19.1", "straight_through_estimator:value", val.equals(y), "forward value equals the discrete argument y", val.fmt(), "y")
    ctx.ob("R19.1", "straight_through_estimator:d/dx", derivative(r, "x").equals(1), "gradient w.r.t. the continuous argument is 1 (stop_gradient terms are constants)", derivative(r, "x").fmt(), "1")
    ctx.ob("R19.1", "straight_through_estimator:d/dy", derivative(r, "y").equals(0), "no gradient flows through the discrete argument", derivative(r, "y").fmt(), "0")

    # ------------------------------------------------------------- fixtures
    C = ix.cls("fdtdx.objects.device.parameters.discretization.ClosestIndex")
    ctx.unit(C.methods["__call__"].where())

    def materials(it_, eps_list):
        return {f"m{k}": mk_material(it_, permittivity=e) for k, e in enumerate(eps_list)}

    arr = NdArr((), [field_atom("x")], SP)
    xa = to_rat(field_atom("x"))

    # ---------------------------------------------------------------- R19.2
    for M in (2, 3, 5):
        it = ctx.fresh_interp()
        mats = materials(it, [Fraction(k + 1) for k in range(M)])
        obj = Obj(C, {"mapping_from_inverse_permittivities": False, "_materials": mats}, "ci")
        res = it.call_method(obj, "__call__", {"p": arr})
        out = res["p"]
        want_disc = Rat.atom(("call", "clip", apply_fn("round", xa), Rat.const(0), Rat.const(M - 1)))
        ok_shape = isinstance(out, NdArr) and out.shape == () and not out.trail and [d.key() for d in out.sp] == [d.key() for d in SP]
        ctx.ob("R19.2", f"ClosestIndex.__call__:integer:shape:M={M}", ok_shape, "output keeps the input's shape", out, "shape (X,Y,Z)")
        if ok_shape:
            v = to_rat(out.data[0])
            # value through the STE = x - x + discrete
            ctx.ob("R19.2", f"ClosestIndex.__call__:integer:value:M={M}", v.equals(want_disc), "value is clip(round(x), 0, M-1)", v.fmt(), want_disc.fmt())
    # gradient passes through unchanged (dual reading)
    it = ctx.fresh_interp()
    it.dual_mode = True
    mats = materials(it, [Fraction(1), Fraction(2)])
    obj = Obj(C, {"mapping_from_inverse_permittivities": False, "_materials": mats}, "ci")
    out = it.call_method(obj, "__call__", {"p": arr})["p"]
    v = to_rat(out.data[0])
    xat = [a for a in v.atoms() if isinstance(a, tuple) and a and a[0] == "at"]
    okg = len(xat) == 1 and derivative(v, xat[0]).equals(1)
    ctx.ob("R19.1", "ClosestIndex.__call__:gradient", okg, "d out / d in == 1 through the straight-through estimator", v.fmt()[:200], "x - sg(x) + sg(discrete)")

    # ---------------------------------------------------------------- R19.3
    for eps_list in ([Fraction(4), Fraction(1), Fraction(9, 4)], [Fraction(2), Fraction(12)], [Fraction(5), Fraction(3), Fraction(2), Fraction(1), Fraction(7)]):
        M = len(eps_list)
        it = ctx.fresh_interp()
        mats = materials(it, eps_list)
        obj = Obj(C, {"mapping_from_inverse_permittivities": True, "_materials": mats}, "ci")
        tag = f"M={M}"
        try:
            out = it.call_method(obj, "__call__", {"p": arr})["p"]
        except Raised as r:
            ctx.ob(
                "R19.3",
                "fdtdx.objects.device.parameters.discretization.ClosestIndex.__call__:inverse-permittivity",
                False,
                f"isotropic inverse-permittivity mapping must return argmin_m |x - 1/eps_m| with the input's shape; interpretation on shape (X,Y,Z) with {M} materials raises: {r}",
                str(r)[:300],
                "array of shape (X,Y,Z)",
            )
            continue
        ok_shape = isinstance(out, NdArr) and out.shape == () and not out.trail and [d.key() for d in out.sp] == [d.key() for d in SP]
        if not ok_shape:
            ctx.ob("R19.3", "fdtdx.objects.device.parameters.discretization.ClosestIndex.__call__:inverse-permittivity", False, "output keeps the input's shape", out, "shape (X,Y,Z)")
            continue
        order = sorted(eps_list)
        cands = tuple(apply_fn("abs", xa - 1 / Rat.const(e)) for e in order)
        want = Rat.atom(("call", "argmin") + cands)
        v = to_rat(out.data[0])
        ctx.ob(
            "R19.3",
            "fdtdx.objects.device.parameters.discretization.ClosestIndex.__call__:inverse-permittivity",
            v.equals(want),
            f"per voxel the index of the nearest inverse permittivity over the {M} materials in library order",
            v.fmt()[:300],
            want.fmt()[:300],
        )
    ctx.require_count("C19", len(ctx.obligations), 13)
