"""C16 — detector reductions are consistent with their spatial records."""

from __future__ import annotations

import itertools

from ..arrays import SymVec
from ..harness import RecState, Written, open_obj
from ..index import AnalysisError
from ..ndarr import NdArr
from ..poly import Rat, apply_fn
from ..values import Builtin, Obj, Raised, Unknown, to_rat

LEVEL = "other"
EXPLANATION = (
    "Decides the reduction formulas on the code itself: every detector update() is abstractly interpreted twice "
    "on arrays of free symbolic entries (fields, cell-volume weights, face-area weights) of several concrete "
    "region shapes incl. size-one axes — once spatially resolved, once reduced — and the reduced record is "
    "compared, as a polynomial identity, with the weighted mean / sum computed from the resolved record: field "
    "and phasor records = sum(v*w)/sum(w) per component (and per frequency), energy = sum(energy*w), Poynting "
    "flux = sum(S*area) with '-' negating, single-component output = propagation component of the all-component "
    "output, closed surface = sum over active axes of (+last face - first face) of S_a*area_a with 'inward' "
    "negating, inverse phasor detectors subtract exactly what forward ones add.  Also: the propagation-axis "
    "decision tables (fixed axis incl. 0, else the unique size-one axis, else an error), compute_energy = "
    "1/2 sum(|E_c|^2/inv_eps_c + |H_c|^2/inv_mu_c) in the scalar and per-axis tiers, compute_poynting_flux = "
    "E x conj(H), and the face-area weight helper on uniform / resolved grids.  Because all entries are free "
    "symbols the identities hold for every input of those shapes; other shapes rest on the size-uniformity of "
    "sum/take/reshape.  Floating-point summation order is not decided."
)

SHAPES = [(2, 3, 1), (1, 2, 2), (2, 1, 2), (2, 2, 2), (1, 1, 3)]


def arr(name, shape):
    return NdArr(shape, [Rat.atom((name,) + ix) for ix in itertools.product(*[range(n) for n in shape])])


def _flat(shape, ix):
    k = 0
    for n, i in zip(shape, ix):
        k = k * n + i
    return k


def _cells(shape):
    return list(itertools.product(*[range(n) for n in shape]))


def _vals(v):
    return [to_rat(x) for x in (v.data if isinstance(v, NdArr) else [v])]


def _det(ctx, q, shape, **extra):
    ci = ctx.index.cls(q)
    attrs = {
        "_config": open_obj(None, "config", time_step_duration=Rat.atom("dt")),
        "_time_step_to_arr_idx": SymVec("t2idx", Rat.atom("T")),
        "name": "det",
        "dtype": Unknown("dtype"),
        "grid_shape": tuple(shape),
        "_grid_slice_tuple": tuple((0, n) for n in shape),
        "_cached_cell_volume_weights": arr("w", shape),
    }
    attrs.update(extra)
    return ci, Obj(ci, attrs, ci.name)


def _update(ctx, ci, det, E, H, ie=None, im=None, state=None):
    it = ctx.fresh_interp()
    ctx.unit(ci.lookup_method("update").where())
    try:
        res = it.call_method(det, "update", time_step=Rat.atom("n"), E=E, H=H, state=state or RecState(), inv_permittivity=ie if ie is not None else Rat.atom("ie"), inv_permeability=im if im is not None else Rat.atom("im"))
    except Raised as r:
        raise AnalysisError(f"{ci.name}.update raises on the symbolic state: {r}")
    if not isinstance(res, dict) or not res:
        raise AnalysisError(f"{ci.name}.update returned {res!r}")
    return res


def _eq_list(a, b):
    return len(a) == len(b) and all(x.equals(y) for x, y in zip(a, b))


def _first_diff(a, b):
    for k, (x, y) in enumerate(zip(a, b)):
        if not x.equals(y):
            return k, x.fmt()[:200], y.fmt()[:200]
    return None, f"{len(a)} entries", f"{len(b)} entries"


# ------------------------------------------------------------------------------------ rules
def _field(ctx, shape):
    q = "fdtdx.objects.detectors.field.FieldDetector"
    E, H = arr("E", (3,) + shape), arr("H", (3,) + shape)
    w = arr("w", shape)
    for comps in (("Ex", "Ey", "Ez", "Hx", "Hy", "Hz"), ("Hy", "Ez")):
        ci, d0 = _det(ctx, q, shape, components=comps, reduce_volume=False)
        _, d1 = _det(ctx, q, shape, components=comps, reduce_volume=True)
        full = _update(ctx, ci, d0, E, H)["fields"].value
        red = _update(ctx, ci, d1, E, H)["fields"].value
        cells = _cells(shape)
        wsum = sum(_vals(w), Rat.const(0))
        want = []
        for c in range(full.shape[0]):
            tot = Rat.const(0)
            for ix in cells:
                tot = tot + to_rat(full.data[_flat(full.shape, (c,) + ix)]) * to_rat(w.data[_flat(shape, ix)])
            want.append(tot / wsum)
        got = _vals(red)
        k, e, o = _first_diff(got, want)
        ctx.ob("R16.1", f"{q}.update[{','.join(comps)}]{shape}", _eq_list(got, want), "reduced field record == cell-volume weighted mean of the spatial record, per component", e, o)


def _phasor(ctx, shape):
    from . import c17

    q = "fdtdx.objects.detectors.phasor.PhasorDetector"
    P = ctx.index.cls(q)
    E, H = arr("E", (3,) + shape), arr("H", (3,) + shape)
    w = arr("w", shape)
    wsum = sum(_vals(w), Rat.const(0))
    outs = {}
    for inverse, reduce in itertools.product((False, True), (False, True)):
        it = ctx.fresh_interp()
        det = c17._mk_detector(ctx, P, it, "continuous", inverse, extra={"reduce_volume": reduce, "grid_shape": tuple(shape), "_cached_cell_volume_weights": w})
        ctx.unit(P.lookup_method("update").where())
        res = it.call_method(det, "update", time_step=Rat.atom("n"), E=E, H=H, state=c17.StateDict(), inv_permittivity=Rat.atom("ie"), inv_permeability=Rat.atom("im"))
        (key, a), = res.items()
        outs[(inverse, reduce)] = (key, a)
    key, full = outs[(False, False)]
    _, red = outs[(False, True)]
    # increments (the previous state is an atom per stored entry)
    inc_full = [to_rat(x) - Rat.atom(("state", key, k)) for k, x in enumerate(full.data)]
    inc_red = [to_rat(x) - Rat.atom(("state", key, k)) for k, x in enumerate(red.data)]
    lead = full.shape[: len(full.shape) - 3]
    cells = _cells(shape)
    want = []
    for li in itertools.product(*[range(n) for n in lead]):
        tot = Rat.const(0)
        for ix in cells:
            tot = tot + inc_full[_flat(full.shape, li + ix)] * to_rat(w.data[_flat(shape, ix)])
        want.append(tot / wsum)
    k, e, o = _first_diff(inc_red, want)
    ctx.ob("R16.1", f"{q}.update:reduce{shape}", _eq_list(inc_red, want), "reduced phasor increment == cell-volume weighted mean of the spatial increments, per frequency and component", e, o)
    for reduce in (False, True):
        _, fwd = outs[(False, reduce)]
        _, inv = outs[(True, reduce)]
        a = [to_rat(x) - Rat.atom(("state", key, k)) for k, x in enumerate(fwd.data)]
        b = [Rat.atom(("state", key, k)) - to_rat(x) for k, x in enumerate(inv.data)]
        k, e, o = _first_diff(b, a)
        ctx.ob("R16.5", f"{q}.update:inverse{'[reduced]' if reduce else ''}{shape}", _eq_list(a, b), "inverse-time phasor detectors subtract exactly what forward ones add", e, o)


def _phasor_family_inverse(ctx):
    """every update override in the phasor family (closed surface, field projection): the inverse detector subtracts the
    term the forward one adds (shared harness of C17)"""
    from . import c17

    ix = ctx.index
    P = ix.cls("fdtdx.objects.detectors.phasor.PhasorDetector")
    overrides = {}
    for c in ix.subclasses(P):
        m = c.lookup_method("update")
        if m is not None and m.cls is not P:
            overrides.setdefault(m.qualname, (m, c))
    ctx.require_count("R16.5 phasor update overrides", len(overrides), 2)
    for q, (m, c) in sorted(overrides.items()):
        ctx.unit(m.where())
        extra = {"axes": (0, 1, 2), "exclude_surfaces": (), "_projection_mode": "box", "orientation": "outward"}
        c17._check_update(ctx, m.cls, m.cls.name, extra=extra, rule="R16.5")


def _energy(ctx, shape):
    q = "fdtdx.objects.detectors.energy.EnergyDetector"
    E, H = arr("E", (3,) + shape), arr("H", (3,) + shape)
    w = arr("w", shape)
    for tier, ie, im in (("diag", arr("ie", (3,) + shape), arr("im", (3,) + shape)), ("iso", arr("ie", (1,) + shape), Rat.atom("im"))):
        ci, d0 = _det(ctx, q, shape, as_slices=False, reduce_volume=False)
        _, d1 = _det(ctx, q, shape, as_slices=False, reduce_volume=True)
        full = _update(ctx, ci, d0, E, H, ie, im)["energy"].value
        red = _update(ctx, ci, d1, E, H, ie, im)["energy"].value
        if not isinstance(full, NdArr) or full.shape != tuple(shape):
            raise AnalysisError(f"EnergyDetector spatial record has shape {getattr(full, 'shape', None)}, expected {shape}")
        want = [sum((to_rat(full.data[_flat(shape, ix)]) * to_rat(w.data[_flat(shape, ix)]) for ix in _cells(shape)), Rat.const(0))]
        got = _vals(red)
        k, e, o = _first_diff(got, want)
        ctx.ob("R16.2", f"{q}.update[{tier}]{shape}", _eq_list(got, want), "reduced energy == sum over cells of energy density * cell volume", e, o)
        # the density itself: 1/2 sum_c (|E_c|^2/inv_eps_c + |H_c|^2/inv_mu_c)
        bad = None
        for ix in _cells(shape):
            tot = Rat.const(0)
            for c in range(3):
                e_c = to_rat(E.data[_flat((3,) + shape, (c,) + ix)])
                h_c = to_rat(H.data[_flat((3,) + shape, (c,) + ix)])
                iec = to_rat(ie.data[_flat(ie.shape, ((c if ie.shape[0] == 3 else 0),) + ix)])
                imc = to_rat(im.data[_flat(im.shape, (c,) + ix)]) if isinstance(im, NdArr) else to_rat(im)
                ae, ah = apply_fn("abs", e_c), apply_fn("abs", h_c)
                tot = tot + (ae * ae / iec + ah * ah / imc) / 2
            if not to_rat(full.data[_flat(shape, ix)]).equals(tot):
                bad = bad or (ix, to_rat(full.data[_flat(shape, ix)]).fmt()[:200], tot.fmt()[:200])
        ctx.ob("R16.8", f"fdtdx.core.physics.metrics.compute_energy[{tier}]{shape}", bad is None, "energy density == 1/2 sum_c(|E_c|^2/inv_eps_c + |H_c|^2/inv_mu_c)", bad[1] if bad else "all cells", bad[2] if bad else "formula")


def _cross(E, H, shape, ix):
    def f(F, c):
        return to_rat(F.data[_flat((3,) + shape, (c,) + ix)])

    return [f(E, 1) * f(H, 2) - f(E, 2) * f(H, 1), f(E, 2) * f(H, 0) - f(E, 0) * f(H, 2), f(E, 0) * f(H, 1) - f(E, 1) * f(H, 0)]


def _poynting(ctx, shape):
    q = "fdtdx.objects.detectors.poynting_flux.PoyntingFluxDetector"
    E, H = arr("E", (3,) + shape), arr("H", (3,) + shape)
    ones = [a for a in range(3) if shape[a] == 1]
    for axis in range(3):
        area_all = arr("area", (3,) + shape)
        area_one = arr("area1", shape)
        recs = {}
        for direction, keep, reduce in itertools.product("+-", (True, False), (False, True)):
            ci, d = _det(ctx, q, shape, direction=direction, keep_all_components=keep, reduce_volume=reduce, fixed_propagation_axis=axis, _cached_face_area_weights=(area_all if keep else area_one))
            recs[(direction, keep, reduce)] = _update(ctx, ci, d, E, H)["poynting_flux"].value
        full = recs[("+", True, False)]
        if not isinstance(full, NdArr) or full.shape != (3,) + tuple(shape):
            raise AnalysisError(f"PoyntingFluxDetector all-component record has shape {getattr(full, 'shape', None)}")
        # spatial record == Re(E x conj H) (real fields: E x H)
        bad = None
        for ix in _cells(shape):
            want = _cross(E, H, shape, ix)
            for c in range(3):
                if not to_rat(full.data[_flat(full.shape, (c,) + ix)]).equals(want[c]):
                    bad = bad or ((c,) + ix, to_rat(full.data[_flat(full.shape, (c,) + ix)]).fmt()[:160], want[c].fmt()[:160])
        ctx.ob("R16.8", f"{q}.update:spatial[axis{axis}]{shape}", bad is None, "spatial flux record == E x conj(H) component-wise", bad[1] if bad else "all cells", bad[2] if bad else "cross product")
        # '-' negates
        for keep, reduce in itertools.product((True, False), (False, True)):
            a, b = _vals(recs[("+", keep, reduce)]), [-x for x in _vals(recs[("-", keep, reduce)])]
            k, e, o = _first_diff(b, a)
            ctx.ob("R16.3", f"{q}.update:direction[axis{axis},keep={keep},reduce={reduce}]{shape}", _eq_list(a, b), "the minus direction negates the record", e, o)
        # single component == propagation component of the all-component output
        single = _vals(recs[("+", False, False)])
        want = [to_rat(full.data[_flat(full.shape, (axis,) + ix)]) for ix in _cells(shape)]
        k, e, o = _first_diff(single, want)
        ctx.ob("R16.3", f"{q}.update:single-component[axis{axis}]{shape}", _eq_list(single, want), "single-component output == propagation component of the all-component output", e, o)
        # reduced == area-weighted sums
        red_all = _vals(recs[("+", True, True)])
        want = [sum((to_rat(full.data[_flat(full.shape, (c,) + ix)]) * to_rat(area_all.data[_flat(area_all.shape, (c,) + ix)]) for ix in _cells(shape)), Rat.const(0)) for c in range(3)]
        k, e, o = _first_diff(red_all, want)
        ctx.ob("R16.3", f"{q}.update:reduced-all[axis{axis}]{shape}", _eq_list(red_all, want), "reduced all-component flux == per-component sum of S_c * area_c over the region", e, o)
        red_one = _vals(recs[("+", False, True)])
        want = [sum((to_rat(full.data[_flat(full.shape, (axis,) + ix)]) * to_rat(area_one.data[_flat(shape, ix)]) for ix in _cells(shape)), Rat.const(0))]
        k, e, o = _first_diff(red_one, want)
        ctx.ob("R16.3", f"{q}.update:reduced-single[axis{axis}]{shape}", _eq_list(red_one, want), "reduced flux == sum of S_axis * area over the region", e, o)


def _closed(ctx, shape):
    q = "fdtdx.objects.detectors.poynting_flux.ClosedSurfacePoyntingFluxDetector"
    E, H = arr("E", (3,) + shape), arr("H", (3,) + shape)
    areas = []
    for a in range(3):
        sh = tuple(1 if k == a else n for k, n in enumerate(shape))
        areas.append(arr(f"A{a}", sh))
    default_axes = tuple(a for a in range(3) if shape[a] > 1)
    for axes, orient in itertools.product((None, (0, 1, 2), (2,), (1, 0)), ("outward", "inward")):
        ci, d = _det(ctx, q, shape, orientation=orient, axes=axes, _face_area_weights_per_axis=tuple(areas))
        rec = _vals(_update(ctx, ci, d, E, H)["poynting_flux"].value)
        act = default_axes if axes is None else axes
        tot = Rat.const(0)
        for a in act:
            for ix in _cells(shape):
                s_a = _cross(E, H, shape, ix)[a]
                ar = to_rat(areas[a].data[_flat(areas[a].shape, tuple(0 if k == a else i for k, i in enumerate(ix)))])
                if ix[a] == shape[a] - 1:
                    tot = tot + s_a * ar
                if ix[a] == 0:
                    tot = tot - s_a * ar
        if orient == "inward":
            tot = -tot
        ok = len(rec) == 1 and rec[0].equals(tot)
        ctx.ob("R16.4", f"{q}.update[axes={axes},{orient}]{shape}", ok, "net flux == sum over active axes of (+last-face - first-face) sums of S_a*area_a; 'inward' negates", rec[0].fmt()[:220] if rec else rec, tot.fmt()[:220])


def _closed_phasor_net(ctx, rule="R16.4", nfreq=1):
    """ClosedSurfacePhasorPoyntingFluxDetector.compute_net_flux: the net flux is the signed sum over the *active* axes
    of the max-face minus the min-face sums of S_a times the face-area weights of that same axis a."""
    from ..harness import stub_repo_calls

    ix = ctx.index
    q = "fdtdx.objects.detectors.poynting_flux.ClosedSurfacePhasorPoyntingFluxDetector"
    ci = ix.cls(q)
    m = ci.lookup_method("compute_net_flux")
    ctx.unit(m.where())
    shape = (2, 3, 2)
    planes = [tuple(1 if k == a else n for k, n in enumerate(shape)) for a in range(3)]
    areas = [arr(f"A{a}", planes[a]) for a in range(3)]

    def spv(it_, a_, k_):
        ph = a_[0]
        tag = to_rat(ph.data[0]).atoms()
        (t0,) = [x for x in tag if isinstance(x, tuple) and x and x[0] == "ph"]
        axis, side = t0[1], t0[2]
        pl = planes[axis]
        if ph.shape != (nfreq, 6) + pl:
            raise AnalysisError(f"_phasor_poynting_vector is handed {ph.shape}, modelled for (num_freqs, 6, *plane)")
        return NdArr((nfreq, 3) + pl, [Rat.atom(("S", f_, axis, side, c) + p) for f_ in range(nfreq) for c in range(3) for p in itertools.product(*[range(n) for n in pl])])

    for axes, orient, mode in itertools.product((None, (0, 1, 2), (2,), (1, 2), (0, 2), (1,)), ("outward", "inward"), ("continuous", "pulse")):
        it = ctx.fresh_interp()
        stub_repo_calls(it, {"_phasor_poynting_vector": spv})
        state = {}
        for a in range(3):
            for side in ("min", "max"):
                pl = planes[a]
                state[f"phasor_axis{a}_{side}"] = NdArr((1, nfreq, 6) + pl, [Rat.atom(("ph", a, side, c) + p + (f_,)) for f_ in range(nfreq) for c in range(6) for p in itertools.product(*[range(n) for n in pl])])
        act = (0, 1, 2) if axes is None else axes
        det = Obj(ci, dict(name="box", _face_area_weights_per_axis=tuple(areas), _angular_frequencies=[Rat.atom(f"w{f_}") for f_ in range(nfreq)], dtype="complex64", orientation=orient, scaling_mode=mode, axes=axes, grid_shape=shape, _resolve_active_axes=Builtin("_resolve_active_axes", lambda it_, a_, k_, _act=act: tuple(_act))), "box")
        it.ext_overrides["np.zeros"] = lambda it_, a_, k_: NdArr((nfreq,), [0] * nfreq)
        try:
            net = it.call_method(det, "compute_net_flux", state)
        except Raised as r:
            raise AnalysisError(f"compute_net_flux raises: {r}")
        wants = []
        for f_ in range(nfreq):
            want = Rat.const(0)
            for a in act:
                pl = planes[a]
                for side, sgn in (("max", 1), ("min", -1)):
                    for p in itertools.product(*[range(n) for n in pl]):
                        want = want + sgn * Rat.atom(("S", f_, a, side, a) + p) * to_rat(areas[a].data[_flat(pl, p)])
            if orient == "inward":
                want = -want
            if mode == "continuous":
                want = want / 2
            wants.append(want)
        got = [to_rat(v) for v in net.data] if isinstance(net, NdArr) and net.shape == (nfreq,) else None
        ctx.ob(rule, f"{q}.compute_net_flux[axes={axes},{orient},{mode},freqs={nfreq}]", got is not None and all(g.equals(w) for g, w in zip(got, wants)), "net flux of each frequency == sum over the active axes a of (max face - min face) sums of that frequency's S_a times the face-area weights of axis a itself (not of the a-th entry of the active list, not summed over the frequencies); 'inward' negates, continuous mode halves", [g.fmt()[:120] for g in got] if got is not None else net, [w.fmt()[:120] for w in wants])


def _all_component_weights(ctx):
    """place_on_grid of the two plane Poynting detectors with keep_all_components: the three per-axis face-area arrays
    (extent one along their own normal axis) become one (3, *region) weight array whose entry a is the area array of
    axis a broadcast over the region — so the all-component record exists and its component a is weighted like the
    single-component record of propagation axis a."""
    from ..harness import stub_repo_calls

    ix = ctx.index
    shape = (2, 3, 1)
    gst = ((1, 3), (0, 3), (2, 3))
    planes = [tuple(1 if k == a else n for k, n in enumerate(shape)) for a in range(3)]
    areas = [arr(f"A{a}", planes[a]) for a in range(3)]
    for q in ("fdtdx.objects.detectors.poynting_flux.PoyntingFluxDetector", "fdtdx.objects.detectors.poynting_flux.PhasorPoyntingFluxDetector"):
        ci = ix.cls(q)
        m = ci.methods.get("place_on_grid")
        if m is None:
            raise AnalysisError(f"{q} no longer defines place_on_grid")
        ctx.unit(m.where())
        it = ctx.fresh_interp()
        stub_repo_calls(it, {"_resolve_face_area_weights": lambda it_, a_, k_: areas[a_[2] if len(a_) > 2 else k_.get("axis")]})
        det = Obj(ci, dict(name="flux", keep_all_components=True, fixed_propagation_axis=None, grid_shape=shape, _grid_slice_tuple=gst, grid_slice_tuple=gst, dtype="complex64", _config=open_obj(None, "config", resolved_grid=Obj(None, {}, "grid"))), "flux")
        # the base class's placement is not the subject: it returns the detector as it is
        base = [c for c in ci.mro()[1:] if "place_on_grid" in c.methods]
        if base:
            stub_repo_calls(it, {base[0].methods["place_on_grid"].qualname: lambda it_, a_, k_: a_[0]})
        try:
            out = it.call_method(det, "place_on_grid", grid_slice_tuple=gst, config=det.attrs["_config"], key=Rat.atom("key"))
            w = out.attrs.get("_cached_face_area_weights") if isinstance(out, Obj) else None
            err = None
        except Raised as r:
            w, err = None, str(r)
        ok = isinstance(w, NdArr) and w.shape == (3,) + shape
        bad = None
        if ok:
            for a in range(3):
                for p in _cells(shape):
                    got = to_rat(w.data[_flat(w.shape, (a,) + p)])
                    want = to_rat(areas[a].data[_flat(planes[a], tuple(0 if k == a else i for k, i in enumerate(p)))])
                    if not got.equals(want):
                        bad = bad or ((a,) + p, got.fmt()[:80], want.fmt()[:80])
        ctx.ob("R16.7", f"{q}.place_on_grid[keep_all_components]", ok and bad is None, "with all components kept the weights are a (3, *region) array: entry a is the face-area array of axis a (extent one along a) broadcast over the region; placement does not raise", err or bad or getattr(w, "shape", w), (3,) + shape)


def _axis_tables(ctx, rule="R16.6", only=None):
    """propagation_axis: the fixed axis when given (0 included), else the unique size-one axis, else an error."""
    ix = ctx.index
    shapes = [(1, 4, 5), (4, 1, 5), (4, 5, 1), (1, 1, 5), (1, 4, 1), (3, 4, 5), (1, 1, 1)]
    classes = []
    for ci in ix.classes.values():
        m = ci.methods.get("propagation_axis")
        if m is not None and m.is_property and ci.lookup_field("fixed_propagation_axis") is not None and ci.module.name.startswith("fdtdx.objects.detectors"):
            if only is None or only(ci):
                classes.append(ci)
    ctx.require_count(f"{rule} detector classes with a propagation_axis property", len(classes), 2 if only is None else 1)
    for ci in sorted(classes, key=lambda c: c.qualname):
        ctx.unit(ci.methods["propagation_axis"].where())
        bad = []
        n = 0
        for fixed, shape in itertools.product((None, 0, 1, 2), shapes):
            it = ctx.fresh_interp()
            d = Obj(ci, {"fixed_propagation_axis": fixed, "grid_shape": shape, "name": "det"}, ci.name)
            try:
                got = it.getattr(d, "propagation_axis")
            except Raised:
                got = "raise"
            ones = [a for a in range(3) if shape[a] == 1]
            want = fixed if fixed is not None else (ones[0] if len(ones) == 1 else "raise")
            n += 1
            if got != want:
                bad.append((fixed, shape, got, want))
        ctx.ob(rule, f"{ci.qualname}.propagation_axis", not bad, f"decision table over fixed axis in (None,0,1,2) x {len(shapes)} region shapes", bad[:3], "fixed axis if given (0 included) else the unique size-one axis else an error")


def _weights(ctx):
    ix = ctx.index
    f = ix.function("fdtdx.objects.detectors.poynting_flux._resolve_face_area_weights")
    ctx.unit(f.where())
    st = ((2, 5), (1, 4), (3, 4))
    shape = (3, 3, 1)
    for axis in range(3):
        it = ctx.fresh_interp()
        calls = []

        def face_area(it_, a, k, _c=calls):
            _c.append((k.get("axis", a[0] if a else None), k.get("slice_tuple", a[1] if len(a) > 1 else None)))
            return Rat.atom("FA")

        from ..values import Builtin

        cfg = open_obj(None, "config", resolved_grid=Obj(None, {"face_area": Builtin("face_area", face_area)}, "grid"))
        res = it.call(it.closure_of(f), [cfg, st, axis, Unknown("dtype")], {})
        ok = calls == [(axis, st)] and to_rat(res).equals(Rat.atom("FA"))
        ctx.ob("R16.7", f"_resolve_face_area_weights:resolved[axis{axis}]", ok, "resolved grids: the weights are grid.face_area(axis, slice) of the same axis and slice", calls, [(axis, st)])
        it = ctx.fresh_interp()
        cfg = open_obj(None, "config", resolved_grid=None, uniform_spacing=Builtin("uniform_spacing", lambda it_, a, k: Rat.atom("s")))
        res = it.call(it.closure_of(f), [cfg, st, axis, Unknown("dtype")], {})
        vals = _vals(res) if isinstance(res, NdArr) else [to_rat(res)]
        ok = all(v.equals(Rat.atom("s") ** 2) for v in vals) and (not isinstance(res, NdArr) or all(n in (1, m) for n, m in zip(res.shape[-3:], shape)))
        ctx.ob("R16.7", f"_resolve_face_area_weights:uniform[axis{axis}]", ok, "uniform grids: every cell has area spacing^2, broadcastable to the region", (getattr(res, "shape", None), vals[0].fmt() if vals else None), "s^2")


def _job(ctx, payload):
    kind, shape = payload
    {"field": _field, "phasor": _phasor, "energy": _energy, "poynting": _poynting, "closed": _closed}[kind](ctx, tuple(shape))


def run(ctx):
    from ..par import run_jobs

    shapes = SHAPES if ctx.tier == "thorough" else SHAPES[:4]
    jobs = [(k, s) for s in shapes for k in ("field", "phasor", "energy", "poynting", "closed")]
    err = run_jobs(ctx, "sa.checks.c16", "_job", jobs, [f"{k}{s}" for k, s in jobs])
    _axis_tables(ctx)
    _weights(ctx)
    _phasor_family_inverse(ctx)
    _closed_phasor_net(ctx)
    _closed_phasor_net(ctx, nfreq=2)
    if ctx.tier == "thorough":
        _closed_phasor_net(ctx, nfreq=3)
    _all_component_weights(ctx)
    if err is not None:
        raise AnalysisError(err)
    ctx.require_count("C16", len(ctx.obligations), 150)
    ctx.trusted_base += ["sa/ndarr.py model of sum/mean/take/reshape/cross/stack on concrete-shape arrays", "size-uniformity of those reductions (shapes other than the interpreted ones)"]
    ctx.assume("real-valued fields in the energy / flux formulas (complex fields: |.|^2 and conj are interpreted but the oracle is stated for real entries)")
