"""C42 — results do not depend on the number of devices (value semantics of the sharded allocation and updates; narrow)."""

from __future__ import annotations

import ast
import itertools
import math

from ..harness import stub_repo_calls
from ..index import AnalysisError
from ..ndarr import NdArr, concatenate
from ..poly import Rat
from ..scene import vec
from ..values import Builtin, Obj, Raised, to_rat

LEVEL = "other"
EXPLANATION = (
    "Sharding is a placement annotation: XLA's SPMD partitioner preserves values, which is the trusted base.  What the "
    "repository itself contributes, and what is decided here, is that nothing it computes depends on the device "
    "count: (1) create_named_sharded_matrix, interpreted for 1, 2 and 4 devices against a model of the jax sharding "
    "API (device list, mesh, partition spec, the evenly split index map, assembly of the global array from the "
    "per-device shards in index order), returns an array of exactly the requested shape filled with the requested "
    "value for every device count, falls back to another axis when the sharded axis has extent one, and raises when "
    "the sharded extent is not divisible; (2) sharding_preserving_set / _add apply the same indexed update whether the "
    "array lives on one device or on several — on symbolic arrays both branches equal arr.at[index].set / add(values); "
    "(3) init_sharded_dict pads only the leading (time) axis up to the next multiple of the device count and fills "
    "with zeros — the slots the recorder indexes (C03, C30) are below the unpadded size; (4) who-may-read: the device "
    "count is read only in core/jax/sharding.py, interfaces/state.init_sharded_dict and the backend probing of "
    "SimulationConfig.__post_init__ — no function of the time loop, of a source, detector or boundary reads it.  "
    "Equality of the floating-point results of differently partitioned XLA programs (reduction order) is not decided."
)

SH = "fdtdx.core.jax.sharding"


def _jax_model(it, n_dev, log):
    """A model of the few jax sharding calls the allocation uses, for n_dev devices."""
    devs = [Obj(None, {"id": i}, f"dev{i}") for i in range(n_dev)]
    ov = it.ext_overrides
    ov["jax.devices"] = lambda it_, a, k: list(devs)
    ov["jax.experimental.mesh_utils.create_device_mesh"] = lambda it_, a, k: Obj(None, {"devices": k.get("devices", a[1] if len(a) > 1 else devs), "shape": a[0]}, "device_mesh")
    ov["jax.sharding.Mesh"] = lambda it_, a, k: Obj(None, {"devices": k.get("devices", a[0] if a else None), "axis_names": k.get("axis_names", a[1] if len(a) > 1 else None)}, "mesh")
    ov["jax.sharding.PartitionSpec"] = lambda it_, a, k: tuple(a)

    def named_sharding(it_, a, k):
        mesh, spec = k.get("mesh", a[0] if a else None), k.get("spec", a[1] if len(a) > 1 else None)
        mesh_devs = mesh.attrs["devices"].attrs["devices"]

        def index_map(it2, aa, kk):
            shape = tuple(int(to_rat(x).const_value()) for x in aa[0])
            sharded = [i for i, nm in enumerate(spec) if nm is not None]
            out = {}
            for d_i, dev in enumerate(mesh_devs):
                idx = []
                for ax, size in enumerate(shape):
                    if ax in sharded:
                        per = size // len(mesh_devs)
                        idx.append(slice(d_i * per, (d_i + 1) * per, None))
                    else:
                        idx.append(slice(None, None, None))
                out[dev] = tuple(idx)
            log["index_map"] = (shape, sharded)
            return _DevDict(out)

        return Obj(None, {"mesh": mesh, "spec": spec, "addressable_devices_indices_map": Builtin("index_map", index_map)}, "named_sharding")

    ov["jax.sharding.NamedSharding"] = named_sharding

    def ones(it_, a, k):
        shape = tuple(int(to_rat(x).const_value()) for x in (k.get("shape", a[0] if a else ())))
        return _Shard(NdArr(shape, [Rat.const(1)] * math.prod(shape)), k.get("device"))

    ov["np.ones"] = ones

    def assemble(it_, a, k):
        shape, sharding, shards = a[0], a[1], a[2]
        shape = tuple(int(to_rat(x).const_value()) for x in shape)
        spec = sharding.attrs["spec"]
        sharded = [i for i, nm in enumerate(spec) if nm is not None]
        arrs = [s.arr if isinstance(s, _Shard) else s for s in shards]
        out = arrs[0] if len(arrs) == 1 else concatenate(arrs, sharded[0])
        if out.shape != shape:
            raise Raised("ValueError", f"shards assemble to {out.shape}, declared global shape {shape}")
        log["assembled"] = True
        return out

    ov["jax.make_array_from_single_device_arrays"] = assemble
    ov["typing.cast"] = lambda it_, a, k: a[1]
    stub_repo_calls(it, {f"{SH}.get_dtype_bytes": lambda it_, a, k: 4})


class _DevDict(dict):
    """dict keyed by device records (identity hash)."""


class _Shard:
    def __init__(self, arr, device):
        self.arr, self.device = arr, device


def _allocation(ctx):
    ix = ctx.index
    f = ix.function(f"{SH}.create_named_sharded_matrix")
    ctx.unit(f.where())
    ctx.unit(ix.function(f"{SH}.get_named_sharding_from_shape").where())
    val = Rat.atom("value")
    cases = [((3, 4, 2, 2), 1), ((3, 8, 2, 2), 1), ((3, 1, 4, 2), 1), ((4, 6), 0), ((1, 1, 4), 0)]
    bad, n = [], 0
    for n_dev, (shape, axis) in itertools.product((1, 2, 4), cases):
        it = ctx.fresh_interp()
        log = {}
        _jax_model(it, n_dev, log)
        # `arr * val` on a shard
        orig_binop = it.binop

        def binop(op, a, b, node=None, _o=orig_binop):
            if isinstance(a, _Shard):
                return _Shard(_o(op, a.arr, b, node), a.device)
            return _o(op, a, b, node)

        it.binop = binop
        eff_axis = axis if shape[axis] != 1 else next(i for i, d in enumerate(shape) if d != 1)
        divisible = shape[eff_axis] % n_dev == 0
        try:
            out = it.call(it.closure_of(f), [], dict(shape=shape, value=val, sharding_axis=axis, dtype="dtype", backend="cpu"))
            outcome = "array"
        except Raised as r:
            out, outcome = None, f"raises {r.exc_name}"
        n += 1
        if not divisible:
            if outcome != "raises ValueError":
                bad.append((n_dev, shape, axis, outcome, "raises ValueError"))
            continue
        ok = isinstance(out, NdArr) and out.shape == shape and all(to_rat(x).equals(val) for x in out.data) and log.get("index_map", (None, None))[1] == [eff_axis]
        if not ok:
            bad.append((n_dev, shape, axis, getattr(out, "shape", outcome), f"full({shape}, value) sharded along axis {eff_axis}"))
    ctx.ob("R42.1", f"{SH}.create_named_sharded_matrix", not bad and n == 15, "for 1, 2 and 4 devices the result has exactly the requested shape and the requested value everywhere; the sharded axis is the requested one, or the first axis of extent > 1 when that one has extent one; a sharded extent that is not divisible by the device count is rejected (15 combinations)", bad[:3], "full(shape, value) for every device count")


def _updates(ctx):
    ix = ctx.index
    f = ix.function(f"{SH}._sharding_preserving_indexed_update")
    ctx.unit(f.where())
    bad = []
    for n_dev, op in itertools.product((1, 2), ("set", "add")):
        it = ctx.fresh_interp()
        it.ext_overrides["jax.jit"] = lambda it_, a, k: a[0]
        it.ext_overrides["typing.cast"] = lambda it_, a, k: a[1]
        base = vec("F")

        class DevArr(NdArr):
            """the array with its placement attributes"""

            def av_getattr(self, name, _n=n_dev):
                if name == "devices":
                    return Builtin("devices", lambda it2, a, k: set(range(_n)))
                if name == "sharding":
                    return "sharding"
                return NdArr.av_getattr(self, name)

        arr = DevArr(base.shape, base.data, base.sp)
        val = Rat.atom("v")  # broadcast into the region
        from ..absint import INTEGER_ATOMS

        INTEGER_ATOMS.update({"lo", "hi"})
        idx = (slice(None), slice(Rat.atom("lo"), Rat.atom("hi")), slice(None), slice(None))

        try:
            out = it.call(it.closure_of(f), [arr, idx, val], dict(operation=op))
        except (Raised, AnalysisError) as e:
            bad.append((n_dev, op, str(e)[:120]))
            continue
        want = it.call(it.getattr(it.getitem(it.getattr(base, "at"), idx), op), [val], {})
        if not (isinstance(out, NdArr) and all(to_rat(x).equals(to_rat(y)) for x, y in zip(out.data, want.data))):
            bad.append((n_dev, op, "differs from arr.at[index]." + op))
    # history independence: the two operations in sequence on arrays of one layout, in one process (one interpreter:
    # module-level state persists between the calls) — each call must still perform its own operation
    for n_dev, order in itertools.product((1, 2), (("set", "add"), ("add", "set"), ("set", "add", "add", "set"))):
        it = ctx.fresh_interp()
        it.ext_overrides["jax.jit"] = lambda it_, a, k: a[0]
        it.ext_overrides["typing.cast"] = lambda it_, a, k: a[1]
        it.ext_overrides["repr"] = lambda it_, a, k: "index"
        base = vec("F")

        class DevArr2(NdArr):
            def av_getattr(self, name, _n=n_dev):
                if name == "devices":
                    return Builtin("devices", lambda it2, a, k: set(range(_n)))
                if name == "sharding":
                    return "sharding"
                if name == "dtype":
                    return "dtype"
                return NdArr.av_getattr(self, name)

        idx = (slice(None), slice(Rat.atom("lo"), Rat.atom("hi")), slice(None), slice(None))
        for step, op in enumerate(order):
            arr = DevArr2(base.shape, base.data, base.sp)
            val = Rat.atom(f"v{step}")
            try:
                out = it.call(it.closure_of(f), [arr, idx, val], dict(operation=op))
            except (Raised, AnalysisError) as e:
                bad.append((n_dev, order, step, str(e)[:120]))
                break
            want = it.call(it.getattr(it.getitem(it.getattr(base, "at"), idx), op), [val], {})
            if not (isinstance(out, NdArr) and all(to_rat(x).equals(to_rat(y)) for x, y in zip(out.data, want.data))):
                bad.append((n_dev, order, f"call {step} ({op}) performed another operation"))
                break
    ctx.ob("R42.2", f"{SH}._sharding_preserving_indexed_update", not bad, "on one device and on several the result is arr.at[index].set / add(values): the multi-device branch only wraps the same update in a jit with the input's sharding as output sharding; also when set and add follow one another on arrays of one layout and region in one process", bad[:3], "same update in both branches, every call its own operation")
    it = ctx.fresh_interp()
    try:
        it.call(it.closure_of(f), [vec("F"), (slice(None),), vec("V")], dict(operation="multiply"))
        rejected = False
    except Raised:
        rejected = True
    except AnalysisError:
        rejected = False
    ctx.ob("R42.2", f"{SH}._sharding_preserving_indexed_update[unknown operation]", rejected, "an unknown operation is rejected rather than silently ignored", rejected, True)


def _recording_buffers(ctx):
    ix = ctx.index
    f = ix.function("fdtdx.interfaces.state.init_sharded_dict")
    ctx.unit(f.where())
    bad = []
    for n_dev, t in itertools.product((1, 2, 4), (5, 8, 9)):
        it = ctx.fresh_interp()
        it.ext_overrides["jax.devices"] = lambda it_, a, k, _n=n_dev: list(range(_n))
        made = {}

        def csm(it_, a, k):
            made[len(made)] = dict(k)
            return ("zeros", tuple(k["shape"]), k["value"])

        stub_repo_calls(it, {"create_named_sharded_matrix": csm})
        sds = Obj(None, dict(shape=(t, 3, 2), dtype="dt"), "sds")
        out = it.call(it.closure_of(f), [{"k": sds}], dict(backend="cpu"))
        want_t = -(-t // n_dev) * n_dev
        got = out.get("k")
        if not (isinstance(got, tuple) and tuple(int(to_rat(x).const_value()) for x in got[1]) == (want_t, 3, 2) and to_rat(got[2]).is_zero() and made[0].get("sharding_axis") == 0):
            bad.append((n_dev, t, got))
    ctx.ob("R42.3", "fdtdx.interfaces.state.init_sharded_dict", not bad, "recording buffers are zero-filled and only their leading (time) axis is padded, up to the next multiple of the device count; the other axes and the slots below the requested size are the same for every device count (9 combinations)", bad[:3], "(ceil(T / n) n, ...) zeros")


READERS = ("devices", "device_count", "local_device_count", "process_count")


def _who_reads_device_count(ctx):
    ix = ctx.index
    sites = []
    for mi in ix.modules.values():
        fns = list(mi.functions.values()) + [m for c in mi.classes.values() for m in c.methods.values()]
        for fi in fns:
            for node in ast.walk(fi.node):
                if isinstance(node, ast.Call) and isinstance(node.func, ast.Attribute) and node.func.attr in READERS and ast.unparse(node.func.value) in ("jax", "jax.lib.xla_bridge"):
                    sites.append(f"{mi.name}.{fi.name}")
                elif isinstance(node, ast.Call) and isinstance(node.func, ast.Attribute) and node.func.attr == "devices" and not node.args and not node.keywords and ast.unparse(node.func.value) != "jax":
                    sites.append(f"{mi.name}.{fi.name}")  # array.devices()
    allowed = (f"{SH}.", "fdtdx.interfaces.state.init_sharded_dict", "fdtdx.config.SimulationConfig.__post_init__", "fdtdx.config.__post_init__")
    outside = sorted({s for s in sites if not s.startswith(allowed)})
    ctx.ob("R42.4", "device-count readers", not outside and len(sites) >= 4, "the device list is read only by the sharding helpers, the recording-buffer allocation and the backend probing of the configuration; nothing in the time loop, the sources, detectors, boundaries or parameter transforms reads it", outside or sorted(set(sites)), "sharding.py, state.init_sharded_dict, SimulationConfig.__post_init__")


def run(ctx):
    _allocation(ctx)
    _updates(ctx)
    _recording_buffers(ctx)
    _who_reads_device_count(ctx)
    ctx.require_count("C42", len(ctx.obligations), 5)
    ctx.trusted_base += [
        "XLA SPMD partitioning preserves values: a sharding annotation does not change what a jitted program computes",
        "model of jax.devices / Mesh / PartitionSpec / NamedSharding.addressable_devices_indices_map (even split of the named axis) / make_array_from_single_device_arrays (assembly in index order)",
    ]
    ctx.assume("grid extents divisible by the device count (the property's own restriction); reduction-order round-off across partitions is not decided")
