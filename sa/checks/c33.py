"""C33 — electric-plane symmetry reduction is exact (the step commutes with unfolding)."""

from __future__ import annotations

import itertools

from ..harness import stub_repo_calls
from ..index import AnalysisError
from ..ndarr import NdArr
from ..poly import Rat
from ..scene import Scene
from ..values import Builtin, Obj, Raised, to_rat
from .c15 import _np_pad

LEVEL = "other"
EXPLANATION = (
    "Reduction is exact when one solver step commutes with unfolding: step_full(unfold(x)) = unfold(step_reduced(x)) "
    "for every parity-consistent reduced state x.  Decided on the repo's own code, for each axis as electric symmetry "
    "axis (and for two electric axes at once, with and without periodic transverse faces): the reduced state lives "
    "on a concrete small grid of free symbols (every field value an independent unknown, the odd components sampled "
    "on the plane — tangential E, normal H — zero there, as parity demands), materials are free symbols constant "
    "along the symmetry axis; the repo's `forward` (update_E, update_H with the wall projection) is interpreted on "
    "the reduced scene with the symmetry PEC wall and on the doubled scene without it, the doubled state being the "
    "repo's own unfold_fields of the reduced one; after the step the doubled fields equal unfold_fields of the "
    "stepped reduced fields, entry by entry as polynomials, on every cell except the two outermost layers of the "
    "mirrored half (where unfold_fields repeats a sample because the partner lies outside the kept domain — the "
    "far-boundary cells the statement excludes).  The same holds after two steps on a longer grid (thorough tier).  "
    "The co-located fields a detector next to the plane receives in the reduced scene (mirror halo) equal those the "
    "same detector receives in the doubled scene (real neighbour cells), and the repo's detector unfolding of the "
    "reduced co-located record reproduces the doubled scene's record on both sides of the plane.  Holds for all field and material values "
    "on those grids; sources, full-tensor materials and round-off are outside this check (C32 decides the parity and "
    "index tables themselves, C15 the halo rule)."
)

PEC = "fdtdx.objects.boundaries.pec.PerfectElectricConductor"
BLO = "fdtdx.objects.boundaries.bloch.BlochBoundary"


def _on_plane(ft, c, a):
    # Yee staggering: E_c sits half a cell along c, H_c half a cell along the two other axes
    return (c != a) if ft == "E" else (c == a)


def _parity_odd(ft, c, a):
    # electric plane: tangential E and normal H are odd
    return (c != a) if ft == "E" else (c == a)


def _scene(ctx, shape, sym, periodic, detector=None):
    ix = ctx.index
    it = ctx.fresh_interp()
    it.ext_overrides["np.pad"] = _np_pad
    sc = Scene(ix, it)
    cfg = sc.config(symmetry=tuple(sym))
    V = ix.cls("fdtdx.objects.static_material.static.SimulationVolume")
    vol = Obj(V, dict(name="volume", grid_shape=shape, _grid_slice_tuple=tuple((0, n) for n in shape)), "volume")
    objs = [vol]
    for a in range(3):
        if sym[a] == -1:
            gst = tuple((0, 1) if b == a else (0, shape[b]) for b in range(3))
            objs.append(Obj(ix.cls(PEC), dict(name=f"_sym_wall_{a}", axis=a, direction="-", _grid_slice_tuple=gst, _config=cfg, _is_symmetry_wall=True), f"wall{a}"))
        if periodic[a]:
            for d in "-+":
                gst = tuple(((0, 1) if d == "-" else (shape[b] - 1, shape[b])) if b == a else (0, shape[b]) for b in range(3))
                objs.append(Obj(ix.cls(BLO), dict(name=f"per_{a}{d}", axis=a, direction=d, bloch_vector=(0, 0, 0), needs_complex_fields=False, _grid_slice_tuple=gst, _config=cfg, _is_symmetry_wall=False), f"per{a}{d}"))
    received = {}
    if detector is not None:
        D = ix.cls("fdtdx.objects.detectors.detector.Detector")

        def upd(it_, a, k):
            received["E"], received["H"] = k.get("E"), k.get("H")
            return {"rec": NdArr((1,), [0])}

        objs.append(Obj(D, dict(name="det", inverse=False, exact_interpolation=True, _is_on_at_time_step_arr=[True, True], _grid_slice_tuple=detector, update=Builtin("update", upd)), "det"))
    OC = ix.cls("fdtdx.fdtd.container.ObjectContainer")
    return it, sc, Obj(OC, {"object_list": objs, "volume_idx": 0}, "objects"), cfg, received


def _field(name, ft, shape, elec_axes):
    data = []
    for c in range(3):
        for p in itertools.product(*[range(n) for n in shape]):
            zero = any(p[a] == 0 and _on_plane(ft, c, a) and _parity_odd(ft, c, a) for a in elec_axes)
            data.append(Rat.const(0) if zero else Rat.atom((name, c) + p))
    return NdArr((3,) + shape, data)


def _material(name, shape, elec_axes):
    data = []
    for c in range(3):
        for p in itertools.product(*[range(n) for n in shape]):
            q = tuple("*" if a in elec_axes else p[a] for a in range(3))  # constant along the symmetry axes
            data.append(Rat.atom((name, c) + q))
    return NdArr((3,) + shape, data)


def _unfold(it, F, sym, ft):
    try:
        return it.call_function("fdtdx.fdtd.symmetry.unfold_fields", F, tuple(sym), ft)
    except Raised as r:
        raise AnalysisError(f"unfold_fields raises: {r}")


def _step(it, sc, objs, cfg, E, H, ie, im, steps=1, with_detector=False):
    arrays = sc.arrays(fields=sc.fields(E=E, H=H), inv_permittivities=ie, inv_permeabilities=im, detector_states={"det": {"rec": NdArr((1,), [0])}} if with_detector else {})
    state = (0, arrays)
    stub_repo_calls(it, {"_check_updated_state_layout": lambda it_, a, k: None})
    try:
        for _ in range(steps):
            state = it.call_function("fdtdx.fdtd.forward.forward", state=state, config=cfg, objects=objs, key=Rat.atom("key"), record_detectors=with_detector, record_boundaries=False, simulate_boundaries=True)
    except Raised as r:
        raise AnalysisError(f"forward raises on the concrete scene: {r}")
    f = state[1].attrs["fields"]
    return f.attrs["E"], f.attrs["H"]


def _case(ctx, label, red_shape, sym, periodic, steps):
    elec = [a for a in range(3) if sym[a] == -1]
    full_shape = tuple(2 * n if a in elec else n for a, n in enumerate(red_shape))
    # reduced run
    it_r, sc_r, objs_r, cfg_r, _ = _scene(ctx, red_shape, sym, periodic)
    E0, H0 = _field("E", "E", red_shape, elec), _field("H", "H", red_shape, elec)
    ie_r, im_r = _material("ie", red_shape, elec), _material("im", red_shape, elec)
    E1, H1 = _step(it_r, sc_r, objs_r, cfg_r, E0, H0, ie_r, im_r, steps)
    # doubled run from the unfolded state, no wall
    it_f, sc_f, objs_f, cfg_f, _ = _scene(ctx, full_shape, (0, 0, 0), periodic)
    EF0, HF0 = _unfold(it_f, E0, sym, "E"), _unfold(it_f, H0, sym, "H")
    if EF0.shape != (3,) + full_shape:
        raise AnalysisError(f"unfold_fields gives shape {EF0.shape}, expected {(3,) + full_shape}")
    ie_f, im_f = _material("ie", full_shape, elec), _material("im", full_shape, elec)
    EF1, HF1 = _step(it_f, sc_f, objs_f, cfg_f, EF0, HF0, ie_f, im_f, steps)
    # compare with the unfolded reduced result
    UE, UH = _unfold(it_f, E1, sym, "E"), _unfold(it_f, H1, sym, "H")
    skip = 2 * steps  # outermost layers of the mirrored half: the repeated sample and what it reaches per step
    bad, n = None, 0
    for ft, got, want in (("E", EF1, UE), ("H", HF1, UH)):
        for c in range(3):
            for p in itertools.product(*[range(m) for m in full_shape]):
                if any(p[a] < skip for a in elec):
                    continue
                flat = ((c * full_shape[0] + p[0]) * full_shape[1] + p[1]) * full_shape[2] + p[2]
                n += 1
                g, w = to_rat(got.data[flat]), to_rat(want.data[flat])
                if not g.equals(w):
                    bad = bad or (f"{ft}{'xyz'[c]} at doubled cell {p}", g.fmt()[:260], w.fmt()[:260])
    if n < 6 * 8:
        raise AnalysisError(f"{label}: only {n} comparable entries")
    ctx.ob("R33.1", label, bad is None, f"{steps} step(s) of the doubled domain from the unfolded state equal the unfolding of {steps} step(s) of the reduced domain with the symmetry wall, on every cell at least {skip} layers away from the far end of the mirrored half" + (f" — differs for {bad[0]}" if bad else ""), bad[1] if bad else f"{n} entries", bad[2] if bad else "unfold(step_reduced(x))")
    # the reduced result is again parity-consistent: odd on-plane components vanish on the plane
    viol = []
    for ft, F in (("E", E1), ("H", H1)):
        for c in range(3):
            for a in elec:
                if not (_on_plane(ft, c, a) and _parity_odd(ft, c, a)):
                    continue
                for p in itertools.product(*[range(m) for m in red_shape]):
                    if p[a] == 0:
                        flat = ((c * red_shape[0] + p[0]) * red_shape[1] + p[1]) * red_shape[2] + p[2]
                        if not to_rat(F.data[flat]).is_zero():
                            viol.append((ft, c, p))
    ctx.ob("R33.2", label + ":parity-preserved", not viol, "after the step the tangential E and the normal H still vanish on the plane, so the next step starts parity-consistent again", viol[:3], "zero on the plane")


def _detector_case(ctx, label, red_shape, sym, periodic):
    elec = [a for a in range(3) if sym[a] == -1]
    full_shape = tuple(2 * n if a in elec else n for a, n in enumerate(red_shape))
    M = 2  # detector depth on each side of the plane
    det_r = tuple((0, M) if a in elec else (0, red_shape[a]) for a in range(3))
    det_f = tuple((red_shape[a] - M, red_shape[a] + M) if a in elec else (0, red_shape[a]) for a in range(3))
    it_r, sc_r, objs_r, cfg_r, rec_r = _scene(ctx, red_shape, sym, periodic, detector=det_r)
    E0, H0 = _field("E", "E", red_shape, elec), _field("H", "H", red_shape, elec)
    _step(it_r, sc_r, objs_r, cfg_r, E0, H0, _material("ie", red_shape, elec), _material("im", red_shape, elec), 1, with_detector=True)
    it_f, sc_f, objs_f, cfg_f, rec_f = _scene(ctx, full_shape, (0, 0, 0), periodic, detector=det_f)
    EF0, HF0 = _unfold(it_f, E0, sym, "E"), _unfold(it_f, H0, sym, "H")
    _step(it_f, sc_f, objs_f, cfg_f, EF0, HF0, _material("ie", full_shape, elec), _material("im", full_shape, elec), 1, with_detector=True)
    reg_r = tuple(e - b for b, e in det_r)
    reg_f = tuple(e - b for b, e in det_f)
    for ft in ("E", "H"):
        if not (isinstance(rec_r.get(ft), NdArr) and rec_r[ft].shape == (3,) + reg_r and isinstance(rec_f.get(ft), NdArr) and rec_f[ft].shape == (3,) + reg_f):
            raise AnalysisError(f"{label}: detector inputs have shapes {getattr(rec_r.get(ft), 'shape', None)} / {getattr(rec_f.get(ft), 'shape', None)}")
    flat = lambda shape, c, p: ((c * shape[0] + p[0]) * shape[1] + p[1]) * shape[2] + p[2]
    # (a) kept side: the reduced record equals the doubled record on the cells j >= 0
    bad, n = None, 0
    for ft in ("E", "H"):
        for c in range(3):
            for p in itertools.product(*[range(m) for m in reg_r]):
                q = tuple(p[a] + (M if a in elec else 0) for a in range(3))
                n += 1
                x, y = to_rat(rec_r[ft].data[flat(reg_r, c, p)]), to_rat(rec_f[ft].data[flat(reg_f, c, q)])
                if not x.equals(y):
                    bad = bad or (f"{ft}{'xyz'[c]} at reduced cell {p}", x.fmt()[:240], y.fmt()[:240])
    ctx.ob("R33.3", label + ":detector", bad is None and n >= 48, "the co-located E and time-centred H a detector touching the plane receives in the reduced scene (mirror halo behind the plane) equal what the same detector receives on the kept side of the doubled scene (real cells behind the plane)" + (f" — differs for {bad[0]}" if bad else ""), bad[1] if bad else f"{n} entries", bad[2] if bad else "doubled-scene record")
    # (b) the repo's record unfolding of the reduced record equals the doubled record on both sides
    ix = ctx.index
    FD = ix.cls("fdtdx.objects.detectors.field.FieldDetector")
    det = Obj(FD, dict(components=("Ex", "Ey", "Ez", "Hx", "Hy", "Hz"), reduce_volume=False, exact_interpolation=True, name="det"), "det")
    rec = NdArr((1, 6) + reg_r, list(rec_r["E"].data) + list(rec_r["H"].data))
    touched = tuple(sym)
    f = ix.function("fdtdx.fdtd.symmetry._unfold_one_detector")
    ctx.unit(f.where())
    it_u = ctx.fresh_interp()
    try:
        out = it_u.call(it_u.closure_of(f), [det, {"fields": rec}, touched, len(elec)], {})["fields"]
    except Raised as r:
        raise AnalysisError(f"_unfold_one_detector raises: {r}")
    want_shape = (1, 6) + reg_f
    bad, n = None, 0
    if not (isinstance(out, NdArr) and out.shape == want_shape):
        bad = ("shape", getattr(out, "shape", out), want_shape)
    else:
        for r_, (ft, c) in enumerate([("E", 0), ("E", 1), ("E", 2), ("H", 0), ("H", 1), ("H", 2)]):
            for q in itertools.product(*[range(m) for m in reg_f]):
                # co-located samples sit on integer x, y and half-integer z: across an x / y plane the outermost
                # mirrored sample has its partner outside the reduced record
                if any(a in (0, 1) and q[a] == 0 for a in elec):
                    continue
                n += 1
                g = to_rat(out.data[flat(reg_f, r_, q)])
                w = to_rat(rec_f[ft].data[flat(reg_f, c, q)])
                if not g.equals(w):
                    bad = bad or (f"{ft}{'xyz'[c]} at doubled record cell {q}", g.fmt()[:240], w.fmt()[:240])
    # the same for a detector that lists a subset of components in non-canonical order: the record rows are in
    # canonical order (Ex..Hz) whatever order the user wrote, and the parities must follow the rows
    sub = ("Ez", "Hx", "Ex")
    canon = [("E", 0), ("E", 2), ("H", 0)]
    det2 = Obj(FD, dict(components=sub, reduce_volume=False, exact_interpolation=True, name="det"), "det")
    per = len(rec_r["E"].data) // 3
    rows2 = list(rec_r["E"].data[0:per]) + list(rec_r["E"].data[2 * per : 3 * per]) + list(rec_r["H"].data[0:per])
    rec2 = NdArr((1, 3) + reg_r, rows2)
    try:
        out2 = it_u.call(it_u.closure_of(f), [det2, {"fields": rec2}, touched, len(elec)], {})["fields"]
    except Raised as r:
        raise AnalysisError(f"_unfold_one_detector raises: {r}")
    if not (isinstance(out2, NdArr) and out2.shape == (1, 3) + reg_f):
        bad = bad or ("shape (subset)", getattr(out2, "shape", out2), (1, 3) + reg_f)
    else:
        for r_, (ft, c) in enumerate(canon):
            for q in itertools.product(*[range(m) for m in reg_f]):
                if any(a in (0, 1) and q[a] == 0 for a in elec):
                    continue
                n += 1
                g = to_rat(out2.data[flat(reg_f, r_, q)])
                w = to_rat(rec_f[ft].data[flat(reg_f, c, q)])
                if not g.equals(w):
                    bad = bad or (f"{ft}{'xyz'[c]} (components listed as {sub}) at doubled record cell {q}", g.fmt()[:240], w.fmt()[:240])
    ctx.ob("R33.4", label + ":record-unfolding", bad is None and n >= 48, "unfolding the reduced co-located record with the repo's detector unfolding reproduces the doubled scene's record on both sides of the plane (all cells whose mirror partner lies inside the reduced record)" + (f" — differs for {bad[0]}" if bad else ""), bad[1] if bad else f"{n} entries", bad[2] if bad else "doubled-scene record")


CASES = [
    ("electric plane on x", (3, 2, 2), (-1, 0, 0), (False, False, False)),
    ("electric plane on y", (2, 3, 2), (0, -1, 0), (False, False, False)),
    ("electric plane on z", (2, 2, 3), (0, 0, -1), (False, False, False)),
    ("electric plane on x, periodic y and z", (3, 2, 3), (-1, 0, 0), (False, True, True)),
    ("electric planes on x and y", (3, 3, 2), (-1, -1, 0), (False, False, False)),
    ("electric planes on y and z, periodic x", (2, 3, 3), (0, -1, -1), (True, False, False)),
]


def _job(ctx, payload):
    kind, label, shape, sym, per, steps = payload
    if kind == "step":
        _case(ctx, f"{label} [{steps} step{'s' if steps > 1 else ''}]", shape, sym, per, steps)
    else:
        _detector_case(ctx, label, shape, sym, per)


def _payloads(tier):
    jobs = [("step", lb, sh, sy, pe, 1) for lb, sh, sy, pe in CASES]
    jobs += [("det", lb, sh, sy, pe, 1) for lb, sh, sy, pe in CASES]
    if tier == "thorough":
        for lb, sh, sy, pe in CASES[:4]:
            big = tuple(5 if sy[a] == -1 else n for a, n in enumerate(sh))
            jobs.append(("step", lb, big, sy, pe, 2))
    return jobs


def _composed(ctx):
    """what the reduced run and its unfolding rest on, decided by C34's and C32's rules and evaluated here because the
    exactness of the reduction fails without them: the wall objects the reduced run gets (one full plane per electric
    axis, also with two or three of them) and which detectors are mirror-extended afterwards (the clipped ones only)."""
    from . import c32, c34

    n0 = len(ctx.obligations)
    c34._walls(ctx)
    c32._dispatch(ctx)
    for o in ctx.obligations[n0:]:
        o.rule = "R33.4"
    ctx.require_count("R33.4 composed rules", len(ctx.obligations) - n0, 5)


def run(ctx):
    from .. import par

    for q in ("fdtdx.fdtd.forward.forward", "fdtdx.fdtd.update.update_E", "fdtdx.fdtd.update.update_H", "fdtdx.fdtd.symmetry.unfold_fields", "fdtdx.fdtd.update.pad_fields_with_symmetry_mirror", "fdtdx.fdtd.update.update_detector_states"):
        ctx.unit(ctx.index.function(q).where())
    jobs = _payloads(ctx.tier)
    err = par.run_jobs(ctx, "sa.checks.c33", "_job", jobs, [f"{j[0]}:{j[1]}" for j in jobs])
    _composed(ctx)
    if err:
        raise AnalysisError(err)
    ctx.require_count("C33", len(ctx.obligations), 24)
    ctx.trusted_base += [
        "np.pad / roll / slicing models on concrete arrays; Yee staggering (which components are sampled on the plane)",
        "parity and mirror-index tables of unfold_fields are decided by C32; the mirror halo rule by C15",
    ]
    ctx.assume("materials constant along the symmetry axis, diagonal tiers; no sources; zero or periodic transverse faces; the doubled domain's far faces are the mirror images of the reduced domain's")
