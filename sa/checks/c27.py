"""C27 — placement does not depend on the order of objects or constraints (necessary structural clauses)."""

from __future__ import annotations

import ast
import itertools

from ..harness import open_obj
from ..index import AnalysisError
from ..poly import Rat
from ..values import Obj, Raised, to_rat
from . import c26

LEVEL = "other"
EXPLANATION = (
    "Confluence of the placement fixpoint is not decided in general.  Decided are the clauses it rests on: "
    "(1) information only grows and disagreement is an error — every applier and both bookkeeping passes are "
    "interpreted on the three slot states (empty -> written; equal -> untouched, no error; different -> error, "
    "never an overwrite), so the value a slot ends with cannot depend on which constraint reached it first; "
    "(2) the order-sensitive steps are fenced: extension to the volume and the unresolved-object handler are "
    "reached only when a complete sweep changed nothing, the per-constraint loop has no break / return / "
    "continue that could skip later constraints, and an exception of one applier does not end the sweep; "
    "(3) extension itself is order-free: _extend_to_inf_if_possible is interpreted on small systems under every "
    "permutation of the object map and of the constraint list (extension constraints in both directions, pending "
    "and resolved position constraints) and must return identical slices."
)

INIT = c26.INIT


def _structure(ctx):
    ix = ctx.index
    f = ix.function(f"{INIT}._apply_constraints_iteratively")
    ctx.unit(f.where())
    loops = [n for n in ast.walk(f.node) if isinstance(n, ast.For) and ast.unparse(n.iter) == "constraints"]
    ctx.ob("R27.1", "_apply_constraints_iteratively:constraint-loop", len(loops) == 1, "exactly one sweep over the constraint list per iteration", len(loops), 1)
    if len(loops) != 1:
        return
    loop = loops[0]
    jumps = [type(n).__name__ for n in ast.walk(loop) if isinstance(n, (ast.Break, ast.Return, ast.Continue))]
    ctx.ob("R27.1", "_apply_constraints_iteratively:no-early-exit", not jumps, "the sweep visits every constraint: no break / return / continue inside it", jumps, [])
    tries = [s for s in loop.body if isinstance(s, ast.Try)]
    ok = len(tries) == 1 and all(not any(isinstance(n, (ast.Raise, ast.Break, ast.Return)) for n in ast.walk(h)) for h in tries[0].handlers) and bool(tries[0].handlers)
    ctx.ob("R27.1", "_apply_constraints_iteratively:soft-errors", ok, "an applier's exception is caught inside the sweep and does not end it", [ast.unparse(h)[:100] for t in tries for h in t.handlers], "except ...: errors[...] = ...")
    # the outer iteration: calls to the extension / unresolved handler are guarded by `not changed`
    outer = [n for n in ast.walk(f.node) if isinstance(n, ast.For) and loop in ast.walk(n) and n is not loop]
    if len(outer) != 1:
        raise AnalysisError("cannot find the fixpoint iteration around the constraint sweep")
    outer = outer[0]
    for callee in ("_extend_to_inf_if_possible", "_handle_unresolved_objects"):
        sites = []

        def visit(stmts, guards):
            for s in stmts:
                if isinstance(s, ast.If):
                    visit(s.body, guards + [ast.unparse(s.test)])
                    visit(s.orelse, guards + [f"not ({ast.unparse(s.test)})"])
                elif isinstance(s, (ast.For, ast.While, ast.With, ast.Try)):
                    for blk in (getattr(s, "body", []), getattr(s, "orelse", []), getattr(s, "finalbody", [])):
                        visit(blk, guards)
                    for h in getattr(s, "handlers", []):
                        visit(h.body, guards)
                else:
                    for c in ast.walk(s):
                        if isinstance(c, ast.Call) and ast.unparse(c.func) == callee:
                            sites.append(list(guards))

        visit(outer.body, [])
        ok = bool(sites) and all("not changed" in g for g in sites)
        ctx.ob("R27.1", f"_apply_constraints_iteratively:{callee}:fenced", ok, f"inside the iteration {callee} is reached only under `not changed` (after a sweep that resolved nothing)", sites, "every call site guarded by `not changed`")
    # after the sweep position in the body: the extension call comes after the sweep
    idx_loop = next(i for i, s in enumerate(outer.body) if loop in ast.walk(s))
    idx_ext = [i for i, s in enumerate(outer.body) if any(isinstance(c, ast.Call) and ast.unparse(c.func) == "_extend_to_inf_if_possible" for c in ast.walk(s))]
    ctx.ob("R27.1", "_apply_constraints_iteratively:extension-after-sweep", bool(idx_ext) and min(idx_ext) > idx_loop, "extension is attempted only after the constraint sweep of the same iteration", (idx_loop, idx_ext), "after")


def _extension_permutations(ctx):
    ix = ctx.index
    f = ix.function(f"{INIT}._extend_to_inf_if_possible")
    ctx.unit(f.where())
    EXT = ix.cls("fdtdx.objects.object.SizeExtensionConstraint")
    POS = ix.cls("fdtdx.objects.object.PositionConstraint")
    SIZ = ix.cls("fdtdx.objects.object.SizeConstraint")
    names = ("a", "b", "vol")

    def system(k):
        sl = {n: [[None, None], [None, None], [None, None]] for n in names}
        sh = {n: [None, None, None] for n in names}
        for ax in range(3):
            sl["vol"][ax] = [0, Rat.atom(f"V{ax}")]
            sh["vol"][ax] = Rat.atom(f"V{ax}")
        cons = []
        if k == 0:  # a extends '+' to b on x; b has a pending position constraint to a on y; size known on z
            cons = [
                Obj(EXT, dict(object="a", other_object="b", axis=0, direction="+", other_position=-1, offset=0, grid_offset=0), "e1"),
                Obj(POS, dict(object="b", other_object="a", axes=(1,), object_positions=(0,), other_object_positions=(0,), margins=(None,), grid_margins=(None,)), "p1"),
                Obj(SIZ, dict(object="b", other_object="a", axes=(2,), other_axes=(2,), proportions=(1,), offsets=(None,), grid_offsets=(None,)), "s1"),
            ]
            sh["a"][2] = Rat.atom("az")
            sl["b"][0] = [Rat.atom("bx0"), None]
        elif k == 1:  # two extension constraints on the same axis in both directions, one position constraint resolved
            cons = [
                Obj(EXT, dict(object="a", other_object=None, axis=1, direction="-", other_position=0, offset=0, grid_offset=0), "e1"),
                Obj(EXT, dict(object="b", other_object="a", axis=1, direction="+", other_position=1, offset=0, grid_offset=0), "e2"),
                Obj(POS, dict(object="b", other_object="vol", axes=(0, 2), object_positions=(0, 0), other_object_positions=(0, 0), margins=(None, None), grid_margins=(None, None)), "p1"),
            ]
            sh["b"][0] = Rat.atom("bsx")
            sl["a"][2] = [Rat.atom("az0"), Rat.atom("az1")]
        else:  # nothing but sizes / one bound
            cons = [Obj(SIZ, dict(object="a", other_object="vol", axes=(0,), other_axes=(0,), proportions=(1,), offsets=(None,), grid_offsets=(None,)), "s1")]
            sh["a"][1] = Rat.atom("ay")
            sl["b"][2] = [None, Rat.atom("bz1")]
            sh["b"][2] = Rat.atom("bsz")
        return sl, sh, cons

    n = 0
    for k in range(3):
        ref = None
        bad = None
        flag_bad = None
        for operm in itertools.permutations(names):
            sl0, sh0, cons0 = system(k)
            for cperm in itertools.permutations(range(len(cons0))):
                sl, sh, cons = system(k)
                it = ctx.fresh_interp()
                om = {nm: open_obj(None, nm, name=nm) for nm in operm}
                sl = {nm: sl[nm] for nm in operm}
                sh = {nm: sh[nm] for nm in operm}
                try:
                    res, sl2 = it.call(it.closure_of(f), [], dict(constraints=[cons[i] for i in cperm], object_map=om, slice_dict=sl, shape_dict=sh, volume_name="vol"))
                except Raised as r:
                    raise AnalysisError(f"_extend_to_inf_if_possible raises: {r}")
                flat = tuple((nm, ax, s, None if sl2[nm][ax][s] is None else to_rat(sl2[nm][ax][s]).fmt()) for nm in names for ax in range(3) for s in (0, 1)) + (res,)
                sl_ref, _, _ = system(k)
                wrote = any((sl_ref[nm][ax][s] is None) != (sl2[nm][ax][s] is None) for nm in names for ax in range(3) for s in (0, 1))
                if bool(res) is not wrote:
                    flag_bad = flag_bad or (operm, cperm, res, wrote)
                n += 1
                if ref is None:
                    ref = flat
                elif flat != ref:
                    bad = bad or (operm, cperm, [x for x, y in zip(flat, ref) if x != y][:3])
        ctx.ob("R27.2", f"_extend_to_inf_if_possible:system{k}:progress-flag", flag_bad is None, "the returned flag is true iff some slot was filled, whatever the order of objects and constraints", flag_bad, "flag == something written")
        ctx.ob("R27.2", f"_extend_to_inf_if_possible:system{k}", bad is None, "identical slices and progress flag under every permutation of the object map and of the constraint list", bad, "permutation-invariant")
    ctx.note(f"R27.2: {n} interpreted permutations")


def run(ctx):
    c26._size_constraint(ctx)
    c26._position_constraint(ctx)
    c26._extension_constraint(ctx)
    c26._coordinate_constraints(ctx)
    c26._progress_flags(ctx)
    c26._bookkeeping(ctx)
    c26._exit_rule(ctx, "R27.3")
    # confluence of the one applier that writes two slots: which of them another constraint fixed first must not matter
    c26._position_constraint(ctx, rule="R27.4", value_rule="R27.4")
    _structure(ctx)
    _extension_permutations(ctx)
    ctx.require_count("C27", len(ctx.obligations), 300)
    ctx.trusted_base += ["opaque recording grid of C26", "syntax-tree guard extraction for the fixpoint loop"]
