"""C13 — plane sources radiate only in their stated direction (structural necessary clauses)."""

from __future__ import annotations

import ast
import itertools
from fractions import Fraction as Fr

from .. import tfsf
from ..absint import region_key
from ..index import AnalysisError
from ..kernel import clean, run_curl
from ..ndarr import NdArr, field_atom
from ..poly import I, Rat, apply_fn, derivative, normalise_sqrt
from ..values import Raised, to_rat

LEVEL = "other"
EXPLANATION = (
    "A total-field/scattered-field plane is one-directional exactly when the correction it adds is the incident "
    "field's own contribution to the discrete curl across the plane, sampled where and when the Yee grid holds it, "
    "and when the incident pair (E, H, k) is a right-handed plane wave with E/H = the medium's impedance.  Decided "
    "on the code, for every propagation axis, both directions, forward and inverse, and every material tier: (1) "
    "TFSFPlaneSource.update_E / update_H, interpreted on a symbolic plane, add at the plane cell exactly "
    "-s * c * inv_material * K(i,j,n) * inc_j, where K is the coefficient table of the normal-axis difference read "
    "off the repo's own curl_H / curl_E (interpreted on a symbolic field), s = +1 for '+', -1 for '-', negated for the "
    "inverse update, each incident component evaluated with its own Yee time offset (and the quadrature / filtered "
    "profile variants); (2) calculate_time_offset_yee, interpreted on concrete small planes for each propagation axis "
    "on both the uniform and the edge-coordinate path and both velocity paths, delays component c at cell p by "
    "-(x_c(p) - centre) . k / (v dt) with x_c the Yee position forced by the curl's staggering (E_c half a cell along "
    "c, H_c half a cell along the other two axes); (3) normalize_polarization_for_source / "
    "tilted_polarization_vectors give E x H = k |.|^2 with k = +-e_n for the declared direction, whichever of E or H "
    "is prescribed, untilted and for every angle of an azimuth-only or elevation-only tilt (rational half-angle "
    "parametrisation; combined tilts are outside this property); _source_impedance is "
    "sqrt(inv_eps / inv_mu); (4) in the solver the H-side injection is evaluated half a step after the E-side one at "
    "all call sites (forward and reverse), and LinearlyPolarizedPlaneSource.apply wires e_pol -> E, h_pol / impedance "
    "-> H and the same wave vector into the time offsets.  The radiated power ratio itself (1e-3, Gaussian 10 %) is a "
    "numerical quantity and is not decided."
)

AX = "xyz"
C0 = 299792458


# ------------------------------------------------------------------ (1) injection == curl contribution
def _curl_tables(ctx):
    """K[(kind)][(i, j, n)]: coefficient with which F_j at the plane cell enters the n-difference of curl_i."""
    tables = {}
    for which, F, shift in (("curl_H", "H", -1), ("curl_E", "E", +1)):
        curl, _, _ = run_curl(ctx, which)
        K = {}
        for i in range(3):
            expr = clean(curl.data[i])
            for j in range(3):
                for n in range(3):
                    s = [0, 0, 0]
                    s[n] = shift
                    a = list(field_atom(f"{F}{j}", tuple(s)).atoms())[0]
                    d = derivative(expr, a)
                    if not d.is_const():
                        raise AnalysisError(f"{which}[{i}] is not linear in the field")
                    # backward difference F - F[-n]: the plane-cell coefficient is minus the shifted one;
                    # forward difference F[+n] - F: likewise
                    K[(i, j, n)] = -d.const_value()
        nz = sum(1 for v in K.values() if v)
        if nz != 6:
            raise AnalysisError(f"{which}: expected 6 one-cell difference terms, found {nz}")
        tables[F] = K
    return tables


def _amp(time, phase):
    return Rat.atom(("call", "amp", time, phase))


def _incident(G, j, cplx, filt):
    """Expected incident component j of field G at the injection time (harness atoms of sa/tfsf.py)."""
    t, dt, phi, A = Rat.atom("t"), Rat.atom("dt"), Rat.atom("phi"), Rat.atom("A")
    toff = Rat.atom(f"toff{G}{j}")
    if filt:
        return Rat.atom(f"{G}inc{j}") * Rat.atom(("call", "interp", t + toff, "Hfilter")) * A
    time = (t + toff) * dt
    if cplx:
        PI = Rat.atom("π")
        return (Rat.atom(f"{G}incr{j}") * _amp(time, phi) + Rat.atom(f"{G}inci{j}") * _amp(time, phi - Fr(1, 2) * PI)) * A
    return Rat.atom(f"{G}inc{j}") * _amp(time, phi) * A


def _inv_material(kind, comps, row, col):
    name = "ie" if kind == "E" else "im"
    if comps == 0:
        return Rat.const(Fr(7, 5)) if row == col else Rat.const(0)
    if comps == 9:
        return to_rat(field_atom(f"{name}{row * 3 + col}"))
    if row != col:
        return Rat.const(0)
    return to_rat(field_atom(f"{name}{0 if comps == 1 else row}"))


def _expected_region(axis):
    sl = []
    for a in range(3):
        lo = Rat.atom(f"src_{AX[a]}min")
        sl.append(slice(lo, lo + 1, None) if a == axis else slice(lo, Rat.atom(f"src_{AX[a]}max"), None))
    return ("ind", ("region", region_key(tuple(sl))))


def _injection(ctx, tables):
    n_cases = 0
    tiers = [(3, 3), (9, 9), (1, 0), (1, 1)]
    for kind in ("E", "H"):
        G = "H" if kind == "E" else "E"  # the incident field injected into `kind`
        K = tables[G]
        for axis, direction, inverse, (ec, mc) in itertools.product(range(3), "+-", (False, True), tiers):
            variants = [(False, False)]
            if not inverse and (ec, mc) in ((3, 3), (9, 9)):
                variants.append((True, False))
                if kind == "E":
                    variants.append((False, True))
            for cplx, filt in variants:
                try:
                    out = tfsf.plane_update(ctx, kind, axis, direction, inverse, ec, mc, cplx, filt)
                except Raised as r:
                    raise AnalysisError(f"TFSFPlaneSource.update_{kind} raises on the symbolic plane: {r}")
                s = (1 if direction == "+" else -1) * (-1 if inverse else 1)
                # E' = E + c ie curl_H(H): the '+' plane cell holds total H and scattered E, so the stored curl_H
                # contains K_H * inc_H too much for the scattered E: corr = -s c ie K_H inc_H.  H' = H - c im curl_E(E):
                # the stored curl_E lacks K_E * inc_E for the total H: corr = -s c im K_E inc_E (C01 decides the two
                # update normal forms; K is the coefficient of the plane-cell sample in the normal-axis difference).
                comps = ec if kind == "E" else mc
                ind = _expected_region(axis)
                label = f"TFSFPlaneSource.update_{kind}[axis{axis},dir{direction},{'inverse' if inverse else 'forward'},eps{ec},mu{mc}{',complex' if cplx else ''}{',filteredH' if filt else ''}]"
                bad = None
                for i in range(3):
                    corr = Rat.const(0)
                    for col in range(3):
                        m = _inv_material(kind, comps, i, col)
                        if m.is_zero():
                            continue
                        for j in range(3):
                            k = K[(col, j, axis)]
                            if k:
                                corr = corr + m * k * _incident(G, j, cplx, filt)
                    want = to_rat(field_atom(f"{kind}{i}")) + Rat.atom(ind) * (-s) * Rat.atom("c") * corr
                    got = to_rat(out.data[i])
                    if not got.equals(want):
                        bad = bad or (i, got.fmt()[:300], want.fmt()[:300])
                n_cases += 1
                ctx.ob(
                    "R13.1", label, bad is None,
                    f"the increment at the plane cell is {'-' if s > 0 else '+'}c * inv_{'eps' if kind == 'E' else 'mu'} * (normal-axis difference coefficients of the repo's curl_{G}) * incident {G}, each component with its own time offset; nothing elsewhere" + (f" — component {bad[0]} differs" if bad else ""),
                    bad[1] if bad else "3 components", bad[2] if bad else "curl contribution of the incident field",
                )
    ctx.require_count("R13.1 injection cases", n_cases, 100)


# ------------------------------------------------------------------ (2) Yee time offsets
def _yee_offsets():
    """Sample offsets forced by the curl staggering: E_c at +1/2 e_c, H_c at 1/2 (1 - e_c)."""
    E = {c: tuple(Fr(1, 2) if a == c else Fr(0) for a in range(3)) for c in range(3)}
    H = {c: tuple(Fr(0) if a == c else Fr(1, 2) for a in range(3)) for c in range(3)}
    return E, H


def _staggering_from_curl(ctx, tables):
    """The oracle table is not an assumption: every one-cell difference of curl_E (forward) places H_i half a cell
    along a from E_j, every one of curl_H (backward) places E_i half a cell *back* along a from H_j."""
    offE, offH = _yee_offsets()
    bad = []
    for (i, j, a), k in tables["E"].items():
        if k:  # forward difference of E_j along a feeds H_i
            want = tuple(offE[j][b] + (Fr(1, 2) if b == a else 0) for b in range(3))
            if offH[i] != want:
                bad.append(("curl_E", i, j, a))
    for (i, j, a), k in tables["H"].items():
        if k:  # backward difference of H_j along a feeds E_i
            want = tuple(offH[j][b] - (Fr(1, 2) if b == a else 0) for b in range(3))
            if offE[i] != want:
                bad.append(("curl_H", i, j, a))
    ctx.ob("R13.2", "yee-staggering-oracle", not bad, "the offset table used as oracle is the one the repo's curls force (12 difference terms)", bad[:3], "E_c: 1/2 e_c, H_c: 1/2 (1 - e_c)")


def _time_offsets(ctx):
    ix = ctx.index
    f = ix.function("fdtdx.core.grid.calculate_time_offset_yee")
    ctx.unit(f.where())
    offE, offH = _yee_offsets()
    n_cases = 0
    for axis, physical, via_material in itertools.product(range(3), (False, True), (False, True)):
        N = tuple(1 if a == axis else (2, 3, 2)[a] for a in range(3))
        it = ctx.fresh_interp()
        it.ext_overrides["np.arange"] = lambda it_, a, k_: NdArr((int(to_rat(a[0]).const_value()),), [Rat.const(i) for i in range(int(to_rat(a[0]).const_value()))])
        k = NdArr((3,), [Rat.atom(f"k{a}") for a in range(3)])
        ie = NdArr((1,) + N, [Rat.atom(("ie",) + p) for p in itertools.product(*[range(n) for n in N])])
        kw = {}
        if physical:
            edges = tuple(NdArr((N[a] + 1,), [Rat.atom((f"e{a}", i)) for i in range(N[a] + 1)]) for a in range(3))
            ctr = [Rat.atom(f"ctr{a}") for a in range(3)]
            kw.update(coordinate_edges=edges, center_physical=NdArr((3,), list(ctr)))
            edge = lambda a, i: Rat.atom((f"e{a}", i))
        else:
            res = Rat.atom("res")
            tr = [a for a in range(3) if a != axis]
            ctr = [Rat.const(0)] * 3
            ctr[tr[0]] = Rat.atom("c0") * res
            ctr[tr[1]] = Rat.atom("c1") * res
            edge = lambda a, i: res * i
        if not via_material:
            kw["effective_index"] = Rat.atom("neff")
        center = NdArr((2,), [Rat.atom("c0"), Rat.atom("c1")])
        label = f"calculate_time_offset_yee[axis{axis},{'edges' if physical else 'uniform'},{'material velocity' if via_material else 'effective index'}]"
        try:
            tE, tH = it.call(it.closure_of(f), [center, k, ie, Fr(7, 5), Rat.atom("res"), Rat.atom("dt")], kw)
        except Raised as r:
            raise AnalysisError(f"{label} raises: {r}")
        bad = None
        for nm, got_arr, off in (("E", tE, offE), ("H", tH, offH)):
            if not (isinstance(got_arr, NdArr) and got_arr.shape == (3,) + N):
                bad = bad or (nm, f"shape {getattr(got_arr, 'shape', got_arr)}", (3,) + N)
                continue
            for c in range(3):
                for p in itertools.product(*[range(n) for n in N]):
                    dist = Rat.const(0)
                    for a in range(3):
                        lo, hi = edge(a, p[a]), edge(a, p[a] + 1)
                        pos = lo + (hi - lo) * off[c][a]
                        dist = dist + (pos - ctr[a]) * Rat.atom(f"k{a}")
                    if via_material:
                        v = Rat.const(C0) * apply_fn("sqrt", Rat.atom(("ie",) + p) * Fr(7, 5))
                    else:
                        v = Rat.const(C0) / Rat.atom("neff")
                    want = -dist / (v * Rat.atom("dt"))
                    flat = ((c * N[0] + p[0]) * N[1] + p[1]) * N[2] + p[2]
                    got = to_rat(got_arr.data[flat])
                    if not normalise_sqrt(got - want).is_zero():
                        bad = bad or (f"{nm}{c}@{p}", got.fmt()[:240], want.fmt()[:240])
        n_cases += 1
        ctx.ob("R13.2", label, bad is None, "component c at cell p is delayed by -(x_c(p) - centre) . k / (v dt), x_c = cell edge + Yee offset * cell width (E_c: 1/2 along c; H_c: 1/2 along the other two axes), v = c0/n" + (f" — differs at {bad[0]}" if bad else ""), bad[1] if bad else f"{2 * 3 * N[0] * N[1] * N[2]} entries", bad[2] if bad else "Yee sample positions")
    ctx.require_count("R13.2 time-offset cases", n_cases, 12)


# ------------------------------------------------------------------ (3) handedness, impedance
def _cross(a, b):
    return [a[1] * b[2] - a[2] * b[1], a[2] * b[0] - a[0] * b[2], a[0] * b[1] - a[1] * b[0]]


def _vec3(v, what):
    if not (isinstance(v, NdArr) and v.shape == (3,)):
        raise AnalysisError(f"{what}: expected a 3-vector, got {v!r}")
    return [to_rat(x) for x in v.data]


def _handedness(ctx):
    ix = ctx.index
    f = ix.function("fdtdx.core.misc.normalize_polarization_for_source")
    g = ix.function("fdtdx.core.misc.tilted_polarization_vectors")
    ctx.unit(f.where())
    ctx.unit(g.where())
    n = 0
    for axis, direction, given in itertools.product(range(3), "+-", "EH"):
        pol = tuple(Rat.const(0) if a == axis else Rat.atom(f"p{a}") for a in range(3))
        kw = {("fixed_E_polarization_vector" if given == "E" else "fixed_H_polarization_vector"): pol}
        khat = [Rat.const((1 if direction == "+" else -1) if a == axis else 0) for a in range(3)]
        # untilted
        it = ctx.fresh_interp()
        try:
            e, h = it.call(it.closure_of(f), [direction, axis], dict(kw))
        except Raised as r:
            raise AnalysisError(f"normalize_polarization_for_source raises: {r}")
        e, h = _vec3(e, "e_pol"), _vec3(h, "h_pol")
        ee = e[0] * e[0] + e[1] * e[1] + e[2] * e[2]
        S = _cross(e, h)
        bad = [a for a in range(3) if not normalise_sqrt(S[a] - khat[a] * ee).is_zero()]
        unit = normalise_sqrt(ee - 1).is_zero()
        n += 1
        ctx.ob("R13.3", f"normalize_polarization_for_source[axis{axis},dir{direction},{given} given]", not bad and unit, "E x H = k with k = +-e_n for the declared direction (right-handed plane wave), unit polarisation", [S[a].fmt()[:120] for a in bad] or "E x H = k", [khat[a].fmt() for a in range(3)])
        # tilted: cos = (1-u^2)/(1+u^2), sin = 2u/(1+u^2) covers every angle but pi
        for tilt in ("none", "azimuth", "elevation"):
            it = ctx.fresh_interp()
            half = {}

            def _cs(which):
                def fn(it_, a, k_):
                    x = to_rat(a[0])
                    if x.is_zero():
                        return Rat.const(1 if which == "cos" else 0)
                    u = half.setdefault(x.key(), Rat.atom(("tanhalf", x.fmt())))
                    return ((1 - u * u) / (1 + u * u)) if which == "cos" else (2 * u / (1 + u * u))

                return fn

            it.ext_overrides["np.zeros"] = lambda it_, a, k_: NdArr((int(a[0]),), [Rat.const(0)] * int(a[0]))
            it.ext_overrides["np.cos"] = _cs("cos")
            it.ext_overrides["np.sin"] = _cs("sin")
            ang = dict(azimuth_radians=Rat.atom("az") if tilt == "azimuth" else Fr(0), elevation_radians=Rat.atom("el") if tilt == "elevation" else Fr(0))
            try:
                e, h, kv = it.call(it.closure_of(g), [direction, axis], dict(kw, **ang))
            except Raised as r:
                raise AnalysisError(f"tilted_polarization_vectors raises: {r}")
            e, h, kv = _vec3(e, "e_pol"), _vec3(h, "h_pol"), _vec3(kv, "wave_vector")
            ee = e[0] * e[0] + e[1] * e[1] + e[2] * e[2]
            S = _cross(e, h)
            bad = [a for a in range(3) if not normalise_sqrt(S[a] - kv[a] * ee).is_zero()]
            kk = normalise_sqrt(kv[0] * kv[0] + kv[1] * kv[1] + kv[2] * kv[2] - 1).is_zero()
            kdir = True
            if tilt == "none":  # at zero tilt the wave vector is the declared direction
                kdir = all(normalise_sqrt(kv[a] - khat[a]).is_zero() for a in range(3))
            n += 1
            ctx.ob("R13.3", f"tilted_polarization_vectors[axis{axis},dir{direction},{given} given,tilt:{tilt}]", not bad and kk and kdir, "E x H = k |E|^2 with |k| = 1 (for every angle of a single-axis tilt), and k = +-e_n at zero tilt", ([S[a].fmt()[:120] for a in bad] or ("|k| != 1" if not kk else "k(0) != declared direction" if not kdir else "E x H = k")), "right-handed triple along the declared direction")
    ctx.require_count("R13.3 handedness cases", n, 48)
    # impedance
    imp = ix.function("fdtdx.objects.sources.tfsf._source_impedance")
    ctx.unit(imp.where())
    it = ctx.fresh_interp()
    ie = NdArr((3, 1, 1, 1), [Rat.atom(f"ie{c}") for c in range(3)])
    im = NdArr((3, 1, 1, 1), [Rat.atom(f"im{c}") for c in range(3)])
    pol = NdArr((3,), [Rat.atom(f"q{c}") for c in range(3)])
    bad = []
    for mu, label in ((im, "array mu"), (Fr(7, 5), "float mu")):
        z = it.call(it.closure_of(imp), [ie, mu, pol, pol], {})
        for c in range(3):
            m = Rat.atom(f"im{c}") if mu is im else Rat.const(Fr(7, 5))
            got = to_rat(z.data[c]) if isinstance(z, NdArr) else to_rat(z)
            if not normalise_sqrt(got * got - Rat.atom(f"ie{c}") / m).is_zero():
                bad.append((label, c, got.fmt()[:120]))
    ctx.ob("R13.3", "fdtdx.objects.sources.tfsf._source_impedance[diagonal]", not bad, "impedance^2 = inv_eps / inv_mu (= mu / eps) component-wise", bad[:2], "sqrt(inv_eps/inv_mu)")


# ------------------------------------------------------------------ (4) wiring
def _lin(node, names):
    """Evaluate `name (+|-) const` forms: returns (uses_time_name, offset) or None."""
    if isinstance(node, ast.Name) and node.id in names:
        return Fr(0)
    if isinstance(node, ast.BinOp) and isinstance(node.op, (ast.Add, ast.Sub)):
        sg = 1 if isinstance(node.op, ast.Add) else -1
        if isinstance(node.right, ast.Constant) and isinstance(node.right.value, (int, float)):
            base = _lin(node.left, names)
            return None if base is None else base + sg * Fr(node.right.value).limit_denominator(1000)
        if isinstance(node.left, ast.Constant) and isinstance(node.left.value, (int, float)) and sg == 1:
            base = _lin(node.right, names)
            return None if base is None else base + Fr(node.left.value).limit_denominator(1000)
    return None


def _half_step(ctx):
    ix = ctx.index
    sites = {}
    for fname in ("update_E", "update_H", "update_E_reverse", "update_H_reverse"):
        fi = ix.function(f"fdtdx.fdtd.update.{fname}")
        ctx.unit(fi.where())
        for c in ast.walk(fi.node):
            if isinstance(c, ast.Call) and isinstance(c.func, ast.Attribute) and c.func.attr in ("update_E", "update_H") and isinstance(c.func.value, ast.Name) and c.func.value.id == "source":
                t = next((kw.value for kw in c.keywords if kw.arg == "time_step"), None)
                off = _lin(t, {"time_step", "adj_time_step"}) if t is not None else None
                sites.setdefault((fname.endswith("reverse"), c.func.attr[-1]), []).append((fname, ast.unparse(t) if t is not None else None, off))
    n = 0
    for rev in (False, True):
        E, H = sites.get((rev, "E"), []), sites.get((rev, "H"), [])
        n += len(E) + len(H)
        offsE = {s[2] for s in E}
        offsH = {s[2] for s in H}
        ok = bool(E) and bool(H) and None not in offsE | offsH and len(offsE) == 1 and len(offsH) == 1 and (next(iter(offsH)) - next(iter(offsE))) == Fr(1, 2)
        ctx.ob("R13.4", f"fdtd.update:{'reverse' if rev else 'forward'}-source-times", ok, "every source.update_H call is evaluated exactly half a step after the source.update_E calls (leapfrog: incident E sampled at t + 1/2 where incident H is sampled at t)", {"E": sorted({s[1] for s in E if s[1]}), "H": sorted({s[1] for s in H if s[1]})}, "t_H - t_E = 1/2")
    ctx.require_count("R13.4 source call sites", n, 8)


def _names(node):
    return {x.id for x in ast.walk(node) if isinstance(x, ast.Name)}


def _apply_wiring(ctx):
    """Def-use wiring of LinearlyPolarizedPlaneSource.apply with every variable name read off the code itself: the
    polarisation triple from the tuple that receives tilted_polarization_vectors(...), the field names from what is
    stored under "_E" / "_H", the impedance from the receiver of _source_impedance(...)."""
    ix = ctx.index
    m = ix.cls("fdtdx.objects.sources.linear_polarization.LinearlyPolarizedPlaneSource").lookup_method("apply")
    ctx.unit(m.where())
    defs, calls, order = {}, [], {}
    for i, st in enumerate(ast.walk(m.node)):
        if isinstance(st, ast.Assign) and len(st.targets) == 1:
            tg = st.targets[0]
            for el in ([tg] if isinstance(tg, ast.Name) else tg.elts if isinstance(tg, ast.Tuple) else []):
                if isinstance(el, ast.Name):
                    defs.setdefault(el.id, []).append((st.lineno, st.value, st))
        if isinstance(st, ast.AugAssign) and isinstance(st.target, ast.Name):  # X /= y  ==  X = X / y
            defs.setdefault(st.target.id, []).append((st.lineno, ast.BinOp(left=ast.Name(id=st.target.id, ctx=ast.Load()), op=st.op, right=st.value), st))
        if isinstance(st, ast.Call):
            calls.append(st)
    for k in defs:
        defs[k].sort(key=lambda d: d[0])

    def tuple_targets(fn_name, n):
        for name, ds in defs.items():
            for _, v, st in ds:
                if isinstance(v, ast.Call) and ast.unparse(v.func).split(".")[-1] == fn_name and isinstance(st.targets[0], ast.Tuple) and len(st.targets[0].elts) == n:
                    return [getattr(e, "id", None) for e in st.targets[0].elts], v
        return None, None

    triple, tcall = tuple_targets("tilted_polarization_vectors", 3)
    ok = triple is not None and all(triple) and all(len(defs.get(nm, [])) == 1 for nm in triple)
    kws = {kw.arg: ast.unparse(kw.value) for kw in tcall.keywords} if tcall is not None else {}
    dir_ok = kws.get("direction") == "self.direction" and kws.get("propagation_axis") == "self.propagation_axis" and kws.get("fixed_E_polarization_vector") == "self.fixed_E_polarization_vector" and kws.get("fixed_H_polarization_vector") == "self.fixed_H_polarization_vector"
    ctx.ob("R13.5", "LinearlyPolarizedPlaneSource.apply:polarisation-triple", ok and dir_ok, "the polarisation pair and the wave vector are bound once, as one triple, from tilted_polarization_vectors(direction=self.direction, propagation_axis=self.propagation_axis, fixed E / H from self)", {"triple": triple, "arguments": dir_ok}, True)
    if not ok:
        return
    e_pol, h_pol, kvec = triple
    stored = {}
    for c in calls:
        if isinstance(c.func, ast.Attribute) and c.func.attr == "aset" and c.args and isinstance(c.args[0], ast.Constant) and len(c.args) > 1 and isinstance(c.args[1], ast.Name):
            stored[c.args[0].value] = c.args[1].id
    nE, nH, ntE, ntH = (stored.get(k) for k in ("_E", "_H", "_time_offset_E", "_time_offset_H"))
    first = lambda nm: defs.get(nm, [(None, None, None)])[0][1]
    fE, fH = first(nE), first(nH)
    okE = fE is not None and e_pol in _names(fE) and h_pol not in _names(fE)
    okH = fH is not None and h_pol in _names(fH) and e_pol not in _names(fH)
    amp = (_names(fE) & _names(fH)) - {e_pol, h_pol} if okE and okH else set()
    ctx.ob("R13.5", "LinearlyPolarizedPlaneSource.apply:E/H-profiles", okE and okH and bool(amp), "what is stored as the incident E is (a common amplitude) x the E polarisation, what is stored as the incident H the same amplitude x the H polarisation", {"E": ast.unparse(fE) if fE is not None else None, "H": ast.unparse(fH) if fH is not None else None}, "amplitude * pol")
    z = next((nm for nm, ds in defs.items() if len(ds) == 1 and isinstance(ds[0][1], ast.Call) and ast.unparse(ds[0][1].func).split(".")[-1] == "_source_impedance"), None)
    Hdefs = [d[1] for d in defs.get(nH, [])]
    div = [d for d in Hdefs if isinstance(d, ast.BinOp) and isinstance(d.op, ast.Div) and isinstance(d.left, ast.Name) and d.left.id == nH and isinstance(d.right, ast.Name) and d.right.id == z]
    mult = [d for d in Hdefs if isinstance(d, ast.BinOp) and not isinstance(d.op, ast.Div) and z in _names(d)]
    Edefs_z = [d[1] for d in defs.get(nE, []) if z in _names(d[1])]
    ctx.ob("R13.5", "LinearlyPolarizedPlaneSource.apply:impedance", z is not None and len(div) == 1 and not mult and not Edefs_z, "the incident H (and only H) is divided, once, by _source_impedance(...), so E/H equals the medium's wave impedance", [ast.unparse(d) for d in Hdefs], "H = H / impedance")
    toff_names, toff_call = tuple_targets("calculate_time_offset_yee", 2)
    ok = toff_call is not None
    if ok:
        kws = {kw.arg: ast.unparse(kw.value) for kw in toff_call.keywords}
        tsd = kws.get("time_step_duration", "")
        tsd_src = tsd if "time_step_duration" in tsd else " ".join(ast.unparse(d[1]) for d in defs.get(tsd, []))  # directly, or through a local name
        ok = kws.get("wave_vector") == kvec and "time_step_duration" in tsd_src
    ctx.ob("R13.5", "LinearlyPolarizedPlaneSource.apply:time-offsets", ok and toff_names == [ntE, ntH] and None not in (ntE, ntH), "the Yee time offsets are computed with the same wave vector as the polarisation pair and stored E with E, H with H", {"call": ok, "computed": toff_names, "stored": [ntE, ntH]}, "same wave vector; (E, H) order kept")


def run(ctx):
    tables = _curl_tables(ctx)
    _injection(ctx, tables)
    _staggering_from_curl(ctx, tables)
    _time_offsets(ctx)
    _handedness(ctx)
    _half_step(ctx)
    _apply_wiring(ctx)
    ctx.require_count("C13", len(ctx.obligations), 140)
    ctx.trusted_base += [
        "update normal forms E' = E + c inv_eps curl_H, H' = H - c inv_mu curl_E (decided by C01)",
        "opaque temporal profile amp(time, phase); jnp.interp as an opaque table lookup",
        "cos / sin replaced by the rational half-angle parametrisation (all angles but pi)",
        "syntax-tree def-use in LinearlyPolarizedPlaneSource.apply",
    ]
    ctx.assume("the '+' plane holds scattered E and total H at the plane cell (the convention the time offsets encode: E at the plane edge, H half a cell in front)")
