"""C14 — on/off schedules decide exactly when sources inject and detectors record."""

from __future__ import annotations

import itertools
import math
from fractions import Fraction as Fr

from ..arrays import SymVec
from ..harness import RecState, Written, open_obj, stub_repo_calls
from ..index import AnalysisError
from ..kernel import clean
from ..ndarr import NdArr
from ..poly import Rat
from ..scene import vec
from ..values import Builtin, Obj, Raised, SymBool, Unknown, sb_and, to_rat

LEVEL = "other"
EXPLANATION = (
    "Decides the schedule code by abstract interpretation.  (1) is_on_at_time_step: all 2^6 None-patterns of the "
    "optional start / end / duration parameters x period present or absent, with symbolic parameter values and a "
    "symbolic time: a pattern raises exactly when the window is over- or ambiguously specified or a period is "
    "missing, and otherwise the returned predicate is the closed-interval test start <= t*dt <= end with start = "
    "start_time | start_after_periods*period | end - duration | 0 and end = end_time | end_after_periods*period | "
    "start + duration | infinity (a duration alone starts at 0); always-off is never on.  (2) calculate_on_list: "
    "fixed step lists mark exactly the listed steps, otherwise on and (t % interval == 0); the index map numbers "
    "the active steps 0,1,2,... in chronological order and marks inactive steps -1; is_default_always_on is "
    "falsified by every single declared field (exhaustive over the class table).  (3) Solver gating: in one "
    "forward and one backward step the term of a scheduled source appears only multiplied by the indicator of its "
    "own is_on_at_time_step(t) (same t for the E and the H half step), an always-on source is not gated; "
    "update_detector_states keeps the previous state of an inactive detector and passes the current step to an "
    "active one.  (4) Every time-domain detector update writes only row _time_step_to_arr_idx[step] of each state "
    "entry (all layouts); init_state allocates sum(on_list) rows; Detector.place_on_grid builds the same "
    "chronological index map.  Runs of the time loop are not decided."
)

SW = "fdtdx.core.switch"
NAMES = ("start_time", "start_after_periods", "end_time", "end_after_periods", "on_for_time", "on_for_periods")


def _window_oracle(given: dict, period):
    """-> ('raise',) or ('ok', start Rat, end Rat|inf)"""
    S, SP, E, EP, F, FP = (given.get(n) for n in NAMES)
    if any(x is not None for x in (SP, EP, FP)) and period is None:
        return ("raise",)
    if F is not None and FP is not None:
        return ("raise",)
    dur = F if F is not None else (FP * period if FP is not None else None)
    starts = [x for x in (S, SP * period if SP is not None else None) if x is not None]
    ends = [x for x in (E, EP * period if EP is not None else None) if x is not None]
    if len(starts) > 1 or len(ends) > 1:
        return ("raise",)
    if dur is not None and starts and ends:
        return ("raise",)
    if dur is not None:
        if ends and not starts:
            return ("ok", ends[0] - dur, ends[0])
        st = starts[0] if starts else Rat.const(0)
        return ("ok", st, st + dur)
    return ("ok", starts[0] if starts else Rat.const(0), ends[0] if ends else math.inf)


def _window_rules(ctx):
    ix = ctx.index
    f = ix.function(f"{SW}.is_on_at_time_step")
    ctx.unit(f.where())
    t, dt = Rat.atom("t"), Rat.atom("dt")
    n = 0
    bad = []
    for mask, has_period in itertools.product(range(64), (True, False)):
        given = {nm: Rat.atom(nm) for i, nm in enumerate(NAMES) if mask >> i & 1}
        period = Rat.atom("P") if has_period else None
        it = ctx.fresh_interp()
        kw = {nm: given.get(nm) for nm in NAMES}
        try:
            res = it.call(it.closure_of(f), [], dict(is_always_off=False, time_step=t, time_step_duration=dt, period=period, **kw))
            got = ("ok", res)
        except Raised:
            got = ("raise",)
        want = _window_oracle(given, period)
        n += 1
        if want[0] == "raise" or got[0] == "raise":
            if want[0] != got[0]:
                bad.append((sorted(given), has_period, got[0], want[0]))
            continue
        lo = it.compare("le", want[1], t * dt)
        hi = True if want[2] is math.inf else it.compare("le", t * dt, want[2])
        exp = sb_and(lo, hi)
        same = (isinstance(res, SymBool) and isinstance(exp, SymBool) and res.fullkey() == exp.fullkey()) or (isinstance(res, bool) and res == exp)
        if not same:
            bad.append((sorted(given), has_period, repr(res)[:160], repr(exp)[:160]))
    ctx.ob("R14.1", f"{SW}.is_on_at_time_step:windows", not bad and n == 128, "all 128 None-patterns (6 optional parameters x period given or not): raises exactly on ambiguous / over-specified / period-less windows, otherwise start <= t*dt <= end with the documented start and end (a bare duration starts at 0)", bad[:3], "window oracle")
    it = ctx.fresh_interp()
    res = it.call(it.closure_of(f), [], dict(is_always_off=True, time_step=t, time_step_duration=dt, period=None, **{nm: None for nm in NAMES}))
    ctx.ob("R14.1", f"{SW}.is_on_at_time_step:always-off", res is False, "an always-off switch is never on", res, False)
    # the method and the module-level helper forward every field under its own name
    O = ix.cls(f"{SW}.OnOffSwitch")
    for callee, call in (("OnOffSwitch.is_on_at_time_step", lambda it_, sw: it_.call_method(sw, "is_on_at_time_step", time_step=t, time_step_duration=dt)), ("is_on_at_time_step_from_switch", lambda it_, sw: it_.call_function(f"{SW}.is_on_at_time_step_from_switch", t, dt, sw))):
        it = ctx.fresh_interp()
        seen = {}
        stub_repo_calls(it, {f"{SW}.is_on_at_time_step": lambda it_, a, k, _s=seen: (_s.update(k), True)[1]})
        attrs = {nm: Rat.atom(nm) for nm in NAMES}
        attrs.update(period=Rat.atom("P"), is_always_off=Rat.atom("off"), fixed_on_time_steps=None, interval=1)
        call(it, Obj(O, attrs, "sw"))
        okf = all(to_rat(seen.get(nm)).equals(Rat.atom(nm)) for nm in NAMES) and to_rat(seen.get("period")).equals(Rat.atom("P")) and to_rat(seen.get("is_always_off")).equals(Rat.atom("off")) and to_rat(seen.get("time_step")).equals(t) and to_rat(seen.get("time_step_duration")).equals(dt)
        ctx.ob("R14.1", f"{SW}.{callee}:forwarding", okf, "each switch field reaches the parameter of the same name", {k: (to_rat(v).fmt() if v is not None else None) for k, v in seen.items()}, "identity wiring")


def _on_list_rules(ctx):
    ix = ctx.index
    O = ix.cls(f"{SW}.OnOffSwitch")
    ctx.unit(O.lookup_method("calculate_on_list").where())
    ctx.unit(O.lookup_method("calculate_time_step_to_on_arr_idx").where())
    N = 9
    base = {nm: None for nm in NAMES}
    base.update(period=None, fixed_on_time_steps=None, is_always_off=False, interval=1)
    cases = [
        ("window", dict(start_time=Fr(3, 2), end_time=Fr(6)), lambda t: Fr(3, 2) <= t <= 6),
        ("window+interval2", dict(start_time=Fr(1), end_time=Fr(7), interval=2), lambda t: 1 <= t <= 7 and t % 2 == 0),
        ("interval3", dict(interval=3), lambda t: t % 3 == 0),
        ("duration-only", dict(on_for_time=Fr(5, 2)), lambda t: t <= Fr(5, 2)),
        ("periods", dict(start_after_periods=Fr(1), on_for_periods=Fr(2), period=Fr(2)), lambda t: 2 <= t <= 6),
        ("fixed-list", dict(fixed_on_time_steps=[0, 3, 4, 8]), lambda t: t in (0, 3, 4, 8)),
        ("fixed-list-overrides-window", dict(fixed_on_time_steps=[7, 2], start_time=Fr(5)), lambda t: t in (2, 7)),
        ("always-off", dict(is_always_off=True), lambda t: False),
        ("empty-fixed-list", dict(fixed_on_time_steps=[]), lambda t: False),
        ("empty-fixed-list-overrides-window", dict(fixed_on_time_steps=[], start_time=Fr(2), end_time=Fr(5)), lambda t: False),
        ("default", dict(), lambda t: True),
    ]
    for tag, upd, oracle in cases:
        it = ctx.fresh_interp()
        sw = Obj(O, dict(base, **upd), "sw")
        on = it.call_method(sw, "calculate_on_list", num_total_time_steps=N, time_step_duration=Fr(1))
        want = [bool(oracle(t)) for t in range(N)]
        got = [bool(x) for x in on]
        ctx.ob("R14.2", f"OnOffSwitch.calculate_on_list[{tag}]", got == want, "active steps: the listed steps of a fixed list, else window and (t % interval == 0)", got, want)
        idx = it.call_method(sw, "calculate_time_step_to_on_arr_idx", num_total_time_steps=N, time_step_duration=Fr(1))
        k = 0
        wi = []
        for t in range(N):
            wi.append(k if want[t] else -1)
            k += want[t]
        ctx.ob("R14.2", f"OnOffSwitch.calculate_time_step_to_on_arr_idx[{tag}]", [int(x) for x in idx] == wi, "active steps are numbered 0,1,2,... in chronological order; inactive steps map to -1", list(idx), wi)
    # is_default_always_on: every declared field matters
    fields = [k for k, (c, (ann, val)) in O.all_fields().items() if ann is not None]
    ctx.require_count("R14.2 OnOffSwitch fields", len(fields), 10)
    it = ctx.fresh_interp()
    defaults = {k: it.field_default(O.lookup_field(k)[0], O.lookup_field(k)[1][1]) for k in fields}
    ok0 = it.getattr(Obj(O, dict(defaults), "sw"), "is_default_always_on") is True
    ctx.ob("R14.2", "OnOffSwitch.is_default_always_on[defaults]", ok0, "the default switch is recognised as always-on", ok0, True)
    bad = []
    for k in fields:
        d = defaults[k]
        other = True if isinstance(d, bool) else (2 if isinstance(d, int) else ([0] if k == "fixed_on_time_steps" else Fr(1)))
        if it.getattr(Obj(O, dict(defaults, **{k: other}), "sw"), "is_default_always_on") is not False:
            bad.append(k)
    ctx.ob("R14.2", "OnOffSwitch.is_default_always_on[each-field]", not bad, f"changing any single one of the {len(fields)} declared fields disables the always-on fast path", bad, "every field tested")


def _solver_gating(ctx):
    from .c08 import _build

    ix = ctx.index
    for which in ("forward", "backward"):
        it, cfg, objs, arrays, _ = _build(ctx, dict(eps_comps=3, mu_comps=3), sources=(("s_always", True), ("s_sched", False)))
        f = ix.function(f"fdtdx.fdtd.{which}.{which}")
        ctx.unit(f.where())
        kw = dict(state=(Rat.atom("t"), arrays), config=cfg, objects=objs, key=Rat.atom("key"), record_detectors=False)
        kw.update(dict(record_boundaries=False, simulate_boundaries=True) if which == "forward" else dict(reset_fields=False))
        s = it.call(it.closure_of(f), [], kw)
        flds = s[1].attrs["fields"]
        for F in ("E", "H"):
            arr = flds.attrs[F]
            bad = None
            on_keys = set()
            seenJ = {"s_always": 0, "s_sched": 0}
            for c in range(3):
                r = clean(arr.data[c])
                inds = [a for a in r.atoms() if isinstance(a, tuple) and a and a[0] == "ind" and isinstance(a[1], tuple) and a[1] and a[1][0] == "on"]
                for a in inds:
                    on_keys.add(a[1])
                off = r.subs({a: Rat.const(0) for a in inds})
                for a in off.atoms():
                    if isinstance(a, tuple) and a and a[0] == "J" and a[1] == "s_sched":
                        bad = bad or (c, "the scheduled source still contributes when its switch is off")
                for a in r.atoms():
                    if isinstance(a, tuple) and a and a[0] == "J":
                        seenJ[a[1]] += 1
                on = r.subs({a: Rat.const(1) for a in inds})
                if not any(isinstance(a, tuple) and a and a[0] == "J" and a[1] == "s_always" for a in off.atoms()) and any(isinstance(a, tuple) and a and a[0] == "J" and a[1] == "s_always" for a in on.atoms()):
                    bad = bad or (c, "the always-on source is gated by a switch")
            if any(k[1] != "s_sched" for k in on_keys):
                bad = bad or ("-", f"gating predicates of other objects appear: {sorted(on_keys)}")
            tkeys = {k[2] for k in on_keys}
            if seenJ["s_sched"] and tkeys not in ({"t"}, {"t - 1"}) :
                bad = bad or ("-", f"the switch is evaluated at {sorted(tkeys)}, expected the step being taken")
            if not seenJ["s_sched"] or not seenJ["s_always"]:
                bad = bad or ("-", f"a source does not reach the field: {seenJ}")
            ctx.ob("R14.3", f"{which}:{F}", bad is None, "a scheduled source's term is multiplied by the indicator of its own is_on_at_time_step at the step being taken and vanishes when off; an always-on source is not gated", bad, "gated exactly by its own switch")


def _detector_gating(ctx):
    ix = ctx.index
    f = ix.function("fdtdx.fdtd.update.update_detector_states")
    ctx.unit(f.where())
    from ..scene import Scene

    for inverse in (False, True):
        it = ctx.fresh_interp()
        sc = Scene(ix, it)
        D = ix.cls("fdtdx.objects.detectors.detector.Detector")
        calls = []

        def upd(it_, a, k, _c=calls):
            _c.append(k.get("time_step"))
            return {"rec": NdArr((1,), [Rat.atom(("new", to_rat(k.get("time_step")).fmt()))])}

        det = Obj(D, dict(name="det", inverse=inverse, exact_interpolation=False, _is_on_at_time_step_arr=SymVec("det_on", Rat.atom("T")), _grid_slice_tuple=((1, 3), (1, 3), (1, 3)), update=Builtin("update", upd)), "det")
        other = Obj(D, dict(name="other", inverse=not inverse, exact_interpolation=False, _is_on_at_time_step_arr=SymVec("other_on", Rat.atom("T")), _grid_slice_tuple=((1, 3), (1, 3), (1, 3)), update=Builtin("update", lambda it_, a, k: {"rec": NdArr((1,), [Rat.atom("WRONG")])})), "other")
        objs = sc.objects([det, other])
        arrays = sc.arrays(detector_states={"det": {"rec": NdArr((1,), [Rat.atom("old")])}, "other": {"rec": NdArr((1,), [Rat.atom("old_other")])}})  # one record row each
        stub_repo_calls(it, {"_check_updated_state_layout": lambda it_, a, k: None})
        out = it.call(it.closure_of(f), [], dict(time_step=Rat.atom("n"), arrays=arrays, objects=objs, config=sc.config(), H_prev=vec("Hp"), inverse=inverse))
        st = out.attrs["detector_states"]
        r = to_rat(st["det"]["rec"].data[0])
        inds = [a for a in r.atoms() if isinstance(a, tuple) and a and a[0] == "ind"]
        ok = len(inds) == 1 and r.subs({inds[0]: Rat.const(0)}).equals(Rat.atom("old")) and r.subs({inds[0]: Rat.const(1)}).equals(Rat.atom(("new", "n")))
        key_ok = len(inds) == 1 and "(idx,det_on,n)" in repr(inds[0]).replace(" ", "") and "other_on" not in repr(inds[0])
        ctx.ob("R14.4", f"update_detector_states[inverse={inverse}]:gate", ok and key_ok, "the detector's state is select(_is_on_at_time_step_arr[step], update(step, ...), previous state)", r.fmt()[:200], "ind*new + (1-ind)*old")
        ctx.ob("R14.4", f"update_detector_states[inverse={inverse}]:other-direction", to_rat(st["other"]["rec"].data[0]).equals(Rat.atom("old_other")), "detectors of the other time direction are left untouched", to_rat(st["other"]["rec"].data[0]).fmt(), "old_other")


def _never_on_detector(ctx):
    """a detector without record rows (always-off switch, empty schedule): the step neither raises nor touches it.  Under
    jax both branches of the per-detector cond are traced, so the update of such a detector must not be reached at
    all — writing into its zero-row buffer fails at trace time."""
    ix = ctx.index
    f = ix.function("fdtdx.fdtd.update.update_detector_states")
    from ..scene import Scene

    for inverse in (False, True):
        it = ctx.fresh_interp()
        sc = Scene(ix, it)
        D = ix.cls("fdtdx.objects.detectors.detector.Detector")
        reached = []

        def upd_empty(it_, a, k, _r=reached):
            _r.append("empty")
            raise Raised("IndexError", "index is out of bounds for axis 0 with size 0")

        def upd(it_, a, k, _r=reached):
            _r.append("live")
            return {"rec": NdArr((2,), [Rat.atom("new0"), Rat.atom("new1")])}

        common = dict(inverse=inverse, exact_interpolation=False, _grid_slice_tuple=((1, 3), (1, 3), (1, 3)))
        empty = Obj(D, dict(common, name="never_on", _is_on_at_time_step_arr=SymVec("never_on", Rat.atom("T")), _num_time_steps_on=0, num_time_steps_recorded=0, update=Builtin("update", upd_empty)), "never_on")
        live = Obj(D, dict(common, name="live", _is_on_at_time_step_arr=SymVec("live_on", Rat.atom("T")), _num_time_steps_on=2, num_time_steps_recorded=2, update=Builtin("update", upd)), "live")
        objs = sc.objects([empty, live])
        arrays = sc.arrays(detector_states={"never_on": {"rec": NdArr((0, 3), [])}, "live": {"rec": NdArr((2,), [Rat.atom("old0"), Rat.atom("old1")])}})
        stub_repo_calls(it, {"_check_updated_state_layout": lambda it_, a, k: None})
        raised = None
        try:
            out = it.call(it.closure_of(f), [], dict(time_step=Rat.atom("n"), arrays=arrays, objects=objs, config=sc.config(), H_prev=vec("Hp"), inverse=inverse))
        except Raised as r:
            raised, out = str(r), None
        kept = out is not None and isinstance(out.attrs["detector_states"]["never_on"]["rec"], NdArr) and out.attrs["detector_states"]["never_on"]["rec"].shape == (0, 3)
        ctx.ob("R14.5", f"update_detector_states[inverse={inverse}]:never-on-detector", raised is None and "empty" not in reached and "live" in reached and kept, "a detector whose state has no record rows is left out of the step (its update is not reached in either branch of the gate, nothing raises, its empty state is kept) while the other detectors are updated as usual", raised or dict(reached=reached, kept=kept), "not reached; state kept")


def _detector_rows(ctx):
    """every time-domain detector writes only row _time_step_to_arr_idx[step]"""
    ix = ctx.index
    E, H = vec("E"), vec("H")
    want_idx = Rat.atom(("idx", "t2idx", Rat.atom("n")))
    base = dict(
        _config=open_obj(None, "config", time_step_duration=Rat.atom("dt")), _time_step_to_arr_idx=SymVec("t2idx", Rat.atom("T")), name="det", dtype=Unknown("dtype"),
        grid_shape=(Rat.atom("Nx"), Rat.atom("Ny"), Rat.atom("Nz")), _cached_cell_volume_weights=Rat.atom("w"), _cached_face_area_weights=Rat.atom("area"),
    )
    cases = [
        ("fdtdx.objects.detectors.field.FieldDetector", dict(components=("Ex", "Hz"), reduce_volume=False)),
        ("fdtdx.objects.detectors.energy.EnergyDetector", dict(as_slices=False, reduce_volume=False)),
        ("fdtdx.objects.detectors.energy.EnergyDetector", dict(as_slices=True, reduce_volume=False, aggregate="mean", x_slice=None, y_slice=None, z_slice=None)),
        ("fdtdx.objects.detectors.poynting_flux.PoyntingFluxDetector", dict(direction="+", keep_all_components=True, reduce_volume=False, fixed_propagation_axis=0)),
        ("fdtdx.objects.detectors.poynting_flux.PoyntingFluxDetector", dict(direction="-", keep_all_components=False, reduce_volume=False, fixed_propagation_axis=2)),
    ]
    n = 0
    for q, extra in cases:
        ci = ix.cls(q)
        it = ctx.fresh_interp()
        from .. import ndarr as _nd

        # spatial means over symbolic dims are opaque here: only the written row matters
        it.ext_overrides["np.mean"] = lambda it_, a, k: a[0]
        det = Obj(ci, dict(base, **extra), ci.name)
        ctx.unit(ci.lookup_method("update").where())
        try:
            res = it.call_method(det, "update", time_step=Rat.atom("n"), E=E, H=H, state=RecState(), inv_permittivity=vec("ie"), inv_permeability=vec("im"))
        except Raised as r:
            raise AnalysisError(f"{ci.name}.update raises: {r}")
        for key, w in res.items():
            ok = isinstance(w, Written) and w.key == key and w.mode == "set" and not isinstance(w.idx, tuple) and to_rat(w.idx).equals(want_idx)
            n += 1
            ctx.ob("R14.4", f"{q}.update[{','.join(f'{k}={v}' for k, v in extra.items() if k in ('as_slices', 'keep_all_components'))}]:{key}", ok, "the state entry of the same name is written with .set at row _time_step_to_arr_idx[step] and nowhere else", repr(w)[:160] + (f" idx={to_rat(w.idx).fmt()}" if isinstance(w, Written) and not isinstance(w.idx, tuple) else ""), "state[key].at[t2idx[n]].set(...)")
    ctx.require_count("R14.4 detector state entries", n, 7)
    # allocation: one row per active step
    D = ix.cls("fdtdx.objects.detectors.detector.Detector")
    ctx.unit(D.lookup_method("init_state").where())
    it = ctx.fresh_interp()
    on = [True, False, True, True, False]
    made = {}
    it.ext_overrides["np.zeros"] = lambda it_, a, k: made.setdefault("shape", k.get("shape", a[0] if a else None))
    det = Obj(D, dict(switch=Obj(None, {"calculate_on_list": Builtin("on", lambda it_, a, k: list(on))}, "sw"), _config=open_obj(None, "config", time_steps_total=5, time_step_duration=Fr(1)), _shape_dtype_single_time_step=Builtin("sds", lambda it_, a, k: {"rec": Obj(None, {"shape": (2, 3), "dtype": Unknown("dtype")}, "sd")})), "det")
    it.call_method(det, "init_state")
    ctx.ob("R14.4", "Detector.init_state:rows", tuple(made.get("shape", ())) == (3, 2, 3), "the state holds exactly one row per active step", made.get("shape"), (3, 2, 3))
    # Detector.place_on_grid builds the same chronological index map
    ctx.unit(D.lookup_method("place_on_grid").where())
    for on in ([False, True, True, False, True], [True] * 4, [False] * 3, [False, False, True]):
        it = ctx.fresh_interp()
        cfg = open_obj(None, "config", time_steps_total=len(on), time_step_duration=Fr(1), resolved_grid=None, uniform_spacing=Builtin("us", lambda it_, a, k: Rat.atom("s")))
        det = Obj(D, dict(name="det", switch=Obj(None, {"calculate_on_list": Builtin("on", lambda it_, a, k, _on=on: list(_on))}, "sw"), _config=cfg, grid_shape=(2, 2, 2), dtype=Unknown("dtype"), _grid_slice_tuple=((0, 2), (0, 2), (0, 2))), "det")
        stub_repo_calls(it, {"fdtdx.objects.object.SimulationObject.place_on_grid": lambda it_, a, k: a[0]})
        try:
            r = it.call_method(det, "place_on_grid", grid_slice_tuple=((0, 2), (0, 2), (0, 2)), config=cfg, key=Rat.atom("key"))
        except Raised as e:
            raise AnalysisError(f"Detector.place_on_grid raises: {e}")
        idx = r.attrs.get("_time_step_to_arr_idx")
        k, want = 0, []
        for v in on:
            want.append(k if v else -1)
            k += v
        got = [int(to_rat(x).const_value()) for x in idx.data] if isinstance(idx, NdArr) else None
        onarr = r.attrs.get("_is_on_at_time_step_arr")
        got_on = [bool(x) for x in onarr.data] if isinstance(onarr, NdArr) else None
        ok = got == want and got_on == on and r.attrs.get("_num_time_steps_on") == sum(on)
        ctx.ob("R14.4", f"Detector.place_on_grid:index-map{on}", ok, "active steps are numbered chronologically (inactive -1), the on-array is the on-list, the row count is its sum", (got, got_on, r.attrs.get("_num_time_steps_on")), (want, on, sum(on)))


def run(ctx):
    _window_rules(ctx)
    _on_list_rules(ctx)
    _solver_gating(ctx)
    _detector_gating(ctx)
    _never_on_detector(ctx)
    _detector_rows(ctx)
    ctx.require_count("C14", len(ctx.obligations), 35)
    ctx.trusted_base += ["canonical keys of comparison predicates (sa/absint.py rat_compare)", "abstract source model of C02 (switch predicate and time map opaque)", "recording detector state (sa/harness.py RecState)"]
