"""C28 — static materials are painted by placement order."""

from __future__ import annotations

import ast
import math
from fractions import Fraction as Fr

from .. import absint
from ..absint import StopAfter
from ..harness import mk_material, stub_repo_calls
from ..index import AnalysisError
from ..ndarr import NdArr, at_update
from ..poly import Rat
from ..scene import SP, Scene
from ..values import Builtin, Obj, Raised, Unknown, to_rat

LEVEL = "other"
EXPLANATION = (
    "Decides the assembly of the static material arrays by abstract interpretation of _init_arrays up to the end "
    "of its placement loop, on scenes of uniform-material boxes with symbolic (arbitrarily overlapping) grid "
    "slices, concrete placement orders incl. ties and out-of-order listing, and concrete rational material "
    "tensors of every tier (isotropic, diagonal, full 3x3; lossless / electrically / magnetically conductive; "
    "magnetic / non-magnetic).  Materials are built through Material.__init__ and the tier flags are computed by "
    "the repo's own ObjectContainer / Material predicates.  Extracted per array: the component count and, per "
    "component, the cell value as a polynomial in the region indicators of the boxes; oracle: paint the boxes in "
    "ascending placement order, list order breaking ties, volume first, with the value 1/eps, 1/mu (matrix "
    "inverse in the 9-component tier) or sigma*c*dt/courant of each object's own tensor, component count = widest "
    "tier any material needs, scalar 1 for a non-magnetic scene, no conductivity array for a lossless scene.  "
    "Indicator algebra makes the comparison exact for every overlap pattern at once.  Shaped (multi-material) objects: "
    "get_material_mapping of every single-material shape over all dictionary insertion orders (R28.8) and the "
    "placement loop's multi-material branch on a two-cell object with symbolic mask fractions (R28.9).  Not decided: "
    "the voxel masks themselves (C43) and sub-pixel smoothing."
)

INIT = "fdtdx.fdtd.initialization"
C0 = 299792458


def _T(diag=None, full=None, iso=None):
    """3x3 tensor as a 9-tuple of Fractions"""
    if iso is not None:
        return (Fr(iso), 0, 0, 0, Fr(iso), 0, 0, 0, Fr(iso))
    if diag is not None:
        return (Fr(diag[0]), 0, 0, 0, Fr(diag[1]), 0, 0, 0, Fr(diag[2]))
    return tuple(Fr(x) for x in full)


ZERO = _T(iso=0)
ONE = _T(iso=1)


def _tier(ts):
    """widest tier needed by a list of tensors: 1, 3 or 9"""
    t = 1
    for x in ts:
        off = any(x[i] != 0 for i in (1, 2, 3, 5, 6, 7))
        if off:
            return 9
        if not (x[0] == x[4] == x[8]):
            t = max(t, 3)
    return t


def _inv3(m):
    a, b, c, d, e, f, g, h, i = m
    det = a * (e * i - f * h) - b * (d * i - f * g) + c * (d * h - e * g)
    adj = (e * i - f * h, c * h - b * i, b * f - c * e, f * g - d * i, a * i - c * g, c * d - a * f, d * h - e * g, b * g - a * h, a * e - b * d)
    return tuple(x / det for x in adj)


def _components(t, tier, invert):
    if tier == 1:
        v = (t[0],)
    elif tier == 3:
        v = (t[0], t[4], t[8])
    else:
        return _inv3(t) if invert else tuple(t)
    return tuple(1 / x for x in v) if invert else v


def _linalg_inv(it, a, k):
    m = a[0]
    if not (isinstance(m, NdArr) and m.shape == (3, 3) and not m.sp):
        raise AnalysisError(f"linalg.inv of {m!r}")
    vals = [to_rat(x) for x in m.data]
    if all(v.is_const() for v in vals):
        return NdArr((3, 3), list(_inv3([v.const_value() for v in vals])))
    raise AnalysisError("linalg.inv of a symbolic matrix")


# scenes: (label, [(name, order, eps, mu, sigma_e, sigma_m)]) — the volume is always first in the list
def _scenes():
    D = lambda *d: _T(diag=d)
    F = lambda *f: _T(full=f)
    I = lambda x: _T(iso=x)
    full1 = F(2, Fr(1, 2), 0, Fr(1, 2), 3, 0, 0, 0, 4)
    full2 = F(3, 0, Fr(1, 3), 0, 2, 0, Fr(1, 3), 0, 5)
    full3 = F(1, 0, 0, 0, 2, Fr(1, 4), 0, Fr(1, 4), 3)
    sc = []
    sc.append(("iso:ties-and-order", [("A", 1, I(2), ONE, ZERO, ZERO), ("B", 0, I(3), ONE, ZERO, ZERO), ("C", 1, I(5), ONE, ZERO, ZERO), ("D", -5, I(7), ONE, ZERO, ZERO)]))
    sc.append(("lossless-over-lossy", [("A", 2, I(2), ONE, ZERO, ZERO), ("B", 1, D(3, 4, 5), ONE, I(Fr(1, 2)), ZERO), ("C", 1, I(6), ONE, I(2), ZERO)]))
    sc.append(("magnetic-lossless-over-lossy", [("A", 3, I(2), I(2), ZERO, ZERO), ("B", 1, I(3), D(2, 3, 4), ZERO, D(1, 2, 3)), ("C", 2, I(4), ONE, ZERO, I(5))]))
    # each property sees each tier while the other properties sit in different tiers
    sc.append(("tiers:eps1-mu3-se9-sm1", [("A", 0, I(2), D(2, 3, 4), full1, I(3)), ("B", 1, I(3), I(2), I(1), I(2))]))
    sc.append(("tiers:eps3-mu9-se1-sm3", [("A", 1, D(2, 3, 4), full2, I(2), D(1, 2, 3)), ("B", 0, I(5), D(1, 2, 2), I(3), ZERO)]))
    sc.append(("tiers:eps9-mu1-se3-sm9", [("A", 0, full1, I(3), D(1, 0, 2), full3), ("B", 0, D(2, 2, 3), I(2), ZERO, I(1))]))
    sc.append(("nonmagnetic-lossless", [("A", 0, D(2, 3, 4), ONE, ZERO, ZERO)]))
    sc.append(("volume-material", [("A", 5, I(2), ONE, ZERO, ZERO)], dict(vol=(I(Fr(9, 4)), I(Fr(3, 2)), I(Fr(1, 10)), ZERO))))
    return sc


def _gst(name):
    absint.INTEGER_ATOMS.update({f"{name}_{a}{s}" for a in "xyz" for s in ("min", "max")})
    return tuple((Rat.atom(f"{name}_{a}min"), Rat.atom(f"{name}_{a}max")) for a in "xyz")


def _scene_job(ctx, scene):
    label, objs = scene[0], scene[1]
    opts = scene[2] if len(scene) > 2 else {}
    ix = ctx.index
    it = ctx.fresh_interp()
    sc = Scene(ix, it)
    it.ext_handlers["np.linalg.inv"] = _linalg_inv
    U = ix.cls("fdtdx.objects.static_material.static.UniformMaterialObject")
    V = ix.cls("fdtdx.objects.static_material.static.SimulationVolume")
    vol_t = opts.get("vol", (ONE, ONE, ZERO, ZERO))

    def mat(eps, mu, se, sm):
        return mk_material(it, permittivity=eps, permeability=mu, electric_conductivity=se, magnetic_conductivity=sm)

    vdefault = V.lookup_field("placement_order")
    vorder = it.field_default(vdefault[0], vdefault[1][1]) if vdefault else None
    odef = ix.cls("fdtdx.objects.object.OrderableObject").lookup_field("placement_order")
    oorder = it.field_default(odef[0], odef[1][1]) if odef else None
    ctx.ob("R28.1", f"{label}:volume-order-default", isinstance(vorder, int) and isinstance(oorder, int) and vorder < oorder, "the volume's default placement order is below the default of every other object", (vorder, oorder), "volume default < object default")
    vol_gst = ((0, Rat.atom("Nx")), (0, Rat.atom("Ny")), (0, Rat.atom("Nz")))
    vol = Obj(V, dict(name="vol", placement_order=vorder, material=mat(*vol_t), _grid_slice_tuple=vol_gst, grid_shape=(Rat.atom("Nx"), Rat.atom("Ny"), Rat.atom("Nz"))), "vol")
    olist = [vol] + [Obj(U, dict(name=n, placement_order=o, material=mat(e, m, se, sm), _grid_slice_tuple=_gst(n)), n) for (n, o, e, m, se, sm) in objs]
    OC = ix.cls("fdtdx.fdtd.container.ObjectContainer")
    oc = Obj(OC, {"object_list": olist, "volume_idx": 0}, "objects")

    def csm(it_, a, k):
        shape = k.get("shape", a[0] if a else None)
        lead = tuple(int(x) for x in shape[:-3])
        val = k.get("value", 0)
        return NdArr(lead, [val] * math.prod(lead), SP)

    def sps(it_, a, k):
        arr, idx, val = a[0], a[1], a[2]
        return it_.call(it_.getattr(it_.getitem(it_.getattr(arr, "at"), idx), "set"), [val], {})

    stub_repo_calls(it, {"create_named_sharded_matrix": csm, "sharding_preserving_set": sps, "_warn_if_simulation_volume_too_large": lambda it_, a, k: None})
    cfg = sc.config(resolve_grid=Builtin("resolve_grid", lambda it_, a, k: Obj(None, {"shape": a[0]}, "grid")), use_complex_fields=None, dtype=Unknown("dtype"), backend="cpu", courant_number=Rat.atom("courant"))
    f = ix.function(f"{INIT}._init_arrays")
    ctx.unit(f.where())
    loops = [n for n in ast.walk(f.node) if isinstance(n, ast.For) and isinstance(n.iter, ast.Name) and n.iter.id == "sorted_obj"]
    if len(loops) != 1:
        # accept any single loop whose iterable is derived from static_material_objects
        loops = [n for n in ast.walk(f.node) if isinstance(n, ast.For) and "static_material_objects" in ast.unparse(n.iter)] or loops
    if len(loops) != 1:
        raise AnalysisError("cannot locate the placement loop over the static material objects in _init_arrays")
    it.stop_after.add(id(loops[0]))
    try:
        it.call(it.closure_of(f), [oc, cfg], {})
        raise AnalysisError("_init_arrays returned before the end of the placement loop")
    except StopAfter as s:
        env = s.env
    except Raised as r:
        raise AnalysisError(f"{label}: _init_arrays raises on the scene: {r}")
    # ------------------------------------------------------------------ oracle
    all_objs = [("vol", vorder) + tuple(vol_t)] + list(objs)
    order = sorted(range(len(all_objs)), key=lambda i: (all_objs[i][1], i))  # stable: list order breaks ties
    gsts = {"vol": vol_gst}
    gsts.update({n: _gst(n) for (n, *_r) in objs})
    spacing = Rat.const(C0) * Rat.atom("dt") / Rat.atom("courant")
    specs = [
        ("inv_permittivities", 2, True, None),
        ("inv_permeabilities", 3, True, "magnetic"),
        ("electric_conductivity", 4, False, "se"),
        ("magnetic_conductivity", 5, False, "sm"),
    ]
    for var, col, invert, optional in specs:
        found, got = env.lookup(var)
        if not found:
            raise AnalysisError(f"_init_arrays has no local {var} at the end of the placement loop")
        tensors = [o[col] for o in all_objs]
        tier = _tier(tensors)
        if optional == "magnetic" and all(t == ONE for t in tensors):
            ok = not isinstance(got, NdArr) and to_rat(got).equals(1)
            ctx.ob("R28.4", f"{label}:{var}:scalar", ok, "a non-magnetic scene stores the scalar permeability 1", got, 1)
            continue
        if optional in ("se", "sm") and all(t == ZERO for t in tensors):
            ctx.ob("R28.4", f"{label}:{var}:absent", got is None, "a lossless scene allocates no conductivity array", got, None)
            continue
        if not isinstance(got, NdArr):
            ctx.ob("R28.4", f"{label}:{var}:allocated", False, "array expected", got, f"{tier}-component array")
            continue
        ctx.ob("R28.4", f"{label}:{var}:components", got.shape == (tier,), "component count is the widest tier any material needs", got.shape, (tier,))
        if got.shape != (tier,):
            continue
        want = NdArr((tier,), [0] * tier, SP)
        for i in order:
            nm = all_objs[i][0]
            vals = _components(all_objs[i][col], tier, invert)
            if not invert:
                vals = tuple(spacing * v for v in vals)
            idx = (slice(None),) + tuple(slice(lo, hi) for lo, hi in gsts[nm])
            want = at_update(want, idx, "set", NdArr((tier, 1, 1, 1), list(vals)))
        bad = None
        for c in range(tier):
            g, w = to_rat(got.data[c]), to_rat(want.data[c])
            if not g.equals(w):
                bad = bad or (c, g.fmt()[:300], w.fmt()[:300])
        ctx.ob("R28.2", f"{label}:{var}:cells", bad is None, "every cell holds the value of the highest-order object covering it (list order breaks ties, volume lowest): 1/eps, 1/mu or sigma*c*dt/courant of that object's own tensor" + (f" — component {bad[0]} differs" if bad else ""), bad[1] if bad else f"{tier} components", bad[2] if bad else "painter's order")


def _predicate_names(ctx):
    """ObjectContainer.all_objects_<p> must consult Material.is_<p> (or its negation for non_<p>)."""
    ix = ctx.index
    OC = ix.cls("fdtdx.fdtd.container.ObjectContainer")
    M = ix.cls("fdtdx.materials.Material")
    n = 0
    for name, fi in sorted(OC.methods.items()):
        if not name.startswith("all_objects_") or not fi.is_property:
            continue
        p = name[len("all_objects_"):]
        attrs = sorted({a.attr for a in ast.walk(fi.node) if isinstance(a, ast.Attribute) and isinstance(a.value, ast.Name) and a.value.id == "m"})
        if not attrs:
            continue
        if p.startswith("non_"):
            want = ["is_" + p[len("non_"):].replace("magnetically", "magnetically").replace("electrically", "electrically")]
            want = [w for w in (want[0], "is_" + p[len("non_"):]) if M.lookup_method(w) is not None][:1] or want
            negated = any(isinstance(u, ast.UnaryOp) and isinstance(u.op, ast.Not) for u in ast.walk(fi.node))
        else:
            cands = ["is_" + p, "has_" + p]
            want = [w for w in cands if M.lookup_method(w) is not None][:1] or cands[:1]
            negated = False
        ok = attrs == want and (negated if p.startswith("non_") else not negated)
        n += 1
        ctx.ob("R28.5", f"{OC.qualname}.{name}", ok, "the container predicate consults the Material predicate of the same name (negated for non_*)", (attrs, "negated" if negated else "plain"), (want, "negated" if p.startswith("non_") else "plain"))
    ctx.require_count("R28.5 container predicates", n, 12)


def _inv_batch(it, a, k):
    """linalg.inv of a batch of 3x3 matrices of rational forms (adjugate / determinant)"""
    m = a[0]
    if not (isinstance(m, NdArr) and m.shape[-2:] == (3, 3) and not m.sp):
        raise AnalysisError(f"linalg.inv of {m!r}")
    out = []
    for b in range(len(m.data) // 9):
        out += list(_inv3([to_rat(x) for x in m.data[b * 9 : b * 9 + 9]]))
    return NdArr(m.shape, out)


def _sort_and_inverse(ctx):
    """(a) the painter's order is the placement order alone, list order breaking ties, whatever the kind of object;
    (b) _invert_property is the entry-wise reciprocal on the 1- and 3-component tiers and the matrix inverse (not its
    transpose) on the 9-component tier."""
    ix = ctx.index
    f = ix.function(f"{INIT}._init_arrays")
    stmt = None
    for st in f.node.body:
        if isinstance(st, ast.Assign) and isinstance(st.value, ast.Call) and getattr(st.value.func, "id", None) == "sorted" and "static_material_objects" in ast.unparse(st.value):
            stmt = st
    if stmt is None or not isinstance(stmt.targets[0], ast.Name):
        raise AnalysisError("_init_arrays: cannot locate the statement that sorts the static material objects")
    U = ix.cls("fdtdx.objects.static_material.static.UniformMaterialObject")
    M = ix.cls("fdtdx.objects.static_material.static.StaticMultiMaterialObject")
    kinds = [c for c in ix.subclasses(M) if c is not M][:1] or [M]
    S = kinds[0]
    lists = [
        [("ball", S, 0), ("box", U, 0)],
        [("box", U, 0), ("ball", S, 0)],
        [("ball", S, 1), ("box", U, 0), ("lid", U, 1), ("rod", S, 0)],
        [("a", U, 2), ("b", S, 2), ("c", U, -1), ("d", S, 2), ("e", U, 2)],
    ]
    bad = []
    for spec in lists:
        it = ctx.fresh_interp()
        objs = [Obj(cls, dict(name=n, placement_order=o), n) for n, cls, o in spec]
        env = absint.Env(parent=it.module_env(ix.module(INIT)), vars={"objects": Obj(None, {"static_material_objects": objs}, "objects")})
        try:
            it.exec_stmt(stmt, env)
        except Raised as r:
            raise AnalysisError(f"_init_arrays: the sorting statement raises: {r}")
        got = [o.attrs["name"] for o in env.lookup(stmt.targets[0].id)[1]]
        want = [n for n, _, _ in sorted(spec, key=lambda t: t[2])]
        if got != want:
            bad.append((got, want))
    ctx.ob("R28.6", "_init_arrays:painting-order", not bad, "objects are painted in ascending placement order and, within one order, in list order — uniform blocks and shaped multi-material objects alike (4 mixed lists)", bad[:2], "stable sort by placement_order")
    g = ix.function(f"{INIT}._invert_property")
    ctx.unit(g.where())
    for tier in (1, 3, 9):
        it = ctx.fresh_interp()
        it.ext_handlers["np.linalg.inv"] = _inv_batch
        arr = NdArr((tier, 1, 1, 1), [Rat.atom(("m", i)) for i in range(tier)])
        try:
            inv = it.call(it.closure_of(g), [arr], {})
        except Raised as r:
            raise AnalysisError(f"_invert_property raises on a {tier}-component array: {r}")
        ok = isinstance(inv, NdArr) and inv.shape == (tier, 1, 1, 1)
        detail = None
        if ok and tier < 9:
            ok = all((to_rat(v) * Rat.atom(("m", i))).equals(1) for i, v in enumerate(inv.data))
        elif ok:
            for i in range(3):
                for j in range(3):
                    p_ = sum((Rat.atom(("m", 3 * i + k_)) * to_rat(inv.data[3 * k_ + j]) for k_ in range(3)), Rat.const(0))
                    if not p_.equals(1 if i == j else 0):
                        ok = False
                        detail = detail or (f"(M inv)[{i}][{j}]", p_.fmt()[:160])
        ctx.ob("R28.7", f"_invert_property[{tier} components]", ok, "entry-wise reciprocal on the isotropic / diagonal tiers; on the full tier the row-major 3x3 matrix inverse of a general (non-symmetric) tensor: M inv(M) = 1", detail or getattr(inv, "shape", inv), "M inv = 1")


def _mock_mats(ix, eps, se=None, sm=None, mu=None):
    """name -> Material mock with concrete diagonal tensors (the fields the ordering and the tables read)."""
    M = ix.cls("fdtdx.materials.Material")

    def diag(v):
        return tuple(float(v) if i in (0, 4, 8) else 0.0 for i in range(9))

    return {nm: Obj(M, dict(permittivity=diag(eps[nm]), permeability=diag((mu or {}).get(nm, 1)), electric_conductivity=diag((se or {}).get(nm, 0)), magnetic_conductivity=diag((sm or {}).get(nm, 0)), dispersion=None), nm) for nm in eps}


def _material_mapping(ctx):
    """get_material_mapping of every single-material shape: every voxel carries the index of material_name in the
    common (property-sorted) material order the allowed-value tables use — not in the dictionary's own order."""
    import itertools

    ix = ctx.index
    S = ix.cls("fdtdx.objects.static_material.static.StaticMultiMaterialObject")
    classes = [c for c in ix.subclasses(S) if "get_material_mapping" in c.methods and c.lookup_field("material_name") is not None]
    ctx.require_count("R28.8 shapes with their own get_material_mapping", len(classes), 3)
    eps = {"abs": 2.0, "air": 1.0, "metal": 5.0}
    order = sorted(eps, key=eps.get)
    for ci in sorted(classes, key=lambda c: c.qualname):
        ctx.unit(ci.methods["get_material_mapping"].where())
        bad = []
        n = 0
        for names in itertools.permutations(eps):
            for chosen in names:
                it = ctx.fresh_interp()
                shp = lambda a, k: tuple(int(x) for x in (a[0] if a else k.get("shape")))
                it.ext_overrides["np.ones"] = lambda it_, a, k: NdArr(shp(a, k), [1] * math.prod(shp(a, k)))
                it.ext_overrides["np.full"] = lambda it_, a, k: NdArr(shp(a, k), [a[1] if len(a) > 1 else k.get("fill_value")] * math.prod(shp(a, k)))
                o = Obj(ci, dict(materials={nm: _mock_mats(ix, eps)[nm] for nm in names}, material_name=chosen, grid_shape=(2, 1, 2), name="shape"), "shape")
                try:
                    got = it.call_method(o, "get_material_mapping")
                except Raised as r:
                    raise AnalysisError(f"{ci.qualname}.get_material_mapping raises: {r}")
                n += 1
                want = order.index(chosen)
                ok = isinstance(got, NdArr) and got.shape == (2, 1, 2) and all(to_rat(v).equals(want) for v in got.data)
                if not ok:
                    bad.append((names, chosen, [to_rat(v).fmt() for v in got.data][:2] if isinstance(got, NdArr) else got, want))
        ctx.ob("R28.8", f"{ci.qualname}.get_material_mapping", not bad, f"every voxel of the object's grid shape holds the position of material_name in the property-sorted material order, for every insertion order of the dictionary ({n} scopes)", bad[:3], "sorted-order index")


_KINDS = ("permittivities", "permeabilities", "electric_conductivities", "magnetic_conductivities")


def _multi_material_branch(ctx):
    """The StaticMultiMaterialObject branch of the placement loop, interpreted on a two-cell object: each of the four
    arrays is moved, by the mask fraction, towards the value of the voxel's own material taken from the table of that
    array's own kind (inverse for eps / mu, grid-scaled for the conductivities); cells outside the object keep theirs."""
    import itertools

    ix = ctx.index
    f = ix.function(f"{INIT}._init_arrays")
    ctx.unit(f.where())
    branches = [n for n in ast.walk(f.node) if isinstance(n, ast.If) and "StaticMultiMaterialObject" in ast.unparse(n.test) and "isinstance" in ast.unparse(n.test)]
    if len(branches) != 1:
        raise AnalysisError(f"cannot locate the StaticMultiMaterialObject branch of _init_arrays ({len(branches)} candidates)")
    body = branches[0].body
    mi = ix.modules[INIT]
    names = ("m0", "m1", "m2")
    tab = {k: {nm: [Rat.atom((k, nm, c)) for c in range(3)] for nm in names} for k in _KINDS}

    def table(kind, ncomp):
        def h(it_, a, k):
            # three rows in the common order m0, m1, m2; one (isotropic) or three (diagonal) columns
            return [tuple(tab[kind][nm][:ncomp]) for nm in names]
        return h

    def sps(mode):
        def h(it_, a, k):
            arr, idx, val = a[0], a[1], a[2]
            return it_.call(it_.getattr(it_.getitem(it_.getattr(arr, "at"), idx), mode), [val], {})
        return h

    bad = []
    n = 0
    for ncomp, (magnetic, se_on, sm_on) in itertools.product((1, 3), ((True, True, True), (False, True, False), (True, False, True), (False, False, False))):
        it = ctx.fresh_interp()
        stubs = {f"compute_allowed_{k}": table(k, ncomp) for k in _KINDS}
        stubs.update({"sharding_preserving_set": sps("set"), "sharding_preserving_add": sps("add"), "_invert_property": lambda it_, a, k: a[0].map(lambda v: 1 / to_rat(v)) if isinstance(a[0], NdArr) else 1 / to_rat(a[0])})
        stub_repo_calls(it, stubs)
        shape = (3, 1, 1)  # the volume; the object covers cells 1..2 along x
        gsl = (slice(1, 3), slice(0, 1), slice(0, 1))
        mk = lambda nm: NdArr((ncomp,) + shape, [Rat.atom((nm, c, i)) for c in range(ncomp) for i in range(3)])
        idx = NdArr((2, 1, 1), [2, 0])
        mask = NdArr((2, 1, 1), [Rat.atom("f0"), Rat.atom("f1")])
        o = Obj(None, dict(name="ball", materials={"m2": "M2", "m0": "M0", "m1": "M1"}, grid_slice=gsl, subpixel_smoothing=False, get_material_mapping=Builtin("get_material_mapping", lambda it_, a, k: idx), get_voxel_mask_for_shape=Builtin("get_voxel_mask_for_shape", lambda it_, a, k: mask)), "ball")
        vars_ = dict(
            o=o, subpixel_permittivity=False, subpixel_full_tensor=False,
            inv_permittivities=mk("ie"), inv_permeabilities=mk("im") if magnetic else 1.0,
            electric_conductivity=mk("se") if se_on else None, magnetic_conductivity=mk("sm") if sm_on else None,
            conductivity_spacing=Rat.atom("h"), num_dispersive_poles=0,
            # a scene without dispersion: the arrays the branch would also maintain are not allocated
            dispersive_c1=None, dispersive_c2=None, dispersive_c3=None, dispersive_c4=None, num_disp_components=0, num_disp_coupling_components=0,
            config=Obj(None, dict(time_step_duration=Rat.atom("dt"), dtype="float32"), "config"),
        )
        for k in ("permittivity", "permeability", "electric_conductivity", "magnetic_conductivity"):
            vars_[f"isotropic_{k}"] = ncomp == 1
            vars_[f"diagonally_anisotropic_{k}"] = True
        env = absint.Env(parent=it.module_env(mi), vars=dict(vars_))
        try:
            it.exec_block(body, env)
        except Raised as r:
            raise AnalysisError(f"the multi-material branch raises on the two-cell object: {r}")
        specs = [("inv_permittivities", "ie", "permittivities", True, True), ("inv_permeabilities", "im", "permeabilities", True, magnetic), ("electric_conductivity", "se", "electric_conductivities", False, se_on), ("magnetic_conductivity", "sm", "magnetic_conductivities", False, sm_on)]
        for var, tag, kind, inv, on in specs:
            got = env.lookup(var)[1]
            n += 1
            if not on:
                if isinstance(got, NdArr):
                    bad.append((var, "allocated by the branch", got.shape))
                continue
            if not (isinstance(got, NdArr) and got.shape == (ncomp,) + shape):
                bad.append((var, "shape", getattr(got, "shape", got)))
                continue
            for comp, cell in itertools.product(range(ncomp), range(3)):
                old = Rat.atom((tag, comp, cell))
                if cell == 0:
                    want = old
                else:
                    frac = Rat.atom(f"f{cell - 1}")
                    own = tab[kind][names[(2, 0)[cell - 1]]][comp]
                    if inv:
                        want = 1 / (1 / old + frac * (own - 1 / old))
                    else:
                        want = old + frac * (own * Rat.atom("h") - old)
                g = to_rat(got.data[comp * 3 + cell])
                if not g.equals(want):
                    bad.append(((ncomp, magnetic, se_on, sm_on), var, f"component {comp} cell {cell}", g.fmt()[:160], want.fmt()[:160]))
    ctx.ob("R28.9", "_init_arrays:multi-material-branch", not bad, f"inside a shaped object's slice each array moves by the voxel's mask fraction towards the value of the voxel's own material (index into the common order) from the allowed-value table of that array's own kind — 1/eps, 1/mu, sigma_e*h, sigma_m*h — and the cell outside the slice is untouched ({n} array scopes over magnetic / lossy combinations, isotropic and diagonal tiers — component c of the array from column c of the table)", bad[:3], "own-kind table, own material")
    ctx.require_count("R28.9 array scopes", n, 32)


def _job(ctx, payload):
    _scene_job(ctx, payload)


def run(ctx):
    from ..par import run_jobs

    scenes = _scenes()
    err = run_jobs(ctx, "sa.checks.c28", "_job", scenes, [s[0] for s in scenes])
    _predicate_names(ctx)
    _sort_and_inverse(ctx)
    _material_mapping(ctx)
    _multi_material_branch(ctx)
    if err is not None:
        raise AnalysisError(err)
    ctx.require_count("C28", len(ctx.obligations), 50)
    ctx.trusted_base += ["sa/ndarr.py indicator algebra for .at[region].set on symbolic regions", "prefix slicing of _init_arrays at the end of its placement loop", "models of create_named_sharded_matrix (zeros) and sharding_preserving_set (.at[].set)"]
    ctx.assume("whole-scene painting with uniform-material objects; the multi-material branch on a two-cell object, isotropic and diagonal tiers (multi-material voxel masks are C43's subject); no dispersion, no sub-pixel smoothing")
