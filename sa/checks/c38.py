"""C38 — equivalent grid descriptions give identical simulations (resolution, metrics, origin independence)."""

from __future__ import annotations

import itertools
from fractions import Fraction as Fr

from ..index import AnalysisError
from ..ndarr import NdArr
from ..poly import Rat, apply_fn, normalise_sqrt
from ..scene import Scene
from ..values import Bound, ClassRef, Closure, Obj, Raised, to_rat
from .c37 import _grid, _np_model

LEVEL = "other"
EXPLANATION = (
    "Three descriptions of one mesh — UniformGrid(s, centre), QuasiUniformGrid(s, s, s, centre), and an explicit "
    "RectilinearGrid with the same equal spacings — enter the solver through one realised RectilinearGrid, so the "
    "simulations coincide when (1) the two policies resolve to the same edge arrays, (2) everything read from the "
    "realised grid with equal widths reduces to the uniform formulas, and (3) placement that is defined relative to "
    "the domain does not depend on where an explicit grid puts its origin.  Decided: (1) UniformGrid.resolve and "
    "QuasiUniformGrid.resolve, interpreted for symbolic spacing and centre on several shapes, construct the "
    "RectilinearGrid from edges centre_a + s (i - n_a / 2) on every axis (construction intercepted, edges compared "
    "entry-wise), and _resolve_grid_from_volume derives the same shape from a metric volume size for both policies "
    "and leaves an explicit grid alone; (2) RectilinearGrid.cfl_time_step gives the same time step on its uniform "
    "branch and on its general branch when the three minimal spacings are equal; with that time step _metric_scale "
    "is identically 1 for both stencils on equal widths even when the grid is treated as non-uniform, and "
    "TFSFPlaneSource._metric_scale_at_plane likewise; SimulationConfig.time_step_duration of the unresolved "
    "policies equals the resolved grid's; (3) _center_to_bounds_for_grid, length_to_cell_count and axis_extent give "
    "the same cell indices for an equal-spaced grid whatever its origin (centred, starting at 0, arbitrary), over "
    "every order type of the requested position relative to the interval centres.  Float round-off of the edge "
    "arithmetic (and the tolerance of the uniformity detection, C37) is not decided."
)

UG = "fdtdx.core.grid.UniformGrid"
QG = "fdtdx.core.grid.QuasiUniformGrid"
RG = "fdtdx.core.grid.RectilinearGrid"


def _positive_spacing_oracle(op, d):
    """s > 0: the sign of k * s is the sign of the constant k."""
    s = Rat.atom("s")
    if d.atoms() == s.atoms():
        k = d / s
        if k.is_const():
            c = k.const_value()
            return {"eq": c == 0, "ne": c != 0, "lt": c < 0, "le": c <= 0, "gt": c > 0, "ge": c >= 0}[op]
    return None


class _positive_s:
    def __enter__(self):
        from .. import absint

        absint.COMPARE_ORACLES.append(_positive_spacing_oracle)

    def __exit__(self, *a):
        from .. import absint

        absint.COMPARE_ORACLES.remove(_positive_spacing_oracle)


def _capture_rectilinear(it, ix, built):
    """Intercept the construction of RectilinearGrid: record the edge arrays instead of running __post_init__."""
    ci = ix.cls(RG)

    def hook(it_, callee, args, kwargs):
        if isinstance(callee, ClassRef) and callee.ci is ci:
            names = ("x_edges", "y_edges", "z_edges")
            kw = dict(zip(names, args))
            kw.update(kwargs)
            built.append(kw)
            return Obj(ci, dict(kw), "resolved")
        return NotImplemented

    it.call_hooks.insert(0, hook)


def _resolution(ctx):
    ix = ctx.index
    for q in (UG, QG):
        ctx.unit(ix.cls(q).lookup_method("resolve").where())
    ctx.unit(ix.cls(RG).lookup_method("uniform").where())
    s = Rat.atom("s")
    centre = tuple(Rat.atom(f"c{a}") for a in range(3))
    for shape in ((4, 6, 2), (2, 2, 8), (6, 4, 4), (3, 5, 2), (1, 4, 7)):
        results = {}
        for label, q, attrs in (("UniformGrid", UG, dict(spacing=s, center=centre)), ("QuasiUniformGrid", QG, dict(dx=s, dy=s, dz=s, center=centre)), ("RectilinearGrid.uniform", RG, None)):
            if q == QG and any(n % 2 for n in shape):
                continue  # the quasi-uniform policy rejects odd cell counts (its own documented contract)
            it = ctx.fresh_interp()
            it.ext_overrides["np.arange"] = lambda it_, a, k: NdArr((int(to_rat(a[0]).const_value()),), [Rat.const(i) for i in range(int(to_rat(a[0]).const_value()))])
            built = []
            _capture_rectilinear(it, ix, built)
            try:
                if attrs is None:
                    # the explicit description of the same grid: RectilinearGrid.uniform(shape, s, center=...) without origin
                    it.call(it.getattr(ClassRef(ix.cls(q)), "uniform"), [shape, s], {"center": centre})
                else:
                    it.call_method(Obj(ix.cls(q), attrs, label), "resolve", shape)
            except Raised as r:
                raise AnalysisError(f"{label}.resolve raises: {r}")
            if len(built) != 1:
                ctx.ob("R38.1", f"{label}{'' if attrs is None else '.resolve'}{shape}", False, "constructs exactly one RectilinearGrid", len(built), 1)
                continue
            bad = None
            for a, nm in enumerate(("x_edges", "y_edges", "z_edges")):
                e = built[0].get(nm)
                if not (isinstance(e, NdArr) and e.shape == (shape[a] + 1,)):
                    bad = bad or (nm, getattr(e, "shape", e), (shape[a] + 1,))
                    continue
                for i, v in enumerate(e.data):
                    want = centre[a] + s * (Fr(i) - Fr(shape[a], 2))
                    if not to_rat(v).equals(want):
                        bad = bad or (f"{nm}[{i}]", to_rat(v).fmt(), want.fmt())
            results[label] = built[0]
            ctx.ob("R38.1", f"{label}{'' if attrs is None else '.resolve'}{shape}", bad is None, "edge i of axis a is centre_a + s (i - n_a / 2): equal widths s, the domain centred on `center`, each axis with its own centre component and cell count" + (f" — differs at {bad[0]}" if bad else ""), bad[1] if bad else f"{sum(shape) + 3} edges", bad[2] if bad else "centre + s (i - n/2)")
    # an explicit lower corner overrides the centre: edge i = origin_a + s i (the form UniformGrid.resolve itself uses)
    origin = tuple(Rat.atom(f"o{a}") for a in range(3))
    for shape in ((3, 4, 2),):
        it = ctx.fresh_interp()
        it.ext_overrides["np.arange"] = lambda it_, a, k: NdArr((int(to_rat(a[0]).const_value()),), [Rat.const(i) for i in range(int(to_rat(a[0]).const_value()))])
        built = []
        _capture_rectilinear(it, ix, built)
        try:
            it.call(it.getattr(ClassRef(ix.cls(RG)), "uniform"), [shape, s], {"origin": origin, "center": centre})
        except Raised as r:
            raise AnalysisError(f"RectilinearGrid.uniform(origin=...) raises: {r}")
        bad = None
        if len(built) != 1:
            bad = ("constructions", len(built), 1)
        else:
            for a, nm in enumerate(("x_edges", "y_edges", "z_edges")):
                e = built[0].get(nm)
                if not (isinstance(e, NdArr) and e.shape == (shape[a] + 1,)):
                    bad = bad or (nm, getattr(e, "shape", e), (shape[a] + 1,))
                    continue
                for i, v in enumerate(e.data):
                    want = origin[a] + s * i
                    if not to_rat(v).equals(want):
                        bad = bad or (f"{nm}[{i}]", to_rat(v).fmt(), want.fmt())
        ctx.ob("R38.1", f"RectilinearGrid.uniform[origin]{shape}", bad is None, "with an explicit lower corner edge i of axis a is origin_a + s i, whatever the centre" + (f" — differs at {bad[0]}" if bad else ""), bad[1] if bad else f"{sum(shape) + 3} edges", bad[2] if bad else "origin_a + s i")
    # shape derivation from a metric volume size
    f = ix.function("fdtdx.fdtd.initialization._resolve_grid_from_volume")
    ctx.unit(f.where())
    V = ix.cls("fdtdx.objects.static_material.static.SimulationVolume")
    for cen in ((0, 0, 0), (Fr(1, 2), Fr(-3, 4), Fr(1, 2))):
      shapes = {}
      for label, q, attrs in (("UniformGrid", UG, dict(spacing=Fr(1, 4), center=cen)), ("QuasiUniformGrid", QG, dict(dx=Fr(1, 4), dy=Fr(1, 4), dz=Fr(1, 4), center=cen))):
          it = ctx.fresh_interp()
          seen = []
          pol = Obj(ix.cls(q), dict(attrs, resolve=None), label)

          from ..values import Builtin

          pol.attrs["resolve"] = Builtin("resolve", lambda it_, a, k, _s=seen: (_s.append(tuple(a[0])), Obj(ix.cls(RG), {}, "resolved"))[1])
          vol = Obj(V, dict(name="volume", partial_grid_shape=(None, 6, None), partial_real_shape=(Fr(2), None, Fr(13, 8))), "volume")
          from ..harness import stub_repo_calls

          stub_repo_calls(it, {"_resolve_volume_name": lambda it_, a, k: "volume"})
          cfg = Obj(ix.cls("fdtdx.config.SimulationConfig"), dict(grid=pol), "config")
          try:
              it.call(it.closure_of(f), [[vol], cfg], {})
          except Raised as r:
              raise AnalysisError(f"_resolve_grid_from_volume raises: {r}")
          shapes[label] = seen
      want = [(8, 6, round(Fr(13, 8) / Fr(1, 4)))]
      ctx.ob("R38.1", f"_resolve_grid_from_volume:shape[centre={tuple(str(c) for c in cen)}]", shapes.get("UniformGrid") == want and shapes.get("QuasiUniformGrid") == want, "both policies are resolved for the same cell counts: the given counts, else round(length / spacing) with the axis' own spacing", shapes, want)
    it = ctx.fresh_interp()
    explicit = Obj(ix.cls(RG), {}, "explicit")
    cfg = Obj(ix.cls("fdtdx.config.SimulationConfig"), dict(grid=explicit), "config")
    out = it.call(it.closure_of(f), [[], cfg], {})
    ctx.ob("R38.1", "_resolve_grid_from_volume:explicit", out is cfg, "an explicit RectilinearGrid is used as given", out is cfg, True)


def _time_step(ctx):
    ix = ctx.index
    ci = ix.cls(RG)
    m = ci.lookup_method("cfl_time_step")
    ctx.unit(m.where())
    s, cf = Rat.atom("s"), Rat.atom("courant_factor")
    outs = {}
    for label, attrs in (("uniform branch", dict(_is_uniform=True, _uniform_spacing=s, _min_spacings=(s, s, s))), ("general branch", dict(_is_uniform=False, _uniform_spacing=None, _min_spacings=(s, s, s)))):
        it = ctx.fresh_interp()
        it.ext_overrides["np.sqrt"] = lambda it_, a, k: apply_fn("sqrt", to_rat(a[0]))
        g = Obj(ci, attrs, "grid")
        try:
            outs[label] = to_rat(it.call_method(g, "cfl_time_step", cf))
        except Raised as r:
            raise AnalysisError(f"cfl_time_step raises: {r}")
    a, b = outs["uniform branch"], outs["general branch"]
    c0 = Rat.const(299792458)
    want2 = cf * cf * s * s / (3 * c0 * c0)
    ok = normalise_sqrt(a * a - want2).is_zero() and normalise_sqrt(b * b - want2).is_zero()
    ctx.ob("R38.2", f"{RG}.cfl_time_step", ok, "with three equal minimal spacings the general CFL formula and the uniform shortcut give the same time step, courant_factor s / (sqrt(3) c0) (compared through their squares; both are positive)", [a.fmt()[:120], b.fmt()[:120]], "cf s / (sqrt 3 c0)")
    # unresolved policies: SimulationConfig.time_step_duration
    C = ix.cls("fdtdx.config.SimulationConfig")
    p = C.lookup_method("time_step_duration")
    if p is not None:
        ctx.unit(p.where())
    bad = []
    for label, q, attrs in (("UniformGrid", UG, dict(spacing=s)), ("QuasiUniformGrid", QG, dict(dx=s, dy=s, dz=s))):
        it = ctx.fresh_interp()
        it.ext_overrides["math.sqrt"] = lambda it_, a_, k: apply_fn("sqrt", to_rat(a_[0]))
        it.ext_overrides["np.sqrt"] = it.ext_overrides["math.sqrt"]
        it.ext_handlers["min"] = None
        cfg = Obj(C, dict(grid=Obj(ix.cls(q), attrs, label), courant_factor=cf), "config")
        try:
            dt = to_rat(it.getattr(cfg, "time_step_duration"))
        except Raised as r:
            raise AnalysisError(f"time_step_duration raises: {r}")
        if not normalise_sqrt(dt * dt - want2).is_zero():
            bad.append((label, dt.fmt()[:120]))
    ctx.ob("R38.2", "SimulationConfig.time_step_duration[policies]", not bad, "before resolution both policies report the time step of the grid they resolve to", bad, "cf s / (sqrt 3 c0)")


def _metric(ctx):
    ix = ctx.index
    f = ix.function("fdtdx.core.physics.curl._metric_scale")
    ctx.unit(f.where())
    s, cf = Rat.atom("s"), Rat.atom("courant_factor")
    rt3 = apply_fn("sqrt", Rat.const(3))
    dt = cf / rt3 * s / 299792458
    shape = (4, 3, 5)
    bad = []
    n = 0
    for axis, stencil in itertools.product(range(3), ("forward", "backward")):
        it = ctx.fresh_interp()
        sc = Scene(ix, it)
        widths = [NdArr((shape[a],), [s] * shape[a]) for a in range(3)]
        from ..values import Builtin

        grid = Obj(None, {"cell_widths": Builtin("cell_widths", lambda it_, a, k, _w=widths: _w[a[0] if a else k.get("axis")])}, "grid")
        cfg = sc.config(has_nonuniform_grid=True, resolved_grid=grid, time_step_duration=dt, courant_number=cf / rt3)
        try:
            r = it.call(it.closure_of(f), [cfg, axis, shape, stencil], {})
        except Raised as e:
            raise AnalysisError(f"_metric_scale raises: {e}")
        vals = r.data if isinstance(r, NdArr) else [r]
        n += 1
        want_shape = tuple(shape[a] if a == axis else 1 for a in range(3))
        if not (isinstance(r, NdArr) and r.shape == want_shape and all(normalise_sqrt(to_rat(v) - 1).is_zero() for v in vals)):
            bad.append((axis, stencil, getattr(r, "shape", None), to_rat(vals[0]).fmt()[:80]))
    ctx.ob("R38.3", "fdtdx.core.physics.curl._metric_scale[equal widths]", not bad and n == 6, "on equal widths s and the CFL time step the local derivative scale (c0 dt / courant_number) / width is identically 1 for the forward and the backward stencil on every axis, so the metric-aware update coincides with the uniform one even if the grid is treated as non-uniform", bad[:2], "1")
    # uniform flag short-circuit
    it = ctx.fresh_interp()
    sc = Scene(ix, it)
    r = it.call(it.closure_of(f), [sc.config(has_nonuniform_grid=False), 0, shape, "forward"], {})
    ctx.ob("R38.3", "fdtdx.core.physics.curl._metric_scale[uniform flag]", to_rat(r).equals(1), "a grid detected as uniform takes scale 1 directly", to_rat(r).fmt(), "1")
    # the plane source's own metric factor
    T = ix.cls("fdtdx.objects.sources.tfsf.TFSFPlaneSource")
    m = T.lookup_method("_metric_scale_at_plane")
    ctx.unit(m.where())
    bad = []
    for stencil, start in itertools.product(("forward", "backward"), (0, 2)):
        it = ctx.fresh_interp()
        sc = Scene(ix, it)
        from ..values import Builtin

        widths = NdArr((5,), [s] * 5)
        grid = Obj(None, {"cell_widths": Builtin("cell_widths", lambda it_, a, k: widths)}, "grid")
        cfg = sc.config(has_nonuniform_grid=True, resolved_grid=grid, time_step_duration=dt, courant_number=cf / rt3)
        src = Obj(T, dict(_config=cfg, propagation_axis=1, _grid_slice_tuple=((0, 2), (start, start + 1), (0, 2))), "src")
        r = it.call_method(src, "_metric_scale_at_plane", stencil)
        r = to_rat(r.data[0] if isinstance(r, NdArr) and len(r.data) == 1 else r)
        if not normalise_sqrt(r - 1).is_zero():
            bad.append((stencil, start, r.fmt()[:80]))
    ctx.ob("R38.3", "TFSFPlaneSource._metric_scale_at_plane[equal widths]", not bad, "the source's injection scale is 1 on equal widths for both stencils, at the first cell and inside", bad, "1")


def _origin_independence(ctx):
    ix = ctx.index
    f = ix.function("fdtdx.fdtd.initialization._center_to_bounds_for_grid")
    ctx.unit(f.where())
    ci = ix.cls(RG)
    for m in ("bounds_for_center", "length_to_cell_count", "axis_extent"):
        ctx.unit(ci.lookup_method(m).where())
    n_cells, s = 8, Fr(1, 2)
    origins = {"centred": -Fr(n_cells) * s / 2, "origin 0": Fr(0), "arbitrary": Fr(7, 3)}
    # representative centre-relative positions: every interval-centre class for sizes 1..3 (multiples of s/4 around them)
    positions = [Fr(k, 8) for k in range(-20, 21)]
    bad = []
    n = 0
    for size in (1, 2, 3):
        for pos in positions:
            outs = {}
            for label, o in origins.items():
                it = ctx.fresh_interp()
                _np_model(it)
                edges = [o + s * i for i in range(n_cells + 1)]
                g = _grid(ctx, it, ex=edges, _min_spacings=(s, s, s), _is_uniform=True, _uniform_spacing=s)
                g.attrs["shape"] = (n_cells, 2, 2)
                cfg = Obj(ix.cls("fdtdx.config.SimulationConfig"), dict(grid=g), "config")
                it.ext_overrides["float"] = None
                try:
                    outs[label] = tuple(int(x) for x in it.call(it.closure_of(f), [cfg, 0, pos, size], {}))
                except Raised as r:
                    outs[label] = f"raises {r.exc_name}"
            n += 1
            if len(set(outs.values())) != 1:
                bad.append((size, str(pos), outs))
    ctx.ob("R38.4", "_center_to_bounds_for_grid:origin-independence", not bad, f"a position given relative to the domain centre selects the same cells whether the equal-spaced grid is centred, starts at 0 or sits anywhere else ({n} position / size classes x 3 origins)", bad[:2], "same bounds for every origin")
    bad = []
    for length in [Fr(k, 8) for k in range(0, 33)]:
        for snap in ("nearest", "lower", "upper"):
            outs = {}
            for label, o in origins.items():
                it = ctx.fresh_interp()
                _np_model(it)
                edges = [o + s * i for i in range(n_cells + 1)]
                g = _grid(ctx, it, ex=edges)
                outs[label] = int(it.call_method(g, "length_to_cell_count", 0, length, snap=snap))
            if len(set(outs.values())) != 1:
                bad.append((str(length), snap, outs))
    ctx.ob("R38.4", f"{RG}.length_to_cell_count:origin-independence", not bad, "a physical length maps to the same number of cells for every origin, under all three snapping rules", bad[:2], "same count")
    it = ctx.fresh_interp()
    o = Rat.atom("o")
    g = Obj(ci, dict(x_edges=NdArr((5,), [o + Rat.atom("s") * i for i in range(5)]), y_edges=NdArr((2,), [0, 1]), z_edges=NdArr((2,), [0, 1])), "grid")
    it.ext_overrides["float"] = None
    ext = to_rat(it.call_method(g, "axis_extent", 0, (1, 4)))
    ctx.ob("R38.4", f"{RG}.axis_extent:origin-independence", ext.equals(Rat.atom("s") * 3), "the physical extent of an index interval is a difference of edges: symbolic origin cancels", ext.fmt(), "3 s")


def _uniformity_origin(ctx):
    """the constructor's uniformity verdict for equal widths does not depend on where the explicit grid sits"""
    from .c37 import sc

    ix = ctx.index
    ci = ix.cls(RG)
    ctx.unit(ci.lookup_method("__post_init__").where())
    s, n = Fr(1, 4), 6
    eps = Fr(1, 2**23)
    origins = {"centred": -s * n / 2, "origin 0": Fr(0), "far positive": s * 4000, "entirely negative": -s * (n + 250), "far negative": -s * (n + 4000)}
    rows, bad = {}, []
    for jitter in (False, True):
        for label, o in origins.items():
            edges = [o + s * i for i in range(n + 1)]
            if jitter:  # the width jitter of a translated single-precision grid: a few ulp of the largest coordinate
                M = max(abs(e) for e in edges)
                edges = [e + (2 * eps * M if i % 2 else 0) for i, e in enumerate(edges)]
            it = ctx.fresh_interp()
            _np_model(it)
            it.ext_handlers["object.__setattr__"] = lambda it_, a, k: a[0].attrs.__setitem__(a[1], a[2])
            other = [o + s * i for i in range(3)]
            g = _grid(ctx, it, edges, other, other)
            try:
                it.call_method(g, "__post_init__")
            except Raised as r:
                raise AnalysisError(f"RectilinearGrid.__post_init__ raises on an equal-spaced grid ({label}): {r}")
            u, us = g.attrs.get("_is_uniform"), g.attrs.get("_uniform_spacing")
            rows[(label, jitter)] = u
            if u is not True or us is None or (not jitter and not to_rat(sc(us)).equals(s)):
                bad.append((label, "with ulp jitter" if jitter else "exact", u))
    ctx.ob("R38.5", f"{RG}.__post_init__:uniformity-origin-independence", not bad and len(rows) == 10, "an explicit grid with equal widths (exactly, or up to a few ulp of its largest coordinate) is classified uniform, with its spacing, wherever it sits — centred, at 0, far out on the positive side or entirely in negative coordinates — so it takes the same solver paths as the two policies", bad[:3], "uniform for every origin")


def _pinning_paths(ctx):
    """place_objects pins the solver grid by the same route for all three descriptions: realise on the volume's full
    shape first, then (under symmetry) keep the upper half of that realised grid.  Decided on abstract grids that
    record the operations applied to them."""
    import ast

    from ..absint import StopAfter
    from ..harness import stub_repo_calls
    from ..values import Builtin

    ix = ctx.index
    f = ix.function("fdtdx.fdtd.initialization.place_objects")
    ctx.unit(f.where())
    stop = None
    for st in f.node.body:
        if isinstance(st, ast.If) and "grid" in ast.unparse(st.test) and "shape" in ast.unparse(st.test) and any(isinstance(x, ast.Raise) for x in st.body):
            stop = st
    if stop is None:
        raise AnalysisError("place_objects no longer has the top-level grid-shape consistency test that ends the grid pinning")
    V = ix.cls("fdtdx.objects.static_material.static.SimulationVolume")
    CFG = ix.cls("fdtdx.config.SimulationConfig")
    full = (6, 4, 10)
    traces = {}
    for sym in ((0, 0, 0), (0, 0, 1), (-1, 0, 1)):
        red = tuple(n // 2 if sg else n for n, sg in zip(full, sym))
        for label in ("UniformGrid", "QuasiUniformGrid", "RectilinearGrid"):
            it = ctx.fresh_interp()

            def realised(history, shape):
                g = Obj(ix.cls(RG), {"shape": tuple(shape), "history": history}, "grid")
                g.attrs["reduce_symmetric"] = Builtin("reduce_symmetric", lambda it_, a, k, _g=g: realised(_g.attrs["history"] + (("reduce_symmetric", tuple(a[0])),), tuple(n // 2 if sg else n for n, sg in zip(_g.attrs["shape"], a[0]))))
                return g

            if label == "RectilinearGrid":
                grid = realised((("realised", full),), full)
            else:
                grid = Obj(ix.cls(UG if label == "UniformGrid" else QG), dict(spacing=Fr(1, 4), dx=Fr(1, 4), dy=Fr(1, 4), dz=Fr(1, 4), center=(0, 0, 0)), label)
                grid.attrs["resolve"] = Builtin("resolve", lambda it_, a, k: realised((("realised", tuple(a[0])),), tuple(a[0])))
            cfg = Obj(CFG, dict(grid=grid, symmetry=sym), "config")
            vol = Obj(V, dict(name="volume", partial_grid_shape=full, partial_real_shape=(None, None, None)), "volume")
            stub_repo_calls(
                it,
                {
                    "check_not_tracing": lambda it_, a, k: None,
                    "default_key": lambda it_, a, k: Rat.atom("key"),
                    "_resolve_volume_name": lambda it_, a, k: "volume",
                    "resolve_object_constraints": lambda it_, a, k: ({"volume": tuple((0, n) for n in full)}, {}),
                    "reduce_resolved_slices": lambda it_, a, k, _r=red: ({"volume": tuple((0, n) for n in _r)}, {}, set(), _r),
                },
            )
            it.stop_after.add(id(stop))
            try:
                it.call(it.closure_of(f), [[vol], cfg, []], {})
                raise AnalysisError("place_objects returned before the grid was pinned")
            except StopAfter as e:
                found, out = e.env.lookup("config")
            except Raised as r:
                traces[(sym, label)] = f"raises {r.exc_name}"
                continue
            g = out.attrs.get("grid") if found and isinstance(out, Obj) else None
            traces[(sym, label)] = (g.attrs.get("history"), g.attrs.get("shape")) if isinstance(g, Obj) and "history" in g.attrs else repr(g)[:60]
    bad = []
    for sym in ((0, 0, 0), (0, 0, 1), (-1, 0, 1)):
        red = tuple(n // 2 if sg else n for n, sg in zip(full, sym))
        want = ((("realised", full),) + ((("reduce_symmetric", sym),) if any(sym) else ()), red)
        for label in ("UniformGrid", "QuasiUniformGrid", "RectilinearGrid"):
            if traces[(sym, label)] != want:
                bad.append((sym, label, traces[(sym, label)]))
    ctx.ob("R38.6", "place_objects:grid-pinning-route", not bad and len(traces) == 9, "for a uniform policy, a quasi-uniform policy and an explicit grid alike the pinned solver grid is: realised on the volume's full shape, then (under symmetry) reduce_symmetric of that realised grid — never a policy re-resolved on the reduced shape (which has its own parity / centring rules)", bad[:3], "realised(full) [+ reduce_symmetric(symmetry)]")


def run(ctx):
    with _positive_s():
        _uniformity_origin(ctx)
        _pinning_paths(ctx)
        _resolution(ctx)
        _time_step(ctx)
        _metric(ctx)
        _origin_independence(ctx)
    ctx.require_count("C38", len(ctx.obligations), 16)
    ctx.trusted_base += [
        "construction of RectilinearGrid intercepted (its derived attributes are functions of the edge arrays; their tolerance logic is C37)",
        "concrete rational model of numpy searchsorted / argmin / arange (C37)",
        "sqrt as an opaque function with sqrt(u)^2 = u; both time steps positive",
    ]
    ctx.assume("equal spacing on all three axes; even cell counts where the policy demands them")
