"""C15 — detectors record the co-located fields of their region."""

from __future__ import annotations

import itertools

from ..harness import open_obj, stub_repo_calls
from ..index import AnalysisError
from ..kernel import clean
from ..ndarr import Dim, NdArr, concatenate, field_atom, getitem
from ..poly import Rat
from ..scene import SP, Scene, vec
from ..values import Builtin, Obj, Raised, to_rat

LEVEL = "other"
EXPLANATION = (
    "Decides what update_detector_states hands to a detector.  (1) The co-location stencil of "
    "interpolate_fields, interpreted on symbolic fields over the stencil domain, equals the stencil derived from "
    "the Yee staggering for the target point (i, j, k+1/2): per axis no average, a backward pair or a forward "
    "pair (4, 4, 1, 2, 2, 8 points); on non-uniform grids every backward pair is weighted with the half widths "
    "of the two cells on its own axis (first cell replicated), forward pairs stay arithmetic means.  (2) The whole "
    "path, interpreted on a concrete 5x4x4 grid of free symbolic field entries (current and previous H separate) "
    "and symbolic cell widths: for interior detectors (fast path), detectors touching min / max faces, the whole "
    "domain and raw (non-interpolated) detectors, on zero, periodic and electric / magnetic symmetry halos (one "
    "and two electric planes), uniform and non-uniform, the E and H arrays received by Detector.update equal, "
    "entry by entry, the co-located values computed from the stencil and the halo rule — zero outside, wrap on "
    "periodic axes (never into the min halo of a symmetric axis), parity * mirror partner on electric symmetry "
    "planes (partner = second cell for components sampled on the plane, first cell otherwise; corners doubly "
    "mirrored), H time-centred as (H_prev + H)/2 in both interpolating paths and untouched in the raw path, and "
    "material slices restricted to the region.  Entries are free symbols, so the identities hold for all field "
    "values on that grid; other grid sizes rest on the index-generic form of the code."
)

N = (5, 4, 4)
OFF_E = {0: (1, 0, 0), 1: (0, 1, 0), 2: (0, 0, 1)}  # Yee offsets in half cells
OFF_H = {0: (0, 1, 1), 1: (1, 0, 1), 2: (1, 1, 0)}
TARGET = (0, 0, 1)


def _ops(ft, c):
    off = (OFF_E if ft == "E" else OFF_H)[c]
    return tuple("id" if off[a] == TARGET[a] else ("back" if off[a] == 1 else "fwd") for a in range(3))


# ------------------------------------------------------------------ rule 1: the stencil on the stencil domain
def _stencil(ctx):
    ix = ctx.index
    f = ix.function("fdtdx.core.physics.curl.interpolate_fields")
    ctx.unit(f.where())
    for nonuni in (False, True):
        it = ctx.fresh_interp()
        sc = Scene(ix, it)

        def cell_widths(it_, a, k):
            ax = a[0] if a else k.get("axis")
            return NdArr((), [field_atom(f"w{ax}", (0, 0, 0), (ax,))], (Dim(ax, ("Nx", "Ny", "Nz")[ax]),))

        grid = Obj(None, {"cell_widths": Builtin("cw", cell_widths)}, "grid")
        cfg = sc.config(has_nonuniform_grid=nonuni, resolved_grid=grid if nonuni else None)
        E = it.call_function("fdtdx.core.misc.pad_fields", vec("E"), (False, False, False))
        H = it.call_function("fdtdx.core.misc.pad_fields", vec("H"), (False, False, False))
        Ei, Hi = it.call(it.closure_of(f), [E, H], dict(config=cfg))
        for ft, arr in (("E", Ei), ("H", Hi)):
            for c in range(3):
                ops = _ops(ft, c)
                terms = [((0, 0, 0), Rat.const(1))]
                for a, op in enumerate(ops):
                    new = []
                    for sh, coef in terms:
                        if op == "id":
                            new.append((sh, coef))
                            continue
                        d = -1 if op == "back" else 1
                        sh2 = tuple(s + (d if k == a else 0) for k, s in enumerate(sh))
                        if op == "back" and nonuni:
                            wc = to_rat(field_atom(f"w{a}", (0, 0, 0), (a,)))
                            wp = to_rat(field_atom(("edge-shift", f"w{a}"), tuple(-1 if k == a else 0 for k in range(3)), (a,)))
                            new.append((sh, coef * wp / (wc + wp)))
                            new.append((sh2, coef * wc / (wc + wp)))
                        else:
                            new.append((sh, coef / 2))
                            new.append((sh2, coef / 2))
                    terms = new
                want = sum((coef * to_rat(field_atom(f"{ft}{c}", sh)) for sh, coef in terms), Rat.const(0))
                got = clean(arr.data[c])
                ctx.ob("R15.1", f"interpolate_fields[{ft}{'xyz'[c]},{'nonuniform' if nonuni else 'uniform'}]", got.equals(want), f"co-location of {ft}_{'xyz'[c]} to (i, j, k+1/2): per-axis {ops} as implied by the Yee offsets ({len(terms)} points" + (", backward pairs weighted by the half widths of their own axis)" if nonuni else ")"), got.fmt()[:300], want.fmt()[:300])


# ------------------------------------------------------------------ rule 2: the whole path on a concrete grid
def _arr(name):
    shape = (3,) + N
    return NdArr(shape, [Rat.atom((name,) + ix) for ix in itertools.product(*[range(n) for n in shape])])


def _np_pad(it, a, k):
    arr = a[0]
    pw = k.get("pad_width", a[1] if len(a) > 1 else None)
    mode = k.get("mode", a[2] if len(a) > 2 else "constant")
    if not isinstance(arr, NdArr) or arr.sp:
        return NotImplemented
    out = arr
    for axis, (b, e) in enumerate(pw):
        b, e = int(b), int(e)
        if (b, e) == (0, 0):
            continue
        n = out.shape[axis]
        idx = lambda lo, hi: tuple([slice(None)] * axis + [slice(lo, hi)])
        if mode == "wrap":
            parts = [getitem(out, idx(n - b, n)), out, getitem(out, idx(0, e))]
        elif mode == "constant":
            z = lambda w: NdArr(out.shape[:axis] + (w,) + out.shape[axis + 1 :], [0] * (len(out.data) // n * w))
            parts = [z(b), out, z(e)]
        elif mode == "edge":
            parts = [getitem(out, idx(0, 1))] * b + [out] + [getitem(out, idx(n - 1, n))] * e
        else:
            raise AnalysisError(f"np.pad mode {mode!r}")
        out = concatenate(parts, axis=axis)
    return out


class Halo:
    """oracle for one field: value at any index incl. the one-cell halo"""

    def __init__(self, name, ft, periodic, symmetry, parity, pairs_on_plane):
        self.name, self.ft, self.periodic, self.symmetry = name, ft, periodic, symmetry
        self.parity, self.pairs = parity, pairs_on_plane

    def at(self, c, idx):
        sign = 1
        idx = list(idx)
        for a in range(3):
            n = N[a]
            if 0 <= idx[a] < n:
                continue
            if idx[a] == -1 and self.symmetry[a] == -1:
                sign *= self.parity(self.ft, c, a, -1)
                idx[a] = 1 if self.pairs(self.ft, c, a, -1) else 0
            elif self.periodic[a] and not (idx[a] == -1 and self.symmetry[a] != 0):
                idx[a] = idx[a] % n
            else:
                return Rat.const(0)
        return sign * Rat.atom((self.name, c) + tuple(idx))


def _width(a, p, wraps=False):
    """width of cell p of axis a; the cell below the domain is the last cell of the neighbouring copy on a wrapping
    axis and a replica of the first cell otherwise (zero halo: the weight is immaterial; mirror: the first cell)"""
    if p < 0 and wraps:
        return Rat.atom((f"w{a}", N[a] - 1))
    return Rat.atom((f"w{a}", max(p, 0)))


def _colocated(h: Halo, ft, c, cell, nonuni, avg_prev: Halo | None = None):
    ops = _ops(ft, c)
    terms = [(tuple(cell), Rat.const(1))]
    for a, op in enumerate(ops):
        new = []
        for ix, coef in terms:
            if op == "id":
                new.append((ix, coef))
                continue
            d = -1 if op == "back" else 1
            ix2 = tuple(v + (d if k == a else 0) for k, v in enumerate(ix))
            if op == "back" and nonuni:
                wc, wp = _width(a, ix[a]), _width(a, ix[a] - 1, wraps=h.periodic[a] and h.symmetry[a] == 0)
                new.append((ix, coef * wp / (wc + wp)))
                new.append((ix2, coef * wc / (wc + wp)))
            else:
                new.append((ix, coef / 2))
                new.append((ix2, coef / 2))
        terms = new
    tot = Rat.const(0)
    for ix, coef in terms:
        v = h.at(c, ix)
        if avg_prev is not None:
            v = (v + avg_prev.at(c, ix)) / 2
        tot = tot + coef * v
    return tot


def _scene_job(ctx, payload):
    label, boundaries, symmetry, nonuni, dets = payload
    ix = ctx.index
    it = ctx.fresh_interp()
    it.ext_overrides["np.pad"] = _np_pad
    sc = Scene(ix, it)
    E, H, Hp = _arr("E"), _arr("H"), _arr("Hp")
    ie = NdArr((3,) + N, [Rat.atom(("ie", c) + ixs) for c in range(3) for ixs in itertools.product(*[range(n) for n in N])])
    widths = [NdArr((N[a],), [Rat.atom((f"w{a}", i)) for i in range(N[a])]) for a in range(3)]
    grid = Obj(None, {"cell_widths": Builtin("cw", lambda it_, a, k: widths[a[0] if a else k.get("axis")]), "min_spacing": Rat.atom("wmin")}, "grid")
    cfg = sc.config(symmetry=tuple(symmetry), has_nonuniform_grid=nonuni, resolved_grid=grid if nonuni else None)
    V = ix.cls("fdtdx.objects.static_material.static.SimulationVolume")
    vol = Obj(V, dict(name="volume", grid_shape=N, _grid_slice_tuple=tuple((0, n) for n in N)), "volume")
    bobjs = []
    periodic = [False, False, False]
    PEC = "fdtdx.objects.boundaries.pec.PerfectElectricConductor"
    BLO = "fdtdx.objects.boundaries.bloch.BlochBoundary"
    for kind, axis, direction in boundaries:
        ci = ix.cls(PEC if kind in ("symwall", "pec") else BLO)
        gst = tuple((0, 1) if a == axis and direction == "-" else ((N[a] - 1, N[a]) if a == axis else (0, N[a])) for a in range(3))
        attrs = dict(name=f"{kind}_{axis}{direction}", axis=axis, direction=direction, _grid_slice_tuple=gst, _is_symmetry_wall=(kind == "symwall"))
        if kind == "periodic":
            attrs.update(bloch_vector=(0, 0, 0), needs_complex_fields=False)
            periodic[axis] = True
        bobjs.append(Obj(ci, attrs, attrs["name"]))
    D = ix.cls("fdtdx.objects.detectors.detector.Detector")
    received = {}
    dobjs = []
    for name, gst, exact in dets:
        def upd(it_, a, k, _n=name):
            received[_n] = (k.get("E"), k.get("H"), k.get("inv_permittivity"), k.get("time_step"))
            return {"rec": NdArr((1,), [0])}

        dobjs.append(Obj(D, dict(name=name, inverse=False, exact_interpolation=exact, _is_on_at_time_step_arr=[True, True], _grid_slice_tuple=gst, update=Builtin("update", upd)), name))
    OC = ix.cls("fdtdx.fdtd.container.ObjectContainer")
    objs = Obj(OC, {"object_list": [vol] + bobjs + dobjs, "volume_idx": 0}, "objects")
    arrays = sc.arrays(fields=sc.fields(E=E, H=H), inv_permittivities=ie, inv_permeabilities=1, detector_states={d.attrs["name"]: {"rec": NdArr((1,), [0])} for d in dobjs})
    stub_repo_calls(it, {"_check_updated_state_layout": lambda it_, a, k: None})
    f = ix.function("fdtdx.fdtd.update.update_detector_states")
    ctx.unit(f.where())
    try:
        it.call(it.closure_of(f), [], dict(time_step=1, arrays=arrays, objects=objs, config=cfg, H_prev=Hp, inverse=False))
    except Raised as r:
        raise AnalysisError(f"{label}: update_detector_states raises: {r}")
    par = lambda ft, c, a, w: it.call_function("fdtdx.core.physics.symmetry.field_component_parity", ft, c, a, w)
    pairs = lambda ft, c, a, w: it.call_function("fdtdx.core.physics.symmetry.mirror_pairs_on_plane", ft, c, a, w)
    from .c32 import onplane_oracle, parity_oracle

    hE = Halo("E", "E", periodic, symmetry, parity_oracle, lambda ft, c, a, w: w == -1 and onplane_oracle(ft, c, a))
    hH = Halo("H", "H", periodic, symmetry, parity_oracle, lambda ft, c, a, w: w == -1 and onplane_oracle(ft, c, a))
    hP = Halo("Hp", "H", periodic, symmetry, parity_oracle, lambda ft, c, a, w: w == -1 and onplane_oracle(ft, c, a))
    for name, gst, exact in dets:
        if name not in received:
            ctx.ob("R15.2", f"{label}:{name}", False, "the detector is not updated", None, "update called")
            continue
        Er, Hr, ier, ts = received[name]
        shape = tuple(e - s for s, e in gst)
        bad = None
        for ft, got in (("E", Er), ("H", Hr)):
            if not (isinstance(got, NdArr) and got.shape == (3,) + shape):
                bad = bad or (ft, "shape", getattr(got, "shape", got), (3,) + shape)
                continue
            for c in range(3):
                for loc in itertools.product(*[range(m) for m in shape]):
                    cell = tuple(s + l for (s, _), l in zip(gst, loc))
                    if exact:
                        want = _colocated(hE, "E", c, cell, nonuni) if ft == "E" else _colocated(hH, "H", c, cell, nonuni, avg_prev=hP)
                    else:
                        want = Rat.atom((ft, c) + cell)
                    flat = ((c * shape[0] + loc[0]) * shape[1] + loc[1]) * shape[2] + loc[2]
                    g = to_rat(got.data[flat])
                    if not g.equals(want):
                        bad = bad or (f"{ft}{'xyz'[c]} at cell {cell}", g.fmt()[:260], want.fmt()[:260])
        ok_ie = isinstance(ier, NdArr) and ier.shape == (3,) + shape and all(
            to_rat(ier.data[((c * shape[0] + l[0]) * shape[1] + l[1]) * shape[2] + l[2]]).equals(Rat.atom(("ie", c) + tuple(s + x for (s, _), x in zip(gst, l))))
            for c in range(3) for l in itertools.product(*[range(m) for m in shape])
        )
        if not ok_ie:
            bad = bad or ("inv_permittivity", "not the region slice", "arrays.inv_permittivities[:, region]")
        if not to_rat(ts).equals(1):
            bad = bad or ("time_step", to_rat(ts).fmt(), "1")
        kind = "raw" if not exact else "co-located"
        ctx.ob("R15.2" if exact else "R15.3", f"{label}:{name}", bad is None, f"{kind} fields of the region {gst}: every entry equals the stencil value under the halo rule, H {'time-centred (H_prev + H)/2' if exact else 'as stored'}" + (f" — differs for {bad[0]}" if bad else ""), bad[1] if bad else f"{6 * shape[0] * shape[1] * shape[2]} entries", bad[2] if bad else "oracle")


def _scenes(tier):
    interior = ("interior", ((2, 4), (1, 3), (1, 3)), True)
    deep = ("deep-interior", ((1, 3), (1, 2), (1, 2)), True)  # more than one cell away from every face
    corner_min = ("corner-min", ((0, 2), (0, 2), (0, 3)), True)
    corner_max = ("corner-max", ((3, 5), (2, 4), (1, 4)), True)
    whole = ("whole", ((0, 5), (0, 4), (0, 4)), True)
    thin = ("thin-min-edge", ((0, 1), (0, 1), (1, 3)), True)
    raw = ("raw", ((1, 4), (0, 3), (2, 4)), False)
    sc = [
        ("zero-halo:uniform", [], (0, 0, 0), False, [interior, deep, corner_min, corner_max, raw]),
        ("zero-halo:nonuniform", [], (0, 0, 0), True, [interior, deep, corner_min, corner_max, whole]),
        ("periodic-xz:uniform", [("periodic", 0, "-"), ("periodic", 0, "+"), ("periodic", 2, "-"), ("periodic", 2, "+")], (0, 0, 0), False, [interior, deep, whole]),
        ("periodic-xz:nonuniform", [("periodic", 0, "-"), ("periodic", 0, "+"), ("periodic", 2, "-"), ("periodic", 2, "+")], (0, 0, 0), True, [corner_min, corner_max]),
        ("electric-x", [("symwall", 0, "-")], (-1, 0, 0), False, [corner_min, interior]),
        ("electric-xy", [("symwall", 0, "-"), ("symwall", 1, "-")], (-1, -1, 0), False, [corner_min, thin, raw]),
        ("electric-xy:nonuniform", [("symwall", 0, "-"), ("symwall", 1, "-")], (-1, -1, 0), True, [thin, corner_max]),
        ("magnetic-x:electric-z", [("symwall", 2, "-")], (1, 0, -1), False, [corner_min, whole]),
        ("electric-y+periodic-y-far", [("symwall", 1, "-"), ("periodic", 1, "+")], (0, -1, 0), False, [corner_min, corner_max]),
        ("user-pec-min-x", [("pec", 0, "-")], (0, 0, 0), False, [corner_min]),
    ]
    return sc if tier == "thorough" else sc


def _job(ctx, payload):
    if payload == "stencil":
        _stencil(ctx)
    else:
        _scene_job(ctx, payload)


def run(ctx):
    from ..par import run_jobs

    jobs = ["stencil"] + _scenes(ctx.tier)
    err = run_jobs(ctx, "sa.checks.c15", "_job", jobs, [j if isinstance(j, str) else j[0] for j in jobs])
    if err is not None:
        raise AnalysisError(err)
    # which H the detectors are handed as time partner, in the forward and in the reverse step (the other half step on
    # either side of the detector's E): decided by C03's step-order rule, evaluated here because the time-centring of
    # the recorded H rests on it
    from . import c03

    n0 = len(ctx.obligations)
    c03._step_order(ctx)
    for o in ctx.obligations[n0:]:
        o.rule = "R15.4"
    ctx.require_count("R15.4 step-order obligations", len(ctx.obligations) - n0, 3)
    ctx.require_count("C15", len(ctx.obligations), 35)
    ctx.trusted_base += ["np.pad model on concrete arrays (constant / wrap)", "Yee offsets E_c at +1/2 e_c, H_c at +1/2 (1 - e_c), target (0, 0, 1/2)", "parity / on-plane oracles of C32"]
    ctx.assume("a 5x4x4 grid stands for all grids (index-generic code); detectors are active at the step")
