"""C34 — symmetric placement keeps the upper half and clips objects consistently."""

from __future__ import annotations

import ast
import itertools

from ..harness import open_obj, stub_repo_calls
from ..index import AnalysisError
from ..poly import Rat
from ..values import Builtin, Obj, Raised, to_rat

LEVEL = "other"
EXPLANATION = (
    "Decides reduce_resolved_slices and make_symmetry_walls by abstract interpretation.  The reduction touches "
    "the slice endpoints only through comparisons, min / max, +- and the halving of the (validated even) cell "
    "count, and its axes are independent except for the drop flag, so interpreting it per axis on every pair "
    "s0 < s1 in a window around two volumes (offset and non-offset), for symmetric (both wall kinds) and "
    "non-symmetric axes, covers every order type of (s0, s1) against (volume start, plane, volume end): the "
    "volume becomes (0, end - plane); an object becomes [max(s0, plane), min(s1, end)) - plane; it is dropped "
    "exactly when that is empty (an object ending on the plane is dropped); survivors record (s0 - plane, s1 - "
    "plane); other axes are untouched; multi-axis scenes drop iff some symmetric axis is empty; odd or < 2 cell "
    "counts are rejected before the plane index is used.  Walls: for all 27 symmetry tuples a PEC wall is created "
    "exactly on the electric (-1) axes, one cell thick at index 0 of its axis, spanning the full reduced extent on "
    "the other two axes (also when several walls are built), min direction, flagged as a symmetry wall, with "
    "unique names.  place_objects runs the reduction and the wall construction only under config.has_symmetry "
    "and stores the unclipped extents.  Whether objects are physically mirror-symmetric is not decided."
)

SYM = "fdtdx.fdtd.symmetry"


def _reduce(ctx, slices, symmetry, boundary_names=()):
    ix = ctx.index
    it = ctx.fresh_interp()
    f = ix.function(f"{SYM}.reduce_resolved_slices")
    ctx.unit(f.where())
    it.ext_handlers["logger.warning"] = lambda it_, a, k: None
    SO = ix.cls("fdtdx.objects.object.SimulationObject")
    om = {n: Obj(SO, {"name": n}, n) for n in slices}
    cfg = open_obj(None, "config", symmetry=tuple(symmetry))
    return it.call(it.closure_of(f), [], dict(resolved_slices={k: tuple(tuple(p) for p in v) for k, v in slices.items()}, object_map=om, config=cfg, volume_name="vol"))


def _axis_cases(ctx):
    n_cases = 0
    for (vs0, vs1), sym, axis in itertools.product(((0, 8), (3, 9)), (-1, 1, 0), range(3)):
        bad = []
        m = vs0 + (vs1 - vs0) // 2
        neutral = (1, 4)
        vol = [(0, 6)] * 3
        vol[axis] = (vs0, vs1)
        symmetry = [0, 0, 0]
        symmetry[axis] = sym
        pairs = [(a, b) for a in range(vs0 - 1, vs1 + 2) for b in range(a + 1, vs1 + 3)]
        # all objects of one axis in a single interpretation (independent entries of the dict)
        slices = {"vol": vol}
        for k, (s0, s1) in enumerate(pairs):
            sl = [neutral] * 3
            sl[axis] = (s0, s1)
            slices[f"o{k}"] = sl
        try:
            new, unred, dropped, shape = _reduce(ctx, slices, symmetry)
        except Raised as r:
            raise AnalysisError(f"reduce_resolved_slices raises on a valid scene: {r}")
        want_vol = (0, vs1 - m) if sym else (vs0, vs1)
        if tuple(new["vol"][axis]) != want_vol or tuple(shape)[axis] != want_vol[1] - want_vol[0]:
            bad.append(("volume", tuple(new["vol"][axis]), want_vol))
        want_vu = (vs0 - m, vs1 - m) if sym else (vs0, vs1)
        if tuple(unred["vol"][axis]) != want_vu:
            bad.append(("volume-unreduced", tuple(unred["vol"][axis]), want_vu))
        for k, (s0, s1) in enumerate(pairs):
            name = f"o{k}"
            n_cases += 1
            if sym:
                c0, c1 = max(s0, m) - m, min(s1, vs1) - m
                drop = c1 <= c0
                want_c, want_u = (c0, c1), (s0 - m, s1 - m)
            else:
                drop, want_c, want_u = False, (s0, s1), (s0, s1)
            is_dropped = name in dropped
            if is_dropped != drop:
                bad.append((name, (s0, s1), "dropped" if is_dropped else "kept", "dropped" if drop else "kept"))
                continue
            if drop:
                if name in new or name in unred:
                    bad.append((name, (s0, s1), "a dropped object still has a slice", "absent"))
                continue
            if tuple(new[name][axis]) != want_c or tuple(unred[name][axis]) != want_u:
                bad.append((name, (s0, s1), (tuple(new[name][axis]), tuple(unred[name][axis])), (want_c, want_u)))
            for b in range(3):
                if b != axis and (tuple(new[name][b]) != neutral or tuple(unred[name][b]) != neutral):
                    bad.append((name, "other axis changed", tuple(new[name][b]), neutral))
        ctx.ob("R34.2", f"reduce_resolved_slices[axis{axis},symmetry={sym},volume={(vs0, vs1)}]", not bad, f"{len(pairs)} object intervals (every order type against volume start / plane / volume end): clipped = [max(s0,m), min(s1,v1)) - m, dropped iff empty, unclipped = (s0-m, s1-m), volume -> (0, v1-m); non-symmetric axes untouched", bad[:3], "clip oracle")
    ctx.require_count("R34.2 object intervals", n_cases, 600)


def _multi_axis(ctx):
    vol = [(0, 8), (2, 10), (0, 6)]
    objs = {"a": [(1, 3), (7, 9), (0, 6)], "b": [(5, 8), (3, 5), (2, 4)], "c": [(3, 6), (5, 9), (1, 2)], "d": [(0, 4), (6, 10), (0, 3)], "e": [(4, 8), (6, 10), (3, 6)]}
    for symmetry in itertools.product((-1, 0, 1), repeat=3):
        if symmetry == (0, 0, 0):
            continue
        new, unred, dropped, shape = _reduce(ctx, dict(objs, vol=vol), symmetry)
        bad = []
        mids = [v0 + (v1 - v0) // 2 for v0, v1 in vol]
        for n, sl in objs.items():
            drop = any(symmetry[a] and min(sl[a][1], vol[a][1]) <= max(sl[a][0], mids[a]) for a in range(3))
            if (n in dropped) != drop:
                bad.append((n, "dropped" if n in dropped else "kept"))
            elif not drop:
                want = tuple((max(sl[a][0], mids[a]) - mids[a], min(sl[a][1], vol[a][1]) - mids[a]) if symmetry[a] else tuple(sl[a]) for a in range(3))
                if tuple(tuple(x) for x in new[n]) != want:
                    bad.append((n, tuple(tuple(x) for x in new[n]), want))
        want_shape = tuple((vol[a][1] - mids[a]) if symmetry[a] else vol[a][1] - vol[a][0] for a in range(3))
        if tuple(shape) != want_shape:
            bad.append(("shape", tuple(shape), want_shape))
        ctx.ob("R34.2", f"reduce_resolved_slices[multi-axis,{symmetry}]", not bad, "several symmetric axes at once: an object is dropped iff its clip is empty on some symmetric axis; the reduced volume shape halves exactly the symmetric axes", bad[:3], "per-axis oracle combined")


def _validation(ctx):
    ix = ctx.index
    g = ix.function("fdtdx.core.misc.validate_symmetric_axis_cells")
    ctx.unit(g.where())
    it = ctx.fresh_interp()
    bad = []
    for n in range(-1, 9):
        try:
            it.call(it.closure_of(g), [n, "x"], {})
            rej = False
        except Raised:
            rej = True
        if rej != (n < 2 or n % 2 != 0):
            bad.append((n, rej))
    ctx.ob("R34.1", "validate_symmetric_axis_cells", not bad, "rejects exactly cell counts < 2 or odd", bad, "n >= 2 and even")
    # the reduction validates before it halves: odd volumes raise, and no result is produced
    for axis, n in itertools.product(range(3), (1, 5, 7)):
        vol = [(0, 6)] * 3
        vol[axis] = (1, 1 + n)
        symmetry = [0, 0, 0]
        symmetry[axis] = -1
        try:
            _reduce(ctx, {"vol": vol, "o": [(1, 2)] * 3}, symmetry)
            rej = False
        except Raised:
            rej = True
        ctx.ob("R34.1", f"reduce_resolved_slices[odd volume,axis{axis},n={n}]", rej, "a symmetric axis with an odd cell count is rejected before the plane index is used", rej, True)
    # a non-symmetric axis may be odd
    try:
        _reduce(ctx, {"vol": [(0, 5), (0, 6), (0, 7)], "o": [(1, 2)] * 3}, (0, 1, 0))
        okodd = True
    except Raised:
        okodd = False
    ctx.ob("R34.1", "reduce_resolved_slices[odd non-symmetric axes]", okodd, "only symmetric axes need an even count", okodd, True)


def _walls(ctx):
    ix = ctx.index
    f = ix.function(f"{SYM}.make_symmetry_walls")
    ctx.unit(f.where())
    shape = (Rat.atom("Rx"), Rat.atom("Ry"), Rat.atom("Rz"))
    for symmetry in itertools.product((-1, 0, 1), repeat=3):
        it = ctx.fresh_interp()
        it.ext_handlers["jax.random.split"] = lambda it_, a, k: (a[0], a[0])
        placed = []

        def place(it_, a, k, _p=placed):
            obj = a[0]
            gst = k.get("grid_slice_tuple", a[1] if len(a) > 1 else None)
            _p.append((obj.attrs.get("name"), gst))
            return obj.replace(_grid_slice_tuple=gst)

        stub_repo_calls(it, {"fdtdx.objects.object.SimulationObject.place_on_grid": place, "place_on_grid": place})
        cfg = open_obj(None, "config", symmetry=symmetry)
        existing = {"_sym_wall_y", "volume"}
        try:
            walls = it.call(it.closure_of(f), [], dict(config=cfg, reduced_volume_shape=shape, key=Rat.atom("key"), existing_names=set(existing)))
        except Raised as r:
            raise AnalysisError(f"make_symmetry_walls raises: {r}")
        bad = []
        want_axes = [a for a in range(3) if symmetry[a] == -1]
        got_axes = [w.attrs.get("axis") for w in walls]
        if got_axes != want_axes:
            bad.append(("axes", got_axes, want_axes))
        names = [w.attrs.get("name") for w in walls]
        if len(set(names)) != len(names) or any(n in existing for n in names):
            bad.append(("names", names))
        for w in walls:
            a = w.attrs.get("axis")
            gst = w.attrs.get("_grid_slice_tuple")
            want = tuple((0, 1) if b == a else (0, shape[b]) for b in range(3))
            same = gst is not None and all(to_rat(x).equals(to_rat(y)) for p, q in zip(gst, want) for x, y in zip(p, q))
            if not same:
                bad.append(("slice", a, [[to_rat(x).fmt() for x in p] for p in gst] if gst else None))
            if w.cls is None or w.cls.name != "PerfectElectricConductor":
                bad.append(("class", getattr(w.cls, "name", None)))
            if w.attrs.get("direction") != "-" or w.attrs.get("_is_symmetry_wall") is not True:
                bad.append(("flags", w.attrs.get("direction"), w.attrs.get("_is_symmetry_wall")))
        ctx.ob("R34.3", f"make_symmetry_walls[{symmetry}]", not bad, "a PEC wall exactly on each electric (-1) axis: index 0..1 on its own axis, full reduced extent on the other two, min direction, symmetry-wall flag, fresh unique name; none on magnetic or non-symmetric axes", bad[:3], "walls on electric planes only")


def _wiring(ctx):
    ix = ctx.index
    po = ix.function("fdtdx.fdtd.initialization.place_objects")
    ctx.unit(po.where())
    sites = {"reduce_resolved_slices": [], "make_symmetry_walls": []}

    def visit(stmts, guards):
        for s in stmts:
            if isinstance(s, ast.If):
                visit(s.body, guards + [ast.unparse(s.test)])
                visit(s.orelse, guards + [f"not ({ast.unparse(s.test)})"])
            elif isinstance(s, (ast.For, ast.While, ast.With, ast.Try)):
                for blk in (getattr(s, "body", []), getattr(s, "orelse", []), getattr(s, "finalbody", [])):
                    visit(blk, guards)
            else:
                for c in ast.walk(s):
                    if isinstance(c, ast.Call) and ast.unparse(c.func) in sites:
                        sites[ast.unparse(c.func)].append(list(guards))

    visit(po.node.body, [])
    for fn, gs in sites.items():
        ok = len(gs) == 1 and any("has_symmetry" in g for g in gs[0])
        ctx.ob("R34.1", f"place_objects:{fn}", ok, f"{fn} is called once, under config.has_symmetry", gs, "guarded by has_symmetry")
    src = ast.unparse(po.node)
    ctx.ob("R34.2", "place_objects:unreduced-extent-stored", "_unreduced_grid_slice_tuple" in src and "unreduced_slices[name]" in src, "each surviving object records its unclipped extent", "_unreduced_grid_slice_tuple" in src, True)
    C = ix.cls("fdtdx.config.SimulationConfig")
    m = C.lookup_method("has_symmetry")
    if m is None:
        raise AnalysisError("SimulationConfig.has_symmetry vanished")
    it = ctx.fresh_interp()
    bad = [s for s in itertools.product((-1, 0, 1), repeat=3) if it.getattr(Obj(C, dict(symmetry=s), "cfg"), "has_symmetry") != any(x != 0 for x in s)]
    ctx.ob("R34.1", "SimulationConfig.has_symmetry", not bad, "true exactly when some axis has a non-zero symmetry entry (27 tuples)", bad[:3], "any(s != 0)")


def run(ctx):
    _axis_cases(ctx)
    _multi_axis(ctx)
    _validation(ctx)
    _walls(ctx)
    _wiring(ctx)
    ctx.require_count("C34", len(ctx.obligations), 80)
    ctx.trusted_base += ["order-type exhaustiveness: the reduction touches endpoints only through comparisons, min/max and +-", "syntax-tree guard extraction in place_objects"]
