"""C26 — resolved object placement satisfies every constraint."""

from __future__ import annotations

import copy
import itertools
from fractions import Fraction

from ..harness import open_obj
from ..index import AnalysisError
from ..poly import Rat
from ..values import Builtin, Obj, Raised, to_rat

LEVEL = "other"
EXPLANATION = (
    "Decides what each constraint applier of the placement solver writes, for every axis / side / option "
    "combination, by abstract interpretation against an opaque recording grid (axis_extent, anchor_coordinate, "
    "bounds_for_anchor, coord_to_index, length_to_cell_count, bounds_for_center are uninterpreted functions of "
    "their arguments): size constraint -> size(axis) = cells(axis, extent(other_axis, slice[other][other_axis]) * "
    "proportion + offset + grid_offset*spacing); position constraint -> bounds_for_anchor(axis, size, "
    "anchor(axis, slice[other][axis], other_pos) + margin + grid_margin*spacing, own_pos); extension -> the "
    "snapped anchor of the other object or the volume face of that direction; grid / real coordinate constraints "
    "-> the given edge on the stated side; shapes <-> slices bookkeeping b1 - b0 = size.  For each applier the "
    "set-once discipline is decided on three slot states: empty -> written; equal -> untouched and no error; "
    "different -> an error (exception or errors[...] entry), never an overwrite.  Also: the final validation "
    "accepts exactly v1 <= s1 < s2 <= v2 (exhaustive order-type enumeration) and flags unresolved axes; "
    "place_objects raises when any error is recorded; extension to the volume writes only 0 / the volume size and "
    "only into empty slots.  The nearest-edge snapping arithmetic inside the grid helpers is C37's subject."
)

INIT = "fdtdx.fdtd.initialization"
S = Rat.atom("s")  # uniform spacing


class GridRec:
    """Opaque resolved grid: every geometric query is an uninterpreted function of its arguments."""

    def __init__(self):
        self.calls = []

    def obj(self):
        def fn(name, n_out=1):
            def f(it, a, k):
                args = list(a) + [k[x] for x in sorted(k)]
                flat = []
                for x in args:
                    if isinstance(x, (tuple, list)):
                        flat += [to_rat(y) for y in x]
                    elif isinstance(x, str):
                        flat.append(x)
                    else:
                        flat.append(to_rat(x))
                self.calls.append((name, flat))
                if n_out == 1:
                    return Rat.atom(("call", name) + tuple(flat))
                return tuple(Rat.atom(("call", f"{name}[{i}]") + tuple(flat)) for i in range(n_out))

            return Builtin(name, f)

        return Obj(
            None,
            {
                "axis_extent": fn("extent"),
                "anchor_coordinate": fn("anchor"),
                "bounds_for_anchor": fn("bfa", 2),
                "coord_to_index": fn("c2i"),
                "length_to_cell_count": fn("l2c"),
                "bounds_for_center": fn("bfc", 2),
                "min_spacing": Rat.atom("min_spacing"),
                "shape": (Rat.atom("Gx"), Rat.atom("Gy"), Rat.atom("Gz")),
            },
            "grid",
        )


def call_atom(name, *args):
    return Rat.atom(("call", name) + tuple(a if isinstance(a, str) else to_rat(a) for a in args))


def _config(grid, nonuniform=False):
    return open_obj(None, "config", resolved_grid=grid.obj(), has_nonuniform_grid=nonuniform, uniform_spacing=Builtin("uniform_spacing", lambda it, a, k: S))


def _dicts(names=("obj", "other", "vol")):
    sl = {n: [[None, None], [None, None], [None, None]] for n in names}
    sh = {n: [None, None, None] for n in names}
    return sl, sh


def _objmap(ctx, names=("obj", "other", "vol")):
    return {n: open_obj(None, n, name=n) for n in names}


def _cls(ctx, name):
    return ctx.index.cls(f"fdtdx.objects.object.{name}")


def _same(a, b):
    if a is None or b is None:
        return a is b
    return to_rat(a).equals(to_rat(b))


def _fmt(x):
    if isinstance(x, (list, tuple)):
        return [_fmt(y) for y in x]
    return to_rat(x).fmt() if x is not None and not isinstance(x, str) else x


def _set_once(ctx, rule, label, run_fn, slots, errors_fn=None):
    """Generic set-once discipline.  run_fn(prefill: dict slot->value|None) -> (state_after, raised, changed_flag).
    slots: list of slot keys the applier is expected to write.  First run with all empty gives the values."""
    st0, raised0, ch0 = run_fn({})
    if raised0:
        ctx.ob(rule, f"{label}:empty", False, f"applier raises on empty slots: {raised0}", raised0, "write the computed values")
        return None
    vals = {k: st0.get(k) for k in slots}
    missing = [k for k, v in vals.items() if v is None]
    ctx.ob(rule, f"{label}:empty", not missing and ch0 is True, "empty slots are written and progress is reported", {str(k): _fmt(v) for k, v in vals.items()}, "all expected slots written, resolved=True")
    if missing:
        return None
    # equal: prefilled with exactly the computed values -> untouched, no error, no progress
    st1, raised1, ch1 = run_fn(dict(vals))
    ok = not raised1 and all(_same(st1.get(k), vals[k]) for k in slots) and ch1 is False
    ctx.ob(rule, f"{label}:equal", ok, "slots already holding the same value: no error, nothing rewritten, no progress reported", raised1 or {str(k): _fmt(st1.get(k)) for k in slots}, "unchanged")
    # different: each slot in turn prefilled with value+1 -> error, and the slot keeps its old value
    for k in slots:
        pre = {k: to_rat(vals[k]) + 1}
        st2, raised2, ch2 = run_fn(pre)
        kept = st2 is None or _same(st2.get(k), pre[k])
        ok = bool(raised2) and kept
        ctx.ob(rule, f"{label}:conflict:{k}", ok, "a slot already holding a different value is reported as an error, never overwritten or silently accepted", raised2 or {str(k): _fmt(st2.get(k)) if st2 else None}, "error")
    # partial agreement: one slot already holds the computed value, the others are still empty (the state in the middle
    # of a sweep when another constraint fixed that slot first) -> no error, the rest is written, progress reported
    if len(slots) > 1:
        for k in slots:
            st3, raised3, ch3 = run_fn({k: vals[k]})
            ok = not raised3 and all(_same(st3.get(j), vals[j]) for j in slots) and ch3 is True
            ctx.ob(rule, f"{label}:partial:{k}", ok, "with one slot already holding the agreeing value and the others empty the applier raises nothing, fills the empty slots and reports progress — whichever slot came first", raised3 or {str(j): _fmt(st3.get(j)) for j in slots}, "remaining slots written, resolved=True")
    return vals


# --------------------------------------------------------------------------------- appliers
def _size_constraint(ctx):
    f = ctx.index.function(f"{INIT}._apply_size_constraint")
    ctx.unit(f.where())
    C = _cls(ctx, "SizeConstraint")
    n = 0
    for axis, other_axis in itertools.product(range(3), range(3)):
        for off, goff in ((None, None), (Fraction(3, 2), 0), (None, 2), (Fraction(-1, 2), 3), (0, None)):
            def run_fn(pre, _a=axis, _o=other_axis, _off=off, _g=goff):
                it = ctx.fresh_interp()
                g = GridRec()
                cfg = _config(g)
                sl, sh = _dicts()
                for ax in range(3):
                    sl["other"][ax] = [Rat.atom(f"ob0_{ax}"), Rat.atom(f"ob1_{ax}")]
                    sh["other"][ax] = Rat.atom(f"osz_{ax}")
                if ("shape", _a) in pre:
                    sh["obj"][_a] = pre[("shape", _a)]
                c = Obj(C, dict(object="obj", other_object="other", axes=(_a,), other_axes=(_o,), proportions=(Rat.atom("p"),), offsets=(_off,), grid_offsets=(_g,)), "c")
                try:
                    res, sh2 = it.call(it.closure_of(f), [], dict(constraint=c, object_map=_objmap(ctx), config=cfg, shape_dict=sh, slice_dict=sl))
                except Raised as r:
                    return {("shape", _a): sh["obj"][_a]}, str(r), None
                return {("shape", _a): sh2["obj"][_a]}, None, res

            vals = _set_once(ctx, "R26.1", f"_apply_size_constraint[axis{axis}<-other{other_axis},offset={off},grid_offset={goff}]", run_fn, [("shape", axis)])
            n += 1
            if vals is None:
                continue
            length = call_atom("extent", other_axis, Rat.atom(f"ob0_{other_axis}"), Rat.atom(f"ob1_{other_axis}")) * Rat.atom("p")
            if off is not None:
                length = length + off
            if goff:
                length = length + goff * S
            want = call_atom("l2c", axis, length, "nearest")
            got = vals[("shape", axis)]
            ctx.ob("R26.5", f"_apply_size_constraint[axis{axis}<-other{other_axis},offset={off},grid_offset={goff}]:value", _same(got, want), "size = cells(axis, extent(other axis, other's slice on that axis) * proportion + offset + grid_offset*spacing)", _fmt(got), want.fmt())
    ctx.require_count("R26 size constraint cases", n, 45)


def _position_constraint(ctx, rule="R26.1", value_rule="R26.5"):
    f = ctx.index.function(f"{INIT}._apply_position_constraint")
    ctx.unit(f.where())
    C = _cls(ctx, "PositionConstraint")
    n = 0
    for axis in range(3):
        for margin, gmargin in ((None, None), (Fraction(3, 2), None), (None, 2), (Fraction(3, 2), 2), (0, 0), (Fraction(-1, 4), 0), (0, -1)):
            def run_fn(pre, _a=axis, _m=margin, _g=gmargin):
                it = ctx.fresh_interp()
                g = GridRec()
                cfg = _config(g)
                sl, sh = _dicts()
                for ax in range(3):
                    sl["other"][ax] = [Rat.atom(f"ob0_{ax}"), Rat.atom(f"ob1_{ax}")]
                    sh["obj"][ax] = Rat.atom(f"sz_{ax}")
                for (kind, ax, side), v in pre.items():
                    sl["obj"][ax][side] = v
                c = Obj(C, dict(object="obj", other_object="other", axes=(_a,), object_positions=(Rat.atom("pos"),), other_object_positions=(Rat.atom("opos"),), margins=(_m,), grid_margins=(_g,)), "c")
                try:
                    res, sl2 = it.call(it.closure_of(f), [], dict(constraint=c, object_map=_objmap(ctx), config=cfg, shape_dict=sh, slice_dict=sl))
                except Raised as r:
                    return {("slice", _a, 0): sl["obj"][_a][0], ("slice", _a, 1): sl["obj"][_a][1]}, str(r), None
                return {("slice", _a, 0): sl2["obj"][_a][0], ("slice", _a, 1): sl2["obj"][_a][1]}, None, res

            label = f"_apply_position_constraint[axis{axis},margin={margin},grid_margin={gmargin}]"
            vals = _set_once(ctx, rule, label, run_fn, [("slice", axis, 0), ("slice", axis, 1)])
            n += 1
            if vals is None:
                continue
            anchor = call_atom("anchor", axis, Rat.atom(f"ob0_{axis}"), Rat.atom(f"ob1_{axis}"), Rat.atom("opos"))
            if margin is not None:
                anchor = anchor + margin
            if gmargin:
                anchor = anchor + gmargin * S
            want = [call_atom(f"bfa[{i}]", axis, Rat.atom(f"sz_{axis}"), anchor, Rat.atom("pos")) for i in (0, 1)]
            got = [vals[("slice", axis, 0)], vals[("slice", axis, 1)]]
            ctx.ob(value_rule, f"{label}:value", all(_same(x, y) for x, y in zip(got, want)), "bounds = bounds_for_anchor(axis, own size, anchor(axis, other's slice on the same axis, other_pos) + margin + grid_margin*spacing, own_pos)", _fmt(got), _fmt(want))
    ctx.require_count("R26 position constraint cases", n, 21)


def _extension_constraint(ctx):
    f = ctx.index.function(f"{INIT}._apply_size_extension_constraint")
    ctx.unit(f.where())
    C = _cls(ctx, "SizeExtensionConstraint")
    n = 0
    for axis, direction, has_other in itertools.product(range(3), "-+", (True, False)):
        for off, goff in (((None, None), (Fraction(1, 2), 2), (0, 0)) if has_other else ((None, None),)):
            side = 0 if direction == "-" else 1

            def run_fn(pre, _a=axis, _d=direction, _h=has_other, _off=off, _g=goff, _s=side):
                it = ctx.fresh_interp()
                g = GridRec()
                cfg = _config(g)
                sl, sh = _dicts()
                for ax in range(3):
                    sl["other"][ax] = [Rat.atom(f"ob0_{ax}"), Rat.atom(f"ob1_{ax}")]
                    sl["vol"][ax] = [Rat.atom(f"v0_{ax}"), Rat.atom(f"v1_{ax}")]
                for (kind, ax, sd), v in pre.items():
                    sl["obj"][ax][sd] = v
                c = Obj(C, dict(object="obj", other_object=("other" if _h else None), axis=_a, direction=_d, other_position=Rat.atom("opos"), offset=_off, grid_offset=_g), "c")
                try:
                    res, sl2 = it.call(it.closure_of(f), [], dict(constraint=c, object_map=_objmap(ctx), config=cfg, slice_dict=sl, volume_name="vol"))
                except Raised as r:
                    return {("slice", _a, _s): sl["obj"][_a][_s]}, str(r), None
                other_side = sl2["obj"][_a][1 - _s]
                if other_side is not None:
                    return {("slice", _a, _s): None}, None, res  # wrote the wrong side: reported as "missing"
                return {("slice", _a, _s): sl2["obj"][_a][_s]}, None, res

            label = f"_apply_size_extension_constraint[axis{axis},{direction},{'other' if has_other else 'volume'},offset={off},grid_offset={goff}]"
            vals = _set_once(ctx, "R26.1", label, run_fn, [("slice", axis, side)])
            n += 1
            if vals is None:
                continue
            if has_other:
                coord = call_atom("anchor", axis, Rat.atom(f"ob0_{axis}"), Rat.atom(f"ob1_{axis}"), Rat.atom("opos"))
                if off is not None:
                    coord = coord + off
                if goff:
                    coord = coord + goff * S
                want = call_atom("c2i", axis, coord, "nearest")
            else:
                want = Rat.atom(f"v{side}_{axis}")
            got = vals[("slice", axis, side)]
            ctx.ob("R26.5", f"{label}:value", _same(got, want), "the extended side is the snapped anchor of the other object (same axis) or the volume face of that direction; the opposite side is untouched", _fmt(got), want.fmt())
    ctx.require_count("R26 extension constraint cases", n, 24)


def _coordinate_constraints(ctx):
    n = 0
    for fname, cname, real in (("_apply_grid_coordinate_constraint", "GridCoordinateConstraint", False), ("_apply_real_coordinate_constraint", "RealCoordinateConstraint", True)):
        f = ctx.index.function(f"{INIT}.{fname}")
        ctx.unit(f.where())
        C = _cls(ctx, cname)
        for axis, sidech in itertools.product(range(3), "-+"):
            side = 0 if sidech == "-" else 1

            def run_fn(pre, _a=axis, _sc=sidech, _s=side):
                it = ctx.fresh_interp()
                g = GridRec()
                cfg = _config(g)
                sl, _ = _dicts()
                for (kind, ax, sd), v in pre.items():
                    sl["obj"][ax][sd] = v
                c = Obj(C, dict(object="obj", axes=(_a,), sides=(_sc,), coordinates=(Rat.atom("coord"),)), "c")
                try:
                    res, sl2 = it.call(it.closure_of(f), [], dict(constraint=c, object_map=_objmap(ctx), slice_dict=sl, config=cfg))
                except Raised as r:
                    return {("slice", _a, _s): sl["obj"][_a][_s]}, str(r), None
                if sl2["obj"][_a][1 - _s] is not None:
                    return {("slice", _a, _s): None}, None, res
                return {("slice", _a, _s): sl2["obj"][_a][_s]}, None, res

            label = f"{fname}[axis{axis},{sidech}]"
            vals = _set_once(ctx, "R26.1", label, run_fn, [("slice", axis, side)])
            n += 1
            if vals is None:
                continue
            want = call_atom("c2i", axis, Rat.atom("coord"), "nearest") if real else Rat.atom("coord")
            ctx.ob("R26.5", f"{label}:value", _same(vals[("slice", axis, side)], want), "the stated side is put on the given edge (real coordinates snapped to the nearest edge of the same axis)", _fmt(vals[("slice", axis, side)]), want.fmt())
    ctx.require_count("R26 coordinate constraint cases", n, 12)


def _progress_flags(ctx):
    """The progress flag an applier returns is true iff it wrote something — also for multi-axis constraints
    whose axes are in different states (the fixpoint loop uses the flag to decide when nothing changed)."""
    ix = ctx.index
    SC = _cls(ctx, "SizeConstraint")
    PC = _cls(ctx, "PositionConstraint")
    fs = ix.function(f"{INIT}._apply_size_constraint")
    fp = ix.function(f"{INIT}._apply_position_constraint")
    n = 0
    for states in itertools.product(("empty", "equal"), repeat=2):
        for axes in ((0, 1), (2, 0), (1, 2)):
            # size constraint
            it = ctx.fresh_interp()
            g = GridRec()
            cfg = _config(g)
            sl, sh = _dicts()
            for ax in range(3):
                sl["other"][ax] = [Rat.atom(f"ob0_{ax}"), Rat.atom(f"ob1_{ax}")]
                sh["other"][ax] = Rat.atom(f"osz_{ax}")
            for ax, st in zip(axes, states):
                if st == "equal":
                    sh["obj"][ax] = call_atom("l2c", ax, call_atom("extent", ax, Rat.atom(f"ob0_{ax}"), Rat.atom(f"ob1_{ax}")) * Rat.atom("p"), "nearest")
            c = Obj(SC, dict(object="obj", other_object="other", axes=axes, other_axes=axes, proportions=(Rat.atom("p"),) * 2, offsets=(None, None), grid_offsets=(None, None)), "c")
            try:
                res, _ = it.call(it.closure_of(fs), [], dict(constraint=c, object_map=_objmap(ctx), config=cfg, shape_dict=sh, slice_dict=sl))
            except Raised as r:
                res = f"raise: {r}"
            want = "empty" in states
            n += 1
            ctx.ob("R26.6", f"_apply_size_constraint[axes={axes},states={states}]:progress-flag", res is want, "the returned flag is true iff some axis was written (a later, already-consistent axis must not hide an earlier write)", res, want)
            # position constraint
            it = ctx.fresh_interp()
            g = GridRec()
            cfg = _config(g)
            sl, sh = _dicts()
            for ax in range(3):
                sl["other"][ax] = [Rat.atom(f"ob0_{ax}"), Rat.atom(f"ob1_{ax}")]
                sh["obj"][ax] = Rat.atom(f"sz_{ax}")
            for ax, st in zip(axes, states):
                if st == "equal":
                    anchor = call_atom("anchor", ax, Rat.atom(f"ob0_{ax}"), Rat.atom(f"ob1_{ax}"), Rat.atom("opos"))
                    sl["obj"][ax] = [call_atom(f"bfa[{i}]", ax, Rat.atom(f"sz_{ax}"), anchor, Rat.atom("pos")) for i in (0, 1)]
            c = Obj(PC, dict(object="obj", other_object="other", axes=axes, object_positions=(Rat.atom("pos"),) * 2, other_object_positions=(Rat.atom("opos"),) * 2, margins=(None, None), grid_margins=(None, None)), "c")
            try:
                res, _ = it.call(it.closure_of(fp), [], dict(constraint=c, object_map=_objmap(ctx), config=cfg, shape_dict=sh, slice_dict=sl))
            except Raised as r:
                res = f"raise: {r}"
            n += 1
            ctx.ob("R26.6", f"_apply_position_constraint[axes={axes},states={states}]:progress-flag", res is want, "the returned flag is true iff some axis was written", res, want)
    ctx.require_count("R26.6 progress-flag cases", n, 24)


def _bookkeeping(ctx):
    """_update_grid_slices_from_shapes / _update_grid_shapes_from_slices: b1 - b0 = size, conflicts are errors."""
    ix = ctx.index
    f1 = ix.function(f"{INIT}._update_grid_slices_from_shapes")
    f2 = ix.function(f"{INIT}._update_grid_shapes_from_slices")
    ctx.unit(f1.where())
    ctx.unit(f2.where())
    n = 0
    for axis in range(3):
        b0, b1, sz = Rat.atom("b0"), Rat.atom("b1"), Rat.atom("sz")
        cases = [
            ("lower+size", f1, (b0, None, sz), (b0, b0 + sz, sz), False),
            ("upper+size", f1, (None, b1, sz), (b1 - sz, b1, sz), False),
            ("size-only", f1, (None, None, sz), (None, None, sz), False),
            ("consistent", f1, (b0, b0 + sz, sz), (b0, b0 + sz, sz), False),
            ("conflict", f1, (b0, b0 + sz + 1, sz), (b0, b0 + sz + 1, sz), True),
            ("both-bounds", f2, (b0, b1, None), (b0, b1, b1 - b0), False),
            ("one-bound", f2, (b0, None, None), (b0, None, None), False),
            ("consistent", f2, (b0, b0 + sz, sz), (b0, b0 + sz, sz), False),
            ("conflict", f2, (b0, b0 + sz - 2, sz), (b0, b0 + sz - 2, sz), True),
        ]
        for tag, fn, (i0, i1, isz), (w0, w1, wsz), want_err in cases:
            it = ctx.fresh_interp()
            sl, sh = _dicts(("obj",))
            sl["obj"][axis] = [i0, i1]
            sh["obj"][axis] = isz
            errors = {"obj": None}
            try:
                res = it.call(it.closure_of(fn), [], dict(object_map=_objmap(ctx, ("obj",)), shape_dict=sh, slice_dict=sl, errors=errors))
                raised = None
            except Raised as r:
                res, raised = None, str(r)
            got = (sl["obj"][axis][0], sl["obj"][axis][1], sh["obj"][axis])
            err = bool(raised) or bool(errors.get("obj"))
            ok = all(_same(x, y) for x, y in zip(got, (w0, w1, wsz))) and err == want_err
            n += 1
            ctx.ob("R26.1", f"{fn.name}[axis{axis},{tag}]", ok, "slices and sizes stay related by b1 - b0 = size; a disagreement is an error and nothing is overwritten", (_fmt(got), "error" if err else "no error"), (_fmt((w0, w1, wsz)), "error" if want_err else "no error"))
    ctx.require_count("R26 bookkeeping cases", n, 27)


def _extend_to_inf(ctx):
    f = ctx.index.function(f"{INIT}._extend_to_inf_if_possible")
    ctx.unit(f.where())
    n = 0
    vol_shape = [Rat.atom("V0"), Rat.atom("V1"), Rat.atom("V2")]
    for axis in range(3):
        for b0, b1, sz in itertools.product((None, Rat.atom("b0")), (None, Rat.atom("b1")), (None, Rat.atom("sz"))):
            it = ctx.fresh_interp()
            sl, sh = _dicts(("obj", "vol"))
            for ax in range(3):
                sl["vol"][ax] = [0, vol_shape[ax]]
                sh["vol"][ax] = vol_shape[ax]
                # the other axes of obj are fully known so that only `axis` is exercised
                if ax != axis:
                    sl["obj"][ax] = [Rat.atom(f"k0_{ax}"), Rat.atom(f"k1_{ax}")]
                    sh["obj"][ax] = Rat.atom(f"ks_{ax}")
            sl["obj"][axis] = [b0, b1]
            sh["obj"][axis] = sz
            before = copy.deepcopy([[x for x in p] for p in sl["obj"]])
            try:
                res, sl2 = it.call(it.closure_of(f), [], dict(constraints=[], object_map=_objmap(ctx, ("obj", "vol")), slice_dict=sl, shape_dict=sh, volume_name="vol"))
            except Raised as r:
                raise AnalysisError(f"_extend_to_inf_if_possible raises: {r}")
            a0, a1 = sl2["obj"][axis]
            # oracle: only empty slots change; lower -> 0; upper -> volume size; a side computable from size+other side is left alone
            if b0 is not None and b1 is not None:
                want = (b0, b1)
            elif b0 is not None:
                want = (b0, None if sz is not None else vol_shape[axis])
            elif b1 is not None:
                want = (None if sz is not None else 0, b1)
            else:
                want = (0, None if sz is not None else vol_shape[axis])
            untouched = all(_same(sl2["obj"][ax][s], before[ax][s]) for ax in range(3) for s in (0, 1) if ax != axis)
            ok = _same(a0, want[0]) and _same(a1, want[1]) and untouched
            n += 1
            ctx.ob("R26.4", f"_extend_to_inf_if_possible[axis{axis},b0={'set' if b0 is not None else 'None'},b1={'set' if b1 is not None else 'None'},size={'set' if sz is not None else 'None'}]", ok, "only empty slots are filled, with 0 (lower) or the volume size (upper); sides derivable from a known size are left to the bookkeeping", _fmt((a0, a1)), _fmt(want))
    ctx.require_count("R26.4 cases", n, 24)


def _validation(ctx):
    """resolve_object_constraints: final acceptance predicate, exhaustive over order types of (s1, s2, v1, v2)."""
    ix = ctx.index
    f = ix.function(f"{INIT}.resolve_object_constraints")
    ctx.unit(f.where())
    from ..harness import stub_repo_calls

    bad = []
    n = 0
    SO = ix.cls("fdtdx.objects.object.SimulationObject")
    for axis in range(3):
        for s1, s2, v1, v2 in itertools.product(range(5), repeat=4):
            if v1 >= v2:
                continue
            it = ctx.fresh_interp()
            sl = {"vol": [[0, 9], [0, 9], [0, 9]], "obj": [[2, 5], [2, 5], [2, 5]]}
            sl["vol"][axis] = [v1, v2]
            sl["obj"][axis] = [s1, s2]
            stub_repo_calls(
                it,
                {
                    f"{INIT}._apply_constraints_iteratively": lambda it_, a, k, _sl=sl: (_sl, {"vol": None, "obj": None}),
                    f"{INIT}._resolve_grid_from_volume": lambda it_, a, k: (a[1] if len(a) > 1 else k.get("config")),
                    f"{INIT}._resolve_volume_name": lambda it_, a, k: "vol",
                    f"{INIT}._check_objects_names_from_constraints": lambda it_, a, k: [],
                },
            )
            objs = [Obj(SO, {"name": "vol"}, "vol"), Obj(SO, {"name": "obj"}, "obj")]
            try:
                res, errors = it.call(it.closure_of(f), [], dict(objects=objs, constraints=[], config=open_obj(None, "config")))
            except Raised as r:
                raise AnalysisError(f"resolve_object_constraints raises in the validation phase: {r}")
            accepted = not errors.get("obj")
            want = v1 <= s1 < s2 <= v2
            n += 1
            if accepted != want:
                bad.append((axis, (s1, s2, v1, v2), accepted, want))
    ctx.ob("R26.3", "resolve_object_constraints:bounds-predicate", not bad, f"an object is accepted iff v1 <= s1 < s2 <= v2 on every axis ({n} order-type representatives: all orderings of four integers incl. ties, per axis)", bad[:3], "accepted <=> v1 <= s1 < s2 <= v2")
    # unresolved axes are flagged
    for axis, side in itertools.product(range(3), (0, 1)):
        it = ctx.fresh_interp()
        sl = {"vol": [[0, 9], [0, 9], [0, 9]], "obj": [[2, 5], [2, 5], [2, 5]]}
        sl["obj"][axis][side] = None
        stub_repo_calls(
            it,
            {
                f"{INIT}._apply_constraints_iteratively": lambda it_, a, k, _sl=sl: (_sl, {"vol": None, "obj": None}),
                f"{INIT}._resolve_grid_from_volume": lambda it_, a, k: (a[1] if len(a) > 1 else k.get("config")),
                f"{INIT}._resolve_volume_name": lambda it_, a, k: "vol",
                f"{INIT}._check_objects_names_from_constraints": lambda it_, a, k: [],
            },
        )
        objs = [Obj(SO, {"name": "vol"}, "vol"), Obj(SO, {"name": "obj"}, "obj")]
        res, errors = it.call(it.closure_of(f), [], dict(objects=objs, constraints=[], config=open_obj(None, "config")))
        ctx.ob("R26.3", f"resolve_object_constraints:unresolved[axis{axis},side{side}]", bool(errors.get("obj")), "an object with an unresolved bound is flagged, never silently accepted", errors.get("obj"), "error entry")


def _loop_rules(ctx):
    """_apply_constraints_iteratively: exceptions of an applier become errors[...]; every constraint class is
    dispatched to its own applier; extension and the unresolved handler run only when nothing changed."""
    import ast

    ix = ctx.index
    f = ix.function(f"{INIT}._apply_constraints_iteratively")
    ctx.unit(f.where())
    want = {
        "GridCoordinateConstraint": "_apply_grid_coordinate_constraint",
        "RealCoordinateConstraint": "_apply_real_coordinate_constraint",
        "PositionConstraint": "_apply_position_constraint",
        "SizeConstraint": "_apply_size_constraint",
        "SizeExtensionConstraint": "_apply_size_extension_constraint",
    }
    found = {}
    tries = [n for n in ast.walk(f.node) if isinstance(n, ast.Try)]
    for t in tries:
        for n in ast.walk(t):
            if isinstance(n, ast.If) and isinstance(n.test, ast.Call) and ast.unparse(n.test.func) == "isinstance" and len(n.test.args) == 2:
                cname = ast.unparse(n.test.args[1])
                calls = [ast.unparse(c.func) for s in n.body for c in ast.walk(s) if isinstance(c, ast.Call)]
                found[cname] = [c for c in calls if c.startswith("_apply_")]
    for cname, fn in want.items():
        ctx.ob("R26.2", f"_apply_constraints_iteratively:dispatch:{cname}", found.get(cname) == [fn], "each constraint class is applied by its own applier, inside the try block", found.get(cname), [fn])
    handlers_ok = bool(tries) and all(any(isinstance(s, ast.Assign) and "errors[" in ast.unparse(s.targets[0]) for h in t.handlers for s in h.body) for t in tries)
    ctx.ob("R26.2", "_apply_constraints_iteratively:exceptions-recorded", handlers_ok, "an exception raised by an applier is recorded in errors[...] (soft raise), not swallowed", [ast.unparse(h)[:120] for t in tries for h in t.handlers], "errors[c.object] = ...")
    _exit_rule(ctx, "R26.7")
    # every constraint class exported by the object module has a dispatch arm
    obj_mod = ix.module("fdtdx.objects.object")
    classes = sorted(c for c in obj_mod.classes if c.endswith("Constraint"))
    ctx.ob("R26.2", "_apply_constraints_iteratively:exhaustive", set(classes) <= set(found), "every constraint class has a dispatch arm", sorted(set(classes) - set(found)), "none missing")
    # place_objects raises when any error is recorded
    po = ix.function(f"{INIT}.place_objects")
    ctx.unit(po.where())
    src = ast.unparse(po.node)
    raises = [n for n in ast.walk(po.node) if isinstance(n, ast.Raise)]
    uses = "resolve_object_constraints" in src
    guarded = False
    for n in ast.walk(po.node):
        if isinstance(n, ast.If) and "errors" in ast.unparse(n.test) and any(isinstance(s, ast.Raise) for s in ast.walk(n)):
            guarded = True
    ctx.ob("R26.2", "place_objects:errors-raise", uses and guarded and bool(raises), "place_objects resolves through resolve_object_constraints and raises when an error entry is non-empty", {"calls_resolver": uses, "raise_under_errors_test": guarded}, "both true")


def _exit_rule(ctx, rule):
    """The fixpoint iteration may end only after a complete constraint sweep that changed nothing: every
    constraint is then applied at least once against the final slices, so a constraint that was skipped while its
    reference object was unknown cannot be silently violated by an accepted placement."""
    import ast

    ix = ctx.index
    f = ix.function(f"{INIT}._apply_constraints_iteratively")
    sweeps = [n for n in ast.walk(f.node) if isinstance(n, ast.For) and ast.unparse(n.iter) == "constraints"]
    outers = [n for n in ast.walk(f.node) if isinstance(n, (ast.For, ast.While)) and sweeps and sweeps[0] in ast.walk(n) and n is not sweeps[0]]
    if len(sweeps) != 1 or len(outers) != 1:
        raise AnalysisError("cannot locate the fixpoint iteration and its constraint sweep")
    outer, sweep = outers[0], sweeps[0]
    idx_sweep = next(i for i, s in enumerate(outer.body) if sweep in ast.walk(s))
    exits = []

    def visit(stmts, guards, top_index):
        for i, s in enumerate(stmts):
            ti = i if top_index is None else top_index
            if isinstance(s, (ast.Break, ast.Return)):
                exits.append((ti, list(guards), type(s).__name__))
            elif isinstance(s, ast.If):
                visit(s.body, guards + [ast.unparse(s.test)], ti)
                visit(s.orelse, guards + [f"not ({ast.unparse(s.test)})"], ti)
            elif isinstance(s, (ast.With, ast.Try)):
                for blk in (getattr(s, "body", []), getattr(s, "orelse", []), getattr(s, "finalbody", [])):
                    visit(blk, guards, ti)
                for h in getattr(s, "handlers", []):
                    visit(h.body, guards, ti)
            # nested loops own their breaks

    visit(outer.body, [], None)
    bad = [(ti, g, k) for ti, g, k in exits if not (ti > idx_sweep and any(x.replace(" ", "") == "notchanged" for x in g))]
    ctx.ob(rule, "_apply_constraints_iteratively:exit-after-change-free-sweep", bool(exits) and not bad, "every exit of the fixpoint iteration lies after the constraint sweep and under `not changed`: placement is only accepted after each constraint has been applied to the final slices (no early exit once all slots are filled)", [(g, k, "before the sweep" if ti <= idx_sweep else "after the sweep") for ti, g, k in bad], "exits guarded by `not changed` after the sweep")


def run(ctx):
    _size_constraint(ctx)
    _position_constraint(ctx)
    _extension_constraint(ctx)
    _coordinate_constraints(ctx)
    _progress_flags(ctx)
    _bookkeeping(ctx)
    _extend_to_inf(ctx)
    _validation(ctx)
    _loop_rules(ctx)
    # the geometric helpers the appliers call (uninterpreted above) realise the requests on a generic non-uniform axis:
    # C37's exhaustive snapping / anchoring tables, evaluated here because "satisfies every constraint" rests on them
    from . import c37

    n0 = len(ctx.obligations)
    c37._snapping(ctx)
    for o in ctx.obligations[n0:]:
        o.rule = "R26.8"
    ctx.require_count("R26.8 helper tables", len(ctx.obligations) - n0, 5)
    ctx.require_count("C26", len(ctx.obligations), 400)
    ctx.trusted_base += ["opaque recording grid (geometric helpers are uninterpreted functions of their arguments; their arithmetic is C37)", "finite tables over axis / side / option values with concrete non-trivial numbers for optional margins and offsets"]
    ctx.assume("uniform grids for index-space margins/offsets (non-uniform grids reject non-zero ones before use)")
