"""C01 — discrete electromagnetic energy is conserved, lossy media only dissipate."""

from __future__ import annotations

import itertools

from ..absint import region_key
from ..harness import stub_repo_calls
from ..index import AnalysisError
from ..kernel import clean, curl_oracle, e_, levi, metric_stub, run_curl, scale_atom
from ..ndarr import Dim, NdArr, field_atom, pad_tags, strip_pad
from ..poly import I, Rat, apply_fn
from ..scene import SP, Scene, vec
from ..values import Obj, Raised, to_rat

LEVEL = "other"
EXPLANATION = (
    "Decides the skeleton that makes the Yee scheme conservative, by abstract interpretation of the kernel on "
    "symbolic fields: curl_E / curl_H are exactly the Levi-Civita curl with forward / backward one-cell "
    "differences (hence mutual adjoints under zero / wrap halos); every derivative along axis a carries the "
    "metric scale of axis a and of its own stencil, and the backward metric is the dual cell width "
    "(w_i + w_{i-1})/2 with the first cell replicated; pad_fields pads one cell per side, wrap iff the axis is "
    "periodic; Bloch ghosts are phase / conj(phase) = exp(+-i k L); PEC / PMC zero exactly the tangential "
    "components on their slab and override only their own half-step hook; update_E / update_H equal the "
    "semi-implicit normal forms ((1-a)F +- c*inv*curl)/(1+a) on every material-tier / conductivity path, with "
    "|(1-a)/(1+a)| <= 1 for a >= 0; sources and walls follow the algebra; forward() steps E before H.  Does "
    "not decide the energy identity itself, the full-tensor averaging or round-off."
)

ETA0 = None


def _eta0(ctx, it):
    return to_rat(it.lookup_global(ctx.index.module("fdtdx.constants"), "eta0"))


def run(ctx):
    ix = ctx.index
    # ------------------------------------------------------------ R1.1 curls
    for which, F, kind in (("curl_E", "E", "forward"), ("curl_H", "H", "backward")):
        for nonuni in (False, True):
            curl, _, _ = run_curl(ctx, which, nonuniform=nonuni)
            want = curl_oracle(F, kind, scaled=nonuni)
            for i in range(3):
                got = clean(curl.data[i])
                ctx.ob(
                    "R1.1" if not nonuni else "R1.3",
                    f"fdtdx.core.physics.curl.{which}[{i}]:{'nonuniform' if nonuni else 'uniform'}",
                    got.equals(want[i]),
                    f"component {i} is sum eps_iaj d_a F_j with {kind} differences" + (" each scaled by the metric of its own axis and stencil" if nonuni else ""),
                    got.fmt()[:300],
                    want[i].fmt()[:300],
                )
    # adjoint pairing of the two oracle tables (structural form of <curl_E E,H> = <E,curl_H H>)
    pairs = 0
    for i, a, j in itertools.product(range(3), repeat=3):
        if levi(i, a, j):
            pairs += 1
            ctx.ob("R1.2", f"adjoint-pair:({i},{a},{j})", levi(i, a, j) == -levi(j, a, i), "term (i,a,j,+s,fwd) of curl_E pairs with (j,a,i,-s,bwd) of curl_H", levi(j, a, i), -levi(i, a, j), nontrivial=False)
    _metric_rules(ctx)
    _adjointness_concrete(ctx)
    _padding_rules(ctx)
    _bloch_rules(ctx)
    _wall_rules(ctx)
    _update_rules(ctx)
    _order_rules(ctx)
    ctx.require_count("C01", len(ctx.obligations), 60)
    ctx.assume("non-negative conductivities, positive inverse material parameters and Courant number (documented domains)")


# ------------------------------------------------------------- adjointness on a concrete cell
def _adjointness_concrete(ctx):
    """<H, curl_E E>_{V_H} == <E, curl_H H>_{V_E} on a small concrete grid with free field and cell-width symbols: the
    summation-by-parts identity from which the conservation of W = sum V_E eps E^2 + sum V_H mu H^{n+1/2} H^{n-1/2}
    by the leapfrog follows.  V_E(c) = w_c * d_a * d_b, V_H(c) = d_c * w_a * w_b with w the cell widths and d the dual
    widths (d_i = (w_i + w_{i-1}) / 2, wrapping on a periodic axis)."""
    from . import c09

    ix = ctx.index
    fE, fH = ix.function("fdtdx.core.physics.curl.curl_E"), ix.function("fdtdx.core.physics.curl.curl_H")
    cases = [
        ("uniform:all-periodic", (3, 2, 2), (True, True, True), False),
        ("stretched:all-periodic", (3, 2, 2), (True, True, True), True),
        ("stretched:x-periodic,yz-truncated", (3, 2, 2), (True, False, False), True),
        ("stretched:yz-periodic", (2, 3, 2), (False, True, True), True),
    ]
    for label, shape, periodic, stretched in cases:
        widths = [[Rat.atom((f"w{a}", i)) for i in range(shape[a])] for a in range(3)] if stretched else None
        it, sc, objs, cfg, _ = c09._supercell_scene(ctx, shape, periodic, (0, 0, 0), widths)
        E, H = c09._sym_arr("E", 3, shape), c09._sym_arr("H", 3, shape)
        try:
            Ep = it.call_function("fdtdx.fdtd.update.pad_fields_for_boundaries", E, objs, cfg)
            Hp = it.call_function("fdtdx.fdtd.update.pad_fields_for_boundaries", H, objs, cfg)
            cE, _ = it.call(it.closure_of(fE), [cfg, Ep, {}, objs, True], {})
            cH, _ = it.call(it.closure_of(fH), [cfg, Hp, {}, objs, True], {})
        except Raised as r:
            raise AnalysisError(f"curl on the concrete cell raises: {r}")
        if not (isinstance(cE, NdArr) and isinstance(cH, NdArr) and cE.shape == (3,) + shape and cH.shape == (3,) + shape):
            raise AnalysisError(f"curl on the concrete cell returns {getattr(cE, 'shape', cE)} / {getattr(cH, 'shape', cH)}")

        def w(a, i):
            return to_rat(widths[a][i]) if stretched else Rat.atom("res")

        def d(a, i):
            if i == 0 and not periodic[a]:
                return w(a, 0)  # below a truncated domain the halo is zero: the weight of that term is immaterial
            return (w(a, i) + w(a, (i - 1) % shape[a])) / 2

        from ..poly import derivative

        # bilinear forms compared coefficient by coefficient (one small rational form per pair of field entries)
        coef = {}
        for c in range(3):
            o = [a for a in range(3) if a != c]
            for p in itertools.product(*[range(n) for n in shape]):
                flat = ((c * shape[0] + p[0]) * shape[1] + p[1]) * shape[2] + p[2]
                VH = d(c, p[c]) * w(o[0], p[o[0]]) * w(o[1], p[o[1]])
                VE = w(c, p[c]) * d(o[0], p[o[0]]) * d(o[1], p[o[1]])
                h_at, e_at = ("H", c) + p, ("E", c) + p
                ce, ch = to_rat(cE.data[flat]), to_rat(cH.data[flat])
                for a_ in ce.atoms():
                    if isinstance(a_, tuple) and a_ and a_[0] == "E":
                        coef[(h_at, a_)] = coef.get((h_at, a_), Rat.const(0)) + VH * derivative(ce, a_)
                for a_ in ch.atoms():
                    if isinstance(a_, tuple) and a_ and a_[0] == "H":
                        coef[(a_, e_at)] = coef.get((a_, e_at), Rat.const(0)) - VE * derivative(ch, a_)
        nonzero = [(k, v.fmt()[:160]) for k, v in coef.items() if not v.is_zero()]
        ok = not nonzero and len(coef) >= 4 * 3 * shape[0] * shape[1] * shape[2] // 2
        diff = Rat.const(0) if not nonzero else Rat.atom("nonzero")
        ctx.ob("R1.8", f"curl-adjointness[{label}]{shape}", ok, "sum V_H H . curl_E(E) == sum V_E E . curl_H(H) for all fields and cell widths (primal / dual Yee volumes, dual width wrapping on periodic axes): the two curls are adjoint in the energy inner product, so the lossless leapfrog conserves the discrete energy exactly", nonzero[:2] if nonzero else f"{len(coef)} coefficient pairs cancel", "0")


# --------------------------------------------------------------------- metric
def _metric_rules(ctx):
    """_metric_scale: forward widths are the primal widths, backward widths the dual widths."""
    ix = ctx.index
    f = ix.function("fdtdx.core.physics.curl._metric_scale")
    ctx.unit(f.where())
    c0 = None
    for axis, stencil in itertools.product(range(3), ("forward", "backward")):
        it = ctx.fresh_interp()
        sc = Scene(ix, it)
        n = ("Nx", "Ny", "Nz")[axis]
        wdim = (Dim(axis, n),)

        def cell_widths(it_, a, k, _axis=axis, _wdim=wdim):
            ax = a[0] if a else k.get("axis")
            if ax != _axis:
                raise AnalysisError(f"_metric_scale(axis={_axis}) asks the grid for the widths of axis {ax}")
            return NdArr((), [field_atom("w", (0, 0, 0), (_axis,))], _wdim)

        from ..values import Builtin

        grid = Obj(None, {"cell_widths": Builtin("cell_widths", cell_widths)}, "grid")
        cfg = sc.config(has_nonuniform_grid=True, resolved_grid=grid, courant_number=Rat.atom("cn"))
        shape = (Rat.atom("Nx"), Rat.atom("Ny"), Rat.atom("Nz"))
        try:
            res = it.call(it.closure_of(f), [cfg, axis, shape, stencil], {})
        except Raised as r:
            ctx.ob("R1.3", f"_metric_scale:{axis}:{stencil}", False, f"raises {r}", str(r), "scale array")
            continue
        c0 = to_rat(it.lookup_global(ix.module("fdtdx.constants"), "c"))
        ref = c0 * Rat.atom("dt") / Rat.atom("cn")
        w0 = to_rat(field_atom("w", (0, 0, 0), (axis,)))
        wm = to_rat(field_atom(("edge-shift", "w"), e_(axis, -1), (axis,)))
        want = ref / w0 if stencil == "forward" else ref / ((w0 + wm) / 2)
        got = to_rat(res.data[0]) if isinstance(res, NdArr) and len(res.data) == 1 else None
        ok = got is not None and got.equals(want)
        ctx.ob("R1.3", f"_metric_scale:{axis}:{stencil}", ok, "scale = (c*dt/courant)/width; backward uses the dual width (w_i + w_{i-1})/2 with the first cell replicated", got.fmt()[:300] if got is not None else res, want.fmt()[:300])
        # broadcast orientation: the varying axis of the result is `axis`
        if isinstance(res, NdArr):
            dims = res.dims()
            okd = len(dims) == 3 and dims[axis][0] == "s" and dims[axis][1].axis == axis and all(d == ("e", 1) for k, d in enumerate(dims) if k != axis)
            ctx.ob("R1.3", f"_metric_scale:{axis}:{stencil}:broadcast", okd, "the scale varies along its own axis and broadcasts over the other two", dims, f"size-1 except axis {axis}")
    # uniform grids: literal 1
    it = ctx.fresh_interp()
    sc = Scene(ix, it)
    res = it.call(it.closure_of(f), [sc.config(), 0, (1, 1, 1), "forward"], {})
    ctx.ob("R1.3", "_metric_scale:uniform", to_rat(res).equals(1), "uniform grids use the scalar 1", res, 1)
    it = ctx.fresh_interp()
    sc = Scene(ix, it)


# -------------------------------------------------------------------- padding
def _padding_rules(ctx):
    ix = ctx.index
    f = ix.function("fdtdx.core.misc.pad_fields")
    ctx.unit(f.where())
    for per in itertools.product((False, True), repeat=3):
        it = ctx.fresh_interp()
        E = vec("E")
        pad = it.call(it.closure_of(f), [E, per], {})
        ok = isinstance(pad, NdArr) and pad.shape == (3,) and all((d.lo, d.hi) == (-1, 1) for d in pad.sp)
        tags = pad_tags(to_rat(pad.data[1])) if ok else set()
        want = tuple(sorted((a, 1, 1, "wrap" if per[a] else "constant") for a in range(3)))
        okt = ok and tags == {("E1", want)}
        ctx.ob("R1.4", f"pad_fields:{''.join('p' if p else 'z' for p in per)}", okt, "one halo cell on both sides of each spatial axis (never the component axis), wrap iff periodic else zero", sorted(tags), want)
    # get_wrap_padding_axes: True exactly for axes carrying a wrap-padding boundary
    g = ix.function("fdtdx.fdtd.update.get_wrap_padding_axes")
    ctx.unit(g.where())
    kinds = {
        "pec": ("fdtdx.objects.boundaries.pec.PerfectElectricConductor", False),
        "pmc": ("fdtdx.objects.boundaries.pmc.PerfectMagneticConductor", False),
        "pml": ("fdtdx.objects.boundaries.perfectly_matched_layer.PerfectlyMatchedLayer", False),
        "bloch": ("fdtdx.objects.boundaries.bloch.BlochBoundary", True),
    }
    for (k0, k1, k2) in itertools.product(kinds, repeat=3):
        it = ctx.fresh_interp()
        sc = Scene(ix, it)
        bs = []
        for a, k in enumerate((k0, k1, k2)):
            for d in "-+":
                bs.append(sc.boundary(kinds[k][0], a, d))
        res = it.call(it.closure_of(g), [sc.objects(bs)], {})
        want = tuple(kinds[k][1] for k in (k0, k1, k2))
        ctx.ob("R1.4", f"get_wrap_padding_axes:{k0},{k1},{k2}", tuple(res) == want, "an axis is wrap-padded iff its boundaries are periodic / Bloch", tuple(res), want, nontrivial=(k0, k1, k2) in (("bloch", "pec", "pml"), ("pec", "bloch", "pmc"), ("pml", "pml", "bloch")))
    # pad_fields_for_boundaries applies every boundary's pad correction after padding
    h = ix.function("fdtdx.fdtd.update.pad_fields_for_boundaries")
    ctx.unit(h.where())
    it = ctx.fresh_interp()
    sc = Scene(ix, it)
    seen = []
    bs = []
    for a in range(3):
        for d in "-+":
            bs.append(sc.boundary("fdtdx.objects.boundaries.bloch.BlochBoundary", a, d))

    def corr(it_, a, k):
        seen.append((a[0].attrs["name"], pad_tags(to_rat(a[1].data[0]))))
        return a[1]

    stub_repo_calls(it, {"BlochBoundary.apply_pad_correction": corr})
    it.call(it.closure_of(h), [vec("H"), sc.objects(bs), sc.config(uniform_spacing=None)], {}) if False else None
    cfg = sc.config()
    from ..values import Builtin

    cfg.attrs["uniform_spacing"] = Builtin("uniform_spacing", lambda it_, a, k: Rat.atom("res"))
    it.call(it.closure_of(h), [vec("H"), sc.objects(bs), cfg], {})
    ok = sorted(n for n, _ in seen) == sorted(b.attrs["name"] for b in bs) and all(t for _, t in seen)
    ctx.ob("R1.4", "pad_fields_for_boundaries:corrections", ok, "every boundary's pad correction is applied, to the already padded field", [n for n, _ in seen], [b.attrs["name"] for b in bs])


# ---------------------------------------------------------------------- bloch
def _bloch_rules(ctx):
    ix = ctx.index
    B = ix.cls("fdtdx.objects.boundaries.bloch.BlochBoundary")
    ctx.unit(B.methods["apply_pad_correction"].where())
    for axis, direction in itertools.product(range(3), "-+"):
        it = ctx.fresh_interp()
        sc = Scene(ix, it)
        cfg = sc.config()
        k = (Rat.atom("k0"), Rat.atom("k1"), Rat.atom("k2"))
        bl = sc.boundary(B.qualname, axis, direction, bloch_vector=k, _config=cfg, needs_complex_fields=True)
        per = tuple(a == axis for a in range(3))
        pad = it.call_function("fdtdx.core.misc.pad_fields", vec("E"), per)
        vol = (Rat.atom("Nx"), Rat.atom("Ny"), Rat.atom("Nz"))
        res = it.call_method(bl, "apply_pad_correction", pad, vol, Rat.atom("res"))
        L = vol[axis] * Rat.atom("res")
        phase = apply_fn("exp", Rat.atom(I) * k[axis] * L)
        cphase = apply_fn("exp", -Rat.atom(I) * k[axis] * L)
        ok = okr = True
        got = None
        for comp in range(3):  # every component: the off-diagonal averages read the normal component's ghost too
            base = to_rat(pad.data[comp])
            got = to_rat(res.data[comp])
            inds = [a for a in got.atoms() if isinstance(a, tuple) and a and a[0] == "ind"]
            if len(inds) != 1:
                ok = okr = False
                break
            ind = Rat.atom(inds[0])
            fac = cphase if direction == "-" else phase
            want = base + ind * (base * fac - base)
            ok = ok and got.equals(want)
            # region: ghost index 0 for '-', -1 for '+', on padded axis `axis`
            key = inds[0][1][1]
            want_idx = "0" if direction == "-" else "-1"
            okr = okr and key[axis] == want_idx and all(isinstance(x, tuple) and x[0] == "slice" for i, x in enumerate(key) if i != axis)
            if not (ok and okr):
                break
        ctx.ob("R1.5", f"BlochBoundary.apply_pad_correction:{axis}{direction}", ok and okr, "ghost cell 0 (min side) times conj(phase), ghost cell -1 (max side) times phase, phase = exp(i k L), for all three components", got.fmt()[:300] if got is not None else "", "base + 1[ghost]*(base*exp(-+ikL) - base)")
        # resolved (stretched) grid: the period is the grid extent, not N * (smallest spacing), on both sides
        it2 = ctx.fresh_interp()
        sc2 = Scene(ix, it2)
        from ..arrays import SymVec
        from ..values import Builtin

        grid2 = Obj(None, {"edges": Builtin("edges", lambda it_, a, k_: SymVec(f"edges{a[0] if a else k_.get('axis')}", Rat.atom("M")))}, "grid")
        cfg2 = sc2.config(resolved_grid=grid2, has_nonuniform_grid=True)
        bl2 = sc2.boundary(B.qualname, axis, direction, bloch_vector=k, _config=cfg2, needs_complex_fields=True)
        pad2 = it2.call_function("fdtdx.core.misc.pad_fields", vec("E"), per)
        res2 = it2.call_method(bl2, "apply_pad_correction", pad2, vol, Rat.atom("dmin"))
        Lg = Rat.atom(("idx", f"edges{axis}", vol[axis])) - Rat.atom(("idx", f"edges{axis}", Rat.const(0)))
        fac2 = apply_fn("exp", (-1 if direction == "-" else 1) * Rat.atom(I) * k[axis] * Lg)
        okg = True
        g2 = None
        for comp in range(3):
            base2, g2 = to_rat(pad2.data[comp]), to_rat(res2.data[comp])
            inds2 = [a for a in g2.atoms() if isinstance(a, tuple) and a and a[0] == "ind"]
            okg = okg and len(inds2) == 1 and g2.equals(base2 + Rat.atom(inds2[0]) * (base2 * fac2 - base2))
        ctx.ob("R1.5", f"BlochBoundary.apply_pad_correction:{axis}{direction}:resolved-grid", okg, "on a resolved grid both ghost layers use the period edges[N] - edges[0] (min side the conjugate of the max side), not N times the spacing argument", g2.fmt()[:300] if g2 is not None else "", "base + 1[ghost]*(base*exp(-+ik(edges[N]-edges[0])) - base)")
    # no correction without a Bloch phase
    it = ctx.fresh_interp()
    sc = Scene(ix, it)
    bl = sc.boundary(B.qualname, 0, "-", bloch_vector=(0, 0, 0), _config=sc.config())
    pad = it.call_function("fdtdx.core.misc.pad_fields", vec("E"), (True, False, False))
    res = it.call_method(bl, "apply_pad_correction", pad, (Rat.atom("Nx"),) * 3, Rat.atom("res"))
    ctx.ob("R1.5", "BlochBoundary.apply_pad_correction:k=0", to_rat(res.data[0]).equals(to_rat(pad.data[0])), "a zero Bloch vector leaves the periodic halo untouched", "", "")
    # phase length on a resolved grid: edges[N] - edges[0]
    it = ctx.fresh_interp()
    sc = Scene(ix, it)
    from ..arrays import SymVec
    from ..values import Builtin

    grid = Obj(None, {"edges": Builtin("edges", lambda it_, a, k: SymVec(f"edges{a[0]}", Rat.atom("M")))}, "grid")
    cfg = sc.config(resolved_grid=grid)
    bl = sc.boundary(B.qualname, 1, "+", bloch_vector=(Rat.atom("k0"), Rat.atom("k1"), Rat.atom("k2")), _config=cfg)
    ph = it.call_method(bl, "get_bloch_phase", (Rat.atom("Nx"), Rat.atom("Ny"), Rat.atom("Nz")), Rat.atom("res"))
    L = Rat.atom(("idx", "edges1", Rat.atom("Ny"))) - Rat.atom(("idx", "edges1", Rat.const(0)))
    want = apply_fn("exp", Rat.atom(I) * Rat.atom("k1") * L)
    ctx.ob("R1.5", "BlochBoundary.get_bloch_phase:grid", to_rat(ph).equals(want), "on a resolved grid L = edges[N] - edges[0] of the boundary's own axis", to_rat(ph).fmt(), want.fmt())


# ---------------------------------------------------------------------- walls
def _wall_rules(ctx):
    ix = ctx.index
    specs = (
        ("fdtdx.objects.boundaries.pec.PerfectElectricConductor", "apply_post_E_update", "apply_post_H_update", "E"),
        ("fdtdx.objects.boundaries.pmc.PerfectMagneticConductor", "apply_post_H_update", "apply_post_E_update", "H"),
    )
    for qual, own, other, F in specs:
        ci = ix.cls(qual)
        ctx.unit(ci.where())
        for axis, direction in itertools.product(range(3), "-+"):
            it = ctx.fresh_interp()
            sc = Scene(ix, it)
            b = sc.boundary(qual, axis, direction)
            fld = vec(F)
            res = it.call_method(b, own, fld)
            ok = isinstance(res, NdArr) and res.shape == (3,)
            detail = []
            for c in range(3):
                got = to_rat(res.data[c])
                base = to_rat(fld.data[c])
                inds = [a for a in got.atoms() if isinstance(a, tuple) and a and a[0] == "ind"]
                if c == axis:
                    okc = got.equals(base)
                else:
                    okc = len(inds) == 1 and got.equals(base - Rat.atom(inds[0]) * base)
                    if okc:
                        # the slab is the wall's own grid slice, as placed by the scene (one cell thick on `axis`)
                        okc = inds[0][1][1] == region_key(tuple(slice(lo, hi, None) for lo, hi in b.attrs["_grid_slice_tuple"]))
                ok = ok and okc
                detail.append(got.fmt()[:80])
            ctx.ob("R1.6", f"{ci.name}.{own}:{axis}{direction}", ok, f"zeroes exactly the two tangential {F} components on the wall slab and leaves the normal one", detail, "normal unchanged; tangential*(1-1[slab])")
            other_f = vec("H" if F == "E" else "E")
            res2 = it.call_method(b, other, other_f)
            same = isinstance(res2, NdArr) and all(to_rat(x).equals(to_rat(y)) for x, y in zip(res2.data, other_f.data))
            ctx.ob("R1.6", f"{ci.name}.{other}:{axis}{direction}", same, "the other half-step hook is the identity", "", "", nontrivial=False)


# -------------------------------------------------------------------- updates
def _update_rules(ctx):
    ix = ctx.index
    for fname, F, G, sign in (("update_E", "E", "H", 1), ("update_H", "H", "E", -1)):
        f = ix.function(f"fdtdx.fdtd.update.{fname}")
        ctx.unit(f.where())
        for comps, lossy in itertools.product((1, 3), (False, True)):
            it = ctx.fresh_interp()
            sc = Scene(ix, it)
            eta0 = _eta0(ctx, it)
            kw = {}
            if F == "E":
                arrays = sc.arrays(eps_comps=comps, sigma_e=(comps if lossy else None))
            else:
                arrays = sc.arrays(mu_comps=comps, sigma_h=(comps if lossy else None))
            try:
                out = it.call(it.closure_of(f), [Rat.atom("t"), arrays, sc.objects(), sc.config(), True], {})
            except Raised as r:
                raise AnalysisError(f"{fname} raises on the symbolic scene: {r}")
            new = out.attrs["fields"].attrs[F]
            curl = curl_oracle(G, "backward" if F == "E" else "forward")
            c = Rat.atom("c")
            ok = isinstance(new, NdArr) and new.shape == (3,)
            first_bad = None
            for i in range(3):
                inv = to_rat(field_atom(("ie" if F == "E" else "im") + str(i if comps == 3 else 0)))
                old = to_rat(field_atom(f"{F}{i}"))
                if lossy:
                    sg = to_rat(field_atom(("se" if F == "E" else "sh") + str(i if comps == 3 else 0)))
                    a = c * sg * (eta0 if F == "E" else 1 / eta0) * inv / 2
                else:
                    a = Rat.const(0)
                want = ((1 - a) * old + sign * c * inv * curl[i]) / (1 + a)
                got = clean(new.data[i]) if ok else None
                if got is None or not got.equals(want):
                    ok = False
                    first_bad = first_bad or (i, got.fmt()[:250] if got is not None else None, want.fmt()[:250])
            tag = f"{'iso' if comps == 1 else 'diag'}:{'lossy' if lossy else 'lossless'}"
            ctx.ob(
                "R1.7",
                f"fdtdx.fdtd.update.{fname}:{tag}",
                ok,
                f"{F}' == ((1-a){F} {'+' if sign > 0 else '-'} c*inv*curl({G}))/(1+a), a = c*sigma*eta/2*inv (semi-implicit loss; a = 0 when lossless)",
                first_bad[1] if first_bad else "3 components",
                first_bad[2] if first_bad else "semi-implicit normal form",
            )
            if lossy:
                # contraction: |(1-a)/(1+a)| <= 1 for a >= 0  <=>  (1+a)^2 - (1-a)^2 = 4a >= 0 — an identity
                a = Rat.atom("a")
                diff = (1 + a) * (1 + a) - (1 - a) * (1 - a)
                ctx.ob("R1.7", f"fdtdx.fdtd.update.{fname}:{tag}:contractive", diff.equals(4 * a), "(1+a)^2 - (1-a)^2 == 4a >= 0, so the loss factor has modulus <= 1", diff.fmt(), "4*a", nontrivial=False)
    # psi is stored from the curl's second result
    f = ix.function("fdtdx.fdtd.update.update_E")
    it = ctx.fresh_interp()
    sc = Scene(ix, it)
    pml = sc.pml(0, "-")
    fields = sc.fields(psi_E={pml.attrs["name"]: (Rat.atom("p1"), Rat.atom("p2"))}, psi_H={pml.attrs["name"]: (Rat.atom("q1"), Rat.atom("q2"))})
    out = it.call(it.closure_of(f), [Rat.atom("t"), sc.arrays(fields=fields), sc.objects([pml]), sc.config(), True], {})
    psiE = out.attrs["fields"].attrs["psi_E"]
    ok = isinstance(psiE, dict) and pml.attrs["name"] in psiE and not to_rat(_first(psiE[pml.attrs["name"]][0])).equals(Rat.atom("p1"))
    ctx.ob("R1.7", "fdtdx.fdtd.update.update_E:psi", ok, "the CPML memory returned by the curl is stored back into the fields", psiE, "updated psi_E")


def _first(v):
    return v.data[0] if isinstance(v, NdArr) else v


# ---------------------------------------------------------------------- order
def _order_rules(ctx):
    """forward(): H_prev is read first, update_E precedes update_H, walls are applied inside the updates."""
    ix = ctx.index
    f = ix.function("fdtdx.fdtd.forward.forward")
    ctx.unit(f.where())
    it = ctx.fresh_interp()
    sc = Scene(ix, it)
    log = []

    def mk(name):
        def g(it_, a, k):
            arrays = k.get("arrays", a[1] if len(a) > 1 else None)
            log.append((name, arrays))
            if name == "update_detector_states":
                log[-1] = (name, k.get("H_prev", a[4] if len(a) > 4 else None))
                return arrays
            tag = Rat.atom(f"after_{name}")
            flds = arrays.attrs["fields"]
            key = "E" if name == "update_E" else "H"
            return arrays.replace(fields=flds.replace(**{key: tag}))

        return g

    stub_repo_calls(it, {n: mk(n.split(".")[-1]) for n in ("fdtdx.fdtd.update.update_E", "fdtdx.fdtd.update.update_H", "fdtdx.fdtd.update.update_detector_states")})
    arrays = sc.arrays(fields=sc.fields(E=Rat.atom("E0"), H=Rat.atom("H0")))
    state = (Rat.atom("t"), arrays)
    res = it.call(it.closure_of(f), [], dict(state=state, config=sc.config(), objects=sc.objects(), key=Rat.atom("key"), record_detectors=True, record_boundaries=False, simulate_boundaries=True))
    names = [n for n, _ in log]
    ok = names[:2] == ["update_E", "update_H"]
    ctx.ob("R1.8", "fdtdx.fdtd.forward.forward:leapfrog", ok, "the E half-step precedes the H half-step", names, ["update_E", "update_H", "..."])
    if ok:
        seenE = log[1][1].attrs["fields"].attrs["E"]
        ctx.ob("R1.8", "fdtdx.fdtd.forward.forward:chain", to_rat(seenE).equals(Rat.atom("after_update_E")), "update_H sees the E field produced by update_E", seenE, "after_update_E")
    det = [x for n, x in log if n == "update_detector_states"]
    okd = len(det) == 1 and to_rat(det[0]).equals(Rat.atom("H0"))
    ctx.ob("R1.8", "fdtdx.fdtd.forward.forward:H_prev", okd, "detectors receive the H field from before the step as H_prev", det, "H0")
    t_new = res[0] if isinstance(res, tuple) else None
    ctx.ob("R1.8", "fdtdx.fdtd.forward.forward:time", t_new is not None and to_rat(t_new).equals(Rat.atom("t") + 1), "the step counter advances by one", t_new, "t + 1")
    # walls are applied at the end of each half-step
    for fname, hook in (("update_E", "apply_boundary_post_E_update"), ("update_H", "apply_boundary_post_H_update"), ("update_E_reverse", "apply_boundary_post_E_update"), ("update_H_reverse", "apply_boundary_post_H_update")):
        it = ctx.fresh_interp()
        sc = Scene(ix, it)
        mark = []

        def wall(it_, a, k, _m=mark):
            _m.append(a[0])
            return Rat.atom("walled")

        stub_repo_calls(it, {f"fdtdx.fdtd.update.{hook}": wall})
        g = ix.function(f"fdtdx.fdtd.update.{fname}")
        args = [Rat.atom("t"), sc.arrays(), sc.objects(), sc.config()] + ([True] if not fname.endswith("reverse") else [])
        out = it.call(it.closure_of(g), args, {})
        F = "E" if "_E" in fname else "H"
        final = out.attrs["fields"].attrs[F]
        ctx.ob("R1.6", f"fdtdx.fdtd.update.{fname}:wall-last", len(mark) == 1 and isinstance(final, Rat) and final.equals(Rat.atom("walled")), "the wall projection is the last operation on the updated field", final, "walled")
