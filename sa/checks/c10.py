"""C10 — shared source rule (the C10 check itself is not built; C02 uses the injection-form rule)."""

from __future__ import annotations

from ..index import AnalysisError
from ..srcflow import InjectionAnalysis


def source_linearity(ctx, rule="R10.1", for_c02=False):
    """Every update_E / update_H a public Source class resolves to is an additive injection whose only
    dependence on `inverse` is the sign and whose magnitude / region do not depend on the field."""
    ix = ctx.index
    base = ix.cls("fdtdx.objects.sources.source.Source")
    public = ix.public_names()
    an = InjectionAnalysis(ix)
    methods = {}
    classes = []
    skipped = []
    for ci in ix.subclasses(base):
        if ci.name not in public or ix.public_class(ci.name) is not ci:
            skipped.append(ci.name)
            continue
        classes.append(ci.name)
        for m in ("update_E", "update_H"):
            fi = ci.lookup_method(m)
            if fi is None or fi.cls is base:
                raise AnalysisError(f"public source {ci.name} has no concrete {m}")
            methods.setdefault(fi.qualname, (fi, []))[1].append(ci.name)
    err = None
    for qn, (fi, users) in sorted(methods.items()):
        try:
            an.method(fi)
        except AnalysisError as e:
            err = err or e
    for u in an.units:
        ctx.unit(u)
    for v in an.verdicts:
        ctx.ob(rule, v.construct, v.ok, v.detail, v.extracted, v.oracle)
    if err is not None:
        raise err
    ctx.note(f"{rule}: public source classes {sorted(classes)} resolve to {sorted(methods)}; not exported, out of scope: {sorted(skipped)}")
    ctx.require_count(f"{rule} public source classes", len(classes), 5)
    ctx.require_count(f"{rule} update methods", len(methods), 6)
    ctx.require_count(f"{rule} injection sites", an.add_sites, 10)
