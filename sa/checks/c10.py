"""C10 — placeholder, filled in below."""


def source_linearity(ctx, rule="R10.1", for_c02=False):
    return
