"""C10 — fields are linear in sources and initial state."""

from __future__ import annotations

import itertools

from .. import tfsf
from ..arrays import SymVec
from ..degree import degree
from ..harness import RecState, Written, open_obj
from ..index import AnalysisError
from ..kernel import clean
from ..ndarr import NdArr
from ..poly import Rat, derivative
from ..scene import Scene, vec
from ..srcflow import InjectionAnalysis
from ..values import Obj, Raised, Unknown, to_rat

LEVEL = "other"
EXPLANATION = (
    "Decides the algebraic form that linearity needs, on the code itself.  (1) Every exported source class: "
    "update_E / update_H are abstractly interpreted (plane TFSF over 3 axes x material tiers x real/complex "
    "incident fields x raw / filtered H profile, the box source over several faces, the point dipole over "
    "type x polarisation x tilt x tiers) and the injected increment F' - F must be homogeneous of degree "
    "exactly one in the static amplitude factor and of degree zero in the fields; a def-use rule on the syntax "
    "tree shows the additive .at[].add form for every class.  (2) One forward step of forward() on symbolic "
    "scenes (material tiers, losses, full tensors, metric atoms, CPML, walls, periodic faces): every output "
    "field component and CPML memory variable is homogeneous of degree one jointly in (E, H, psi, source "
    "terms), and the coefficient of each source's term contains no other source's term or on/off indicator "
    "(superposition across sources, any order, default and scheduled switches).  (3) Detector records: field "
    "and phasor records have degree one in (E, H), energy and Poynting records degree exactly two.  "
    "Numerical superposition over many steps follows by induction from (2) but round-off is not decided."
)


def source_linearity(ctx, rule="R10.1", for_c02=False):
    """Every update_E / update_H a public Source class resolves to is an additive injection whose only
    dependence on `inverse` is the sign and whose magnitude / region do not depend on the field."""
    ix = ctx.index
    base = ix.cls("fdtdx.objects.sources.source.Source")
    public = ix.public_names()
    an = InjectionAnalysis(ix)
    methods = {}
    classes = []
    skipped = []
    for ci in ix.subclasses(base):
        if ci.name not in public or ix.public_class(ci.name) is not ci:
            skipped.append(ci.name)
            continue
        classes.append(ci.name)
        for m in ("update_E", "update_H"):
            fi = ci.lookup_method(m)
            if fi is None or fi.cls is base:
                raise AnalysisError(f"public source {ci.name} has no concrete {m}")
            methods.setdefault(fi.qualname, (fi, []))[1].append(ci.name)
    err = None
    for qn, (fi, users) in sorted(methods.items()):
        try:
            an.method(fi)
        except AnalysisError as e:
            err = err or e
    for u in an.units:
        ctx.unit(u)
    for v in an.verdicts:
        ctx.ob(rule, v.construct, v.ok, v.detail, v.extracted, v.oracle)
    if err is not None:
        raise err
    ctx.note(f"{rule}: public source classes {sorted(classes)} resolve to {sorted(methods)}; not exported, out of scope: {sorted(skipped)}")
    ctx.require_count(f"{rule} public source classes", len(classes), 5)
    ctx.require_count(f"{rule} update methods", len(methods), 6)
    ctx.require_count(f"{rule} injection sites", an.add_sites, 10)
    return sorted(methods)


# ------------------------------------------------------------------ amplitude degree of the injections
def _is_A(a):
    return a == "A"


def _is_field(a):
    return isinstance(a, tuple) and a and a[0] == "at" and isinstance(a[1], str) and a[1][:1] in "EH" and a[1][1:].isdigit()


def _increment_ok(ctx, rule, label, out: NdArr, kind: str, expect_nonzero=True):
    F = vec(kind)
    bad = None
    nonzero = 0
    for c in range(3):
        inc = to_rat(out.data[c]) - to_rat(F.data[c])
        if inc.is_zero():
            continue
        nonzero += 1
        dA = degree(inc, _is_A)
        dF = degree(inc, _is_field)
        if dA != {1} or dF != {0}:
            bad = bad or (c, f"degree in amplitude factor {dA}, in fields {dF}: {inc.fmt()[:240]}")
    ok = bad is None and (nonzero > 0 or not expect_nonzero)
    ctx.ob(rule, label, ok, "injected increment is homogeneous of degree 1 in static_amplitude_factor and independent of the field" + ("" if nonzero or not expect_nonzero else " — nothing is injected"), bad[1] if bad else f"{nonzero} non-zero components", "degree {1} in A, {0} in E/H")


def _source_cases():
    cases = []
    tiers = [(3, 3), (9, 9), (1, 0)]
    for kind in ("E", "H"):
        for axis, (ec, mc), cplx, filt in itertools.product(range(3), tiers, (False, True), (False, True)):
            if filt and kind == "H":
                continue  # only the E-side injection has a filtered-profile branch
            if filt and cplx:
                continue  # the filtered branch ignores the quadrature term by construction (inject_complex_H False)
            for direction, inverse in (("+", False), ("-", True)):
                cases.append(("plane", kind, axis, direction, inverse, ec, mc, cplx, filt))
    for kind, (ec, mc), filt, cplx in itertools.product(("E", "H"), tiers, (False, True), (False, True)):
        if filt and (kind == "H" or cplx):
            continue
        for faces in (((0, 1), (2, -1)), ((1, 1), (1, -1), (0, -1))):
            cases.append(("region", kind, ec, mc, faces, filt, cplx))
    for stype, pol, comps, tilted, local in itertools.product(("electric", "magnetic"), range(3), (1, 3, 9), (False, True), (True, False)):
        cases.append(("dipole", stype, pol, comps, tilted, local))
    return cases


def _source_job(ctx, cases):
    for case in cases:
        if case[0] == "plane":
            _, kind, axis, direction, inverse, ec, mc, cplx, filt = case
            try:
                out = tfsf.plane_update(ctx, kind, axis, direction, inverse, ec, mc, cplx, filt)
            except Raised as r:
                raise AnalysisError(f"TFSFPlaneSource.update_{kind} raises: {r}")
            _increment_ok(ctx, "R10.1", f"TFSFPlaneSource.update_{kind}[axis{axis},eps{ec},mu{mc},dir{direction}{',inverse' if inverse else ''}{',complex' if cplx else ''}{',filteredH' if filt else ''}]", out, kind)
        elif case[0] == "region":
            _, kind, ec, mc, faces, filt, cplx = case
            try:
                out = tfsf.region_update(ctx, kind, False, ec, mc, faces=faces, h_filter=filt, complex_inc=cplx)
            except Raised as r:
                raise AnalysisError(f"TFSFPlaneSourceRegion.update_{kind} raises: {r}")
            _increment_ok(ctx, "R10.1", f"TFSFPlaneSourceRegion.update_{kind}[eps{ec},mu{mc},faces{faces}{',complex' if cplx else ''}{',filteredH' if filt else ''}]", out, kind)
        else:
            _, stype, pol, comps, tilted, local = case
            kind = "E" if stype == "electric" else "H"
            out = _dipole(ctx, kind, stype, pol, comps, tilted, local)
            _increment_ok(ctx, "R10.1", f"PointDipoleSource.update_{kind}[{stype},pol{pol},comps{comps}{',tilted' if tilted else ''}{',sampled' if local else ',unsampled'}]", out, kind)


def _dipole(ctx, kind, stype, pol, comps, tilted, local=True):
    ix = ctx.index
    it = ctx.fresh_interp()
    sc = Scene(ix, it)
    from .. import absint
    from .. import ndarr as _nd

    absint.INTEGER_ATOMS.update({f"d_{a}min" for a in "xyz"})
    prof, wc, _ = tfsf.common(it, False)
    D = ix.cls("fdtdx.objects.sources.dipole.PointDipoleSource")
    gst = tuple((Rat.atom(f"d_{a}min"), Rat.atom(f"d_{a}min") + 1) for a in "xyz")
    attrs = dict(
        name="dip", polarization=pol, azimuth_angle=(30 if tilted else 0), elevation_angle=0, source_type=stype, amplitude=Rat.atom("amp0"),
        _config=sc.config(), _grid_slice_tuple=gst, temporal_profile=prof, wave_character=wc, static_amplitude_factor=Rat.atom("A"),
    )
    if local:
        attrs.update(
            _inv_eps_local=NdArr((comps,), [Rat.atom(f"iel{c}") for c in range(comps)]),
            _inv_mu_local=NdArr((comps,), [Rat.atom(f"iml{c}") for c in range(comps)]),
            _inv_eps_oriented=NdArr((3,), [Rat.atom(f"ieo{c}") for c in range(3)]),
            _inv_mu_oriented=NdArr((3,), [Rat.atom(f"imo{c}") for c in range(3)]),
        )
    else:
        N = ix.cls("fdtdx.core.null.Null")
        null = Obj(N, {}, "Null")
        attrs.update(_inv_eps_local=null, _inv_mu_local=null, _inv_eps_oriented=null, _inv_mu_oriented=null, _orientation=NdArr((3,), [Rat.atom(f"p{c}") for c in range(3)]))
    src = Obj(D, attrs, "dip")
    F, ie, im = tfsf.materials(kind, comps, comps)
    m = D.lookup_method(f"update_{kind}")
    ctx.unit(m.where())
    try:
        res = it.call_method(src, f"update_{kind}", F, ie, im, Rat.atom("t"), False)
    except Raised as r:
        raise AnalysisError(f"PointDipoleSource.update_{kind} raises: {r}")
    if not (isinstance(res, NdArr) and res.shape == (3,)):
        raise AnalysisError(f"PointDipoleSource.update_{kind} returned {res!r}")
    return res


# ------------------------------------------------------------------ the solver step
def _is_state(a):
    if _is_field(a):
        return True
    if isinstance(a, tuple) and a and a[0] == "J":
        return True
    return isinstance(a, str) and ".psi" in a


def _solver_job(ctx, payload):
    from .c08 import _build

    label, akw, kw, sources = payload
    it, cfg, objs, arrays, pmls = _build(ctx, akw, sources=sources, **kw)
    f = ctx.index.function("fdtdx.fdtd.forward.forward")
    ctx.unit(f.where())
    try:
        s = it.call(it.closure_of(f), [], dict(state=(Rat.atom("t"), arrays), config=cfg, objects=objs, key=Rat.atom("key"), record_detectors=False, record_boundaries=False, simulate_boundaries=True))
    except Raised as r:
        raise AnalysisError(f"{label}: forward raises on the symbolic scene: {r}")
    flds = s[1].attrs["fields"]
    outs = []
    for F in ("E", "H"):
        arr = flds.attrs[F]
        if not (isinstance(arr, NdArr) and arr.shape == (3,)):
            raise AnalysisError(f"{label}: {F} after the step is {arr!r}")
        outs += [(f"{F}{c}", clean(arr.data[c])) for c in range(3)]
    for key in ("psi_E", "psi_H"):
        for nm, pair in (flds.attrs.get(key) or {}).items():
            for slot, v in enumerate(pair):
                outs.append((f"{key}[{nm}][{slot}]", clean(v.data[0] if isinstance(v, NdArr) else v)))
    bad = None
    for nm, r in outs:
        d = degree(r, _is_state)
        if d not in ({1}, set()):
            bad = bad or (nm, f"degrees {d}: {r.fmt()[:240]}")
    ctx.ob("R10.2", f"{label}:homogeneous", bad is None, "every output of one forward step is homogeneous of degree 1 jointly in (E, H, psi, source terms)" + (f" — fails for {bad[0]}" if bad else ""), bad[1] if bad else f"{len(outs)} outputs", "degree {1}")
    # superposition across sources
    names = [n for n, _ in sources]
    bad = None
    seen = {n: 0 for n in names}
    for nm, r in outs:
        for a in [a for a in r.atoms() if isinstance(a, tuple) and a and a[0] == "J"]:
            seen[a[1]] += 1
            coef = derivative(r, a)
            for b in coef.atoms():
                other = None
                if isinstance(b, tuple) and b and b[0] == "J":
                    other = b[1]
                elif isinstance(b, tuple) and b and b[0] == "ind" and isinstance(b[1], tuple) and b[1] and b[1][0] == "on" and b[1][1] != a[1]:
                    other = b[1][1]
                if other is not None:
                    bad = bad or (nm, f"coefficient of {a[1]}'s term in {nm} depends on source {other}: {coef.fmt()[:200]}")
    missing = [n for n, k in seen.items() if k == 0]
    if missing and bad is None:
        bad = ("-", f"the injected term of {missing} does not reach the output of the step")
    ctx.ob("R10.2", f"{label}:superposition", bad is None, "each source's contribution is independent of every other source (terms and on/off switches)", bad[1] if bad else f"sources {names}", "coefficients free of other sources")


def _solver_scenes():
    from .c02 import BLO, PEC, PMC

    orders = [
        (("s_a", True), ("s_b", False), ("s_c", False)),
        (("s_b", False), ("s_a", True), ("s_c", True)),
        (("s_b", False), ("s_c", False), ("s_a", True)),
    ]
    scenes = [
        ("iso", dict(eps_comps=1, mu_comps=1), {}),
        ("diag:sEsH", dict(eps_comps=3, mu_comps=3, sigma_e=3, sigma_h=3), {}),
        ("scalar-mu", dict(eps_comps=3, mu_comps=0), {}),
        ("full-eps", dict(eps_comps=9, mu_comps=3), {}),
        ("full-mu", dict(eps_comps=3, mu_comps=9), {}),
        ("nonuniform", dict(eps_comps=3, mu_comps=3), dict(nonuniform=True)),
        ("cpml:min", dict(eps_comps=3, mu_comps=3), dict(pml_dirs="-", kappa_one=False)),
        ("cpml:max", dict(eps_comps=1, mu_comps=1), dict(pml_dirs="+", kappa_one=True)),
        ("walls", dict(eps_comps=3, mu_comps=3), dict(boundaries=[(PEC, a, "-") for a in range(3)] + [(PMC, a, "+") for a in range(3)])),
        ("periodic", dict(eps_comps=1, mu_comps=1), dict(boundaries=[(BLO, a, d) for a in range(3) for d in "-+"])),
    ]
    jobs = []
    for k, (label, akw, kw) in enumerate(scenes):
        for j, order in enumerate(orders if k < 3 else orders[k % 3 : k % 3 + 1]):
            jobs.append((f"{label}:order{j}", akw, kw, order))
    return jobs


def _job(ctx, payload):
    if payload[0] == "sources":
        _source_job(ctx, payload[1])
    elif payload[0] == "solver":
        _solver_job(ctx, payload[1])
    else:
        _detector_rules(ctx)


# ------------------------------------------------------------------ detectors
def _det_attrs(ctx, extra):
    attrs = {
        "_config": open_obj(None, "config", time_step_duration=Rat.atom("dt")),
        "_time_step_to_arr_idx": SymVec("t2idx", Rat.atom("T")),
        "name": "det",
        "dtype": Unknown("dtype"),
        "reduce_volume": False,
        "grid_shape": (Rat.atom("Nx"), Rat.atom("Ny"), Rat.atom("Nz")),
    }
    attrs.update(extra)
    return attrs


def _detector_rules(ctx):
    ix = ctx.index
    E, H = vec("E"), vec("H")
    cases = [
        ("fdtdx.objects.detectors.field.FieldDetector", dict(components=("Ex", "Ey", "Ez", "Hx", "Hy", "Hz")), 1),
        ("fdtdx.objects.detectors.field.FieldDetector", dict(components=("Hz", "Ex")), 1),
        ("fdtdx.objects.detectors.energy.EnergyDetector", dict(as_slices=False), 2),
        ("fdtdx.objects.detectors.poynting_flux.PoyntingFluxDetector", dict(direction="+", keep_all_components=True, propagation_axis=0), 2),
        ("fdtdx.objects.detectors.poynting_flux.PoyntingFluxDetector", dict(direction="-", keep_all_components=False, propagation_axis=2), 2),
    ]
    n = 0
    for q, extra, want in cases:
        ci = ix.cls(q)
        it = ctx.fresh_interp()
        det = Obj(ci, _det_attrs(ctx, extra), ci.name)
        m = ci.lookup_method("update")
        ctx.unit(m.where())
        for ie, im in ((vec("ie", 3), vec("im", 3)), (vec("ie", 1), Rat.atom("mu0"))):
            try:
                res = it.call_method(det, "update", time_step=Rat.atom("n"), E=E, H=H, state=RecState(), inv_permittivity=ie, inv_permeability=im)
            except Raised as r:
                raise AnalysisError(f"{ci.name}.update raises on the symbolic state: {r}")
            if not isinstance(res, dict) or not res:
                raise AnalysisError(f"{ci.name}.update returned {res!r}")
            for key, w in res.items():
                if not isinstance(w, Written):
                    raise AnalysisError(f"{ci.name}.update[{key}] is not a recorded write: {w!r}")
                vals = [to_rat(x) for x in (w.value.data if isinstance(w.value, NdArr) else [w.value])]
                degs = [degree(clean(v), _is_field) for v in vals]
                ok = all(d == {want} for d in degs) and bool(vals)
                n += 1
                ctx.ob("R10.3", f"{ci.qualname}.update[{','.join(f'{k}={v}' for k, v in extra.items())}]:{key}", ok, f"recorded value is homogeneous of degree {want} in (E, H)", degs[:6], {want})
    # phasor accumulation: the increment of every stored entry has degree one
    from . import c17

    P = ix.cls("fdtdx.objects.detectors.phasor.PhasorDetector")
    for mode in ("continuous", "pulse"):
        it = ctx.fresh_interp()
        det = c17._mk_detector(ctx, P, it, mode, False)
        Ef, Hf = c17._fields()
        st = c17.StateDict()
        res = it.call_method(det, "update", time_step=Rat.atom("n"), E=Ef, H=Hf, state=st, inv_permittivity=Rat.atom("ie"), inv_permeability=Rat.atom("im"))
        for key, arr in res.items():
            bad = []
            for k, x in enumerate(arr.data):
                inc = to_rat(x) - Rat.atom(("state", key, k))
                d = degree(inc, lambda a: isinstance(a, tuple) and a and a[0] == "at")
                if d != {1}:
                    bad.append((k, d))
            n += 1
            ctx.ob("R10.3", f"{P.qualname}.update[{mode}]:{key}", not bad, "per-step phasor increment is homogeneous of degree 1 in (E, H)", bad[:3], {1})
    ctx.require_count("R10.3 detector records", n, 10)


def _amplitude_enters_once(ctx):
    """who-may-read: the static amplitude factor is read only at injection time (update_E / update_H of a source, or
    the face-injection helpers they hand it to), never while an incident profile, a normalisation or a temporal
    profile is built — together with R10.1 (injection has degree exactly one in it) the factor enters exactly once."""
    import ast

    ix = ctx.index
    NAME = "static_amplitude_factor"
    sites, bad = [], []
    # injection-time functions: update_E / update_H of sources and every function of the sources package whose call
    # sites (matched by name) all lie in injection-time functions (helpers factored out of the updates)
    src_fns = {}
    for mi in ix.modules.values():
        if not mi.name.startswith("fdtdx.objects.sources."):
            continue
        for fi in list(mi.functions.values()) + [m for c in getattr(mi, "classes", {}).values() for m in c.methods.values()]:
            src_fns.setdefault(fi.name, []).append(fi)
    call_sites = {}
    for mi in ix.modules.values():
        for fi in list(mi.functions.values()) + [m for c in getattr(mi, "classes", {}).values() for m in c.methods.values()]:
            for node in ast.walk(fi.node):
                if isinstance(node, ast.Call):
                    callee = node.func.attr if isinstance(node.func, ast.Attribute) else getattr(node.func, "id", None)
                    if callee in src_fns:
                        call_sites.setdefault(callee, set()).add((mi.name, fi.name))
    injection = {"update_E", "update_H"}
    changed = True
    while changed:
        changed = False
        for name_, where in call_sites.items():
            if name_ not in injection and where and all(f_ in injection and m_.startswith("fdtdx.objects.sources.") for m_, f_ in where):
                injection.add(name_)
                changed = True
    for mi in ix.modules.values():
        fns = list(mi.functions.values()) + [m for c in getattr(mi, "classes", {}).values() for m in c.methods.values()]
        for fi in fns:
            params = {a.arg for a in fi.node.args.args + fi.node.args.kwonlyargs}
            for node in ast.walk(fi.node):
                hit = (isinstance(node, ast.Attribute) and node.attr == NAME and isinstance(node.ctx, ast.Load)) or (isinstance(node, ast.Name) and node.id == NAME and isinstance(node.ctx, ast.Load))
                if not hit:
                    continue
                site = f"{mi.name}.{fi.name}"
                sites.append(site)
                at_injection = fi.name in injection and mi.name.startswith("fdtdx.objects.sources.")
                helper = isinstance(node, ast.Name) and NAME in params and mi.name.startswith("fdtdx.objects.sources.")
                if not (at_injection or helper):
                    bad.append(f"{site}: {ast.unparse(node)}")
    # helpers that take the factor as a parameter are themselves called only from update_E / update_H
    helpers = set()
    for mi in ix.modules.values():
        for fi in mi.functions.values():
            if NAME in {a.arg for a in fi.node.args.args + fi.node.args.kwonlyargs}:
                helpers.add(fi.name)
    for mi in ix.modules.values():
        fns = list(mi.functions.values()) + [m for c in getattr(mi, "classes", {}).values() for m in c.methods.values()]
        for fi in fns:
            for node in ast.walk(fi.node):
                if isinstance(node, ast.Call):
                    callee = node.func.attr if isinstance(node.func, ast.Attribute) else getattr(node.func, "id", None)
                    if callee in helpers and fi.name not in ("update_E", "update_H") and fi.name not in helpers:
                        bad.append(f"{mi.name}.{fi.name} calls the injection helper {callee}")
    ctx.ob("R10.4", "static_amplitude_factor:read-only-at-injection", not bad, "the amplitude factor is read only in update_E / update_H of sources and in the face-injection helpers they call, so incident profiles, energy normalisation and temporal profiles are independent of it and it scales each injection exactly once", bad[:4], "no other reader")
    ctx.ob("R10.4", "static_amplitude_factor:inventory", len(sites) >= 10 and len(helpers) >= 2, "the scan finds the known readers (dipole, hard source, TFSF plane / region updates, the two face-injection helpers)", f"{len(sites)} reads, helpers {sorted(helpers)}", ">= 10 reads, >= 2 helpers", nontrivial=False)


def run(ctx):
    from ..par import run_jobs

    source_linearity(ctx)
    _amplitude_enters_once(ctx)
    cases = _source_cases()
    ctx.require_count("R10.1 interpreted source updates", len(cases), 150)
    jobs = [("sources", cases[i::10]) for i in range(10)]
    labels = [f"sources[{i}]" for i in range(10)]
    for sj in _solver_scenes():
        jobs.append(("solver", sj))
        labels.append(sj[0])
    jobs.append(("detectors",))
    labels.append("detectors")
    err = run_jobs(ctx, "sa.checks.c10", "_job", jobs, labels)
    if err is not None:
        raise AnalysisError(err)
    ctx.require_count("R10.2 scenes", sum(1 for o in ctx.obligations if o.rule == "R10.2"), 24)
    ctx.require_count("C10", len(ctx.obligations), 200)
    ctx.trusted_base += ["sa/degree.py degree domain (abs/real/imag/conj positively homogeneous)", "sa/tfsf.py symbolic source harness", "abstract source model of C02 inside the solver step (its form per class is rule R10.1)"]
    ctx.assume("temporal profile, incident field profiles and materials do not depend on the amplitude factor or on the fields (they are set up before the run)")
