"""Rule runner: ./check <ID> [--tier quick|thorough] [--repo DIR] [--replay FILE]"""

from __future__ import annotations

import argparse
import importlib
import json
import os
import sys
import traceback

from .index import AnalysisError
from .report import Ctx


def main(argv=None) -> int:
    ap = argparse.ArgumentParser()
    ap.add_argument("pid")
    ap.add_argument("--tier", default=os.environ.get("VERIF_TIER", "quick"), choices=["quick", "thorough"])
    ap.add_argument("--repo", default=os.environ.get("VERIF_REPO", "/repo"))
    ap.add_argument("--replay", default=None)
    args = ap.parse_args(argv)
    pid = args.pid.upper()
    try:
        seed = int(os.environ.get("VERIF_SEED", "0"))
    except ValueError:
        seed = 0
    ctx = Ctx(pid, args.tier, args.repo, seed)
    try:
        mod = importlib.import_module(f"sa.checks.{pid.lower()}")
    except ModuleNotFoundError:
        print(f"ANALYSIS-ERROR property={pid} no checker module")
        return 2
    ctx.level = getattr(mod, "LEVEL", "other")
    ctx.explanation = getattr(mod, "EXPLANATION", "")
    try:
        mod.run(ctx)
        if args.tier == "thorough" and hasattr(mod, "run_thorough"):
            mod.run_thorough(ctx)
        err = None
    except AnalysisError as e:
        err = f"{type(e).__name__}: {e}"
    except RecursionError:
        err = "RecursionError in analyser"
    except Exception as e:  # analyser bug: never a verdict
        tb = traceback.format_exc().strip().splitlines()
        err = f"internal {type(e).__name__}: {e} | {' | '.join(tb[-4:])}"
    if args.replay:
        try:
            rp = json.load(open(args.replay))
            hit = [o for o in ctx.obligations if o.rule == rp.get("rule") and o.construct == rp.get("construct")]
            for o in hit:
                print(f"REPLAY {o.rule} @ {o.construct}: {'holds' if o.ok else 'FAILS'} — {o.detail}")
            if not hit:
                print("REPLAY: the recorded (rule, construct) instance no longer exists on this tree")
        except Exception as e:
            print(f"REPLAY: cannot read {args.replay}: {e}")
    return ctx.finish(err)


if __name__ == "__main__":
    sys.exit(main())
