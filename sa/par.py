"""Run independent rule instances in forked worker processes and merge their obligations in job order."""

from __future__ import annotations

import importlib
import os

from .index import AnalysisError


_SHARED_INDEX = None  # the parent's program index, inherited by forked workers (parsing 110 modules once)


def _work(args):
    pid, tier, repo, modname, fname, k, payload = args
    from .report import Ctx

    c = Ctx(pid, tier, repo, 0)
    if _SHARED_INDEX is not None and _SHARED_INDEX.repo_root == __import__("os").path.abspath(repo):
        c._index = _SHARED_INDEX
    err = None
    try:
        getattr(importlib.import_module(modname), fname)(c, payload)
    except AnalysisError as e:
        err = str(e)
    except RecursionError:
        err = "RecursionError in analyser"
    except Exception as e:  # analyser bug (e.g. polynomial guard): never a verdict
        err = f"internal {type(e).__name__}: {e}"
    obs = [(o.rule, o.construct, o.ok, o.detail, str(o.extracted), str(o.oracle), o.nontrivial) for o in c.obligations]
    return k, obs, list(c.units), dict(c.index.consulted) if c._index is not None else {}, list(c.notes), err


def run_jobs(ctx, modname: str, fname: str, payloads: list, labels: list[str] | None = None):
    """Call modname.fname(private_ctx, payload) for every payload (16 worker processes, serial fallback);
    obligations, units and notes are merged into ctx in payload order.  Returns the first analysis error
    (label-prefixed) or None — the caller decides when to raise it."""
    global _SHARED_INDEX
    _SHARED_INDEX = ctx.index
    jobs = [(ctx.pid, ctx.tier, ctx.repo, modname, fname, k, p) for k, p in enumerate(payloads)]
    results = None
    workers = min(len(jobs), os.cpu_count() or 1, 16)
    if workers > 1 and not os.environ.get("VERIF_SERIAL"):
        try:
            import multiprocessing as mp
            from concurrent.futures import ProcessPoolExecutor

            with ProcessPoolExecutor(max_workers=workers, mp_context=mp.get_context("fork")) as pool:
                results = list(pool.map(_work, jobs))
        except Exception as e:
            ctx.note(f"process pool unavailable ({type(e).__name__}); instances run serially")
            results = None
    if results is None:
        results = [_work(j) for j in jobs]
    first_err = None
    for k, obs, units, consulted, notes, err in sorted(results, key=lambda r: r[0]):
        for o in obs:
            ctx.ob(*o[:4], o[4], o[5], nontrivial=o[6])
        for u in units:
            ctx.unit(u)
        for n in notes:
            ctx.note(n)
        ctx.index.consulted.update(consulted)
        if err is not None and first_err is None:
            first_err = f"{labels[k] if labels else k}: {err}"
    return first_err
