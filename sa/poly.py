"""E3 — rational normal form.

A value is num/den, both polynomials {monomial: Fraction} over hashable atoms.
The imaginary unit is the reserved atom I with I*I = -1.  Atoms registered as
*idempotent* (indicator functions of regions / boolean predicates) satisfy
a*a = a.  Equality is decided by cross-multiplication (no GCD, no solver).

Nothing here knows about Python syntax; absint.py lowers AST to these values.
"""

from __future__ import annotations

from fractions import Fraction

I = "𝑖"  # imaginary unit atom

_IDEMPOTENT_PREFIX = ("ind",)


def is_idempotent(atom) -> bool:
    return isinstance(atom, tuple) and len(atom) > 0 and atom[0] in _IDEMPOTENT_PREFIX


def _atom_key(a):
    return repr(a)


def mono_mul(m1: tuple, m2: tuple):
    """Multiply two monomials. Returns (sign_coeff, monomial)."""
    if not m1:
        return 1, m2
    if not m2:
        return 1, m1
    d = dict(m1)
    for a, e in m2:
        d[a] = d.get(a, 0) + e
    coeff = 1
    if I in d:
        e = d.pop(I) % 4
        if e == 1:
            d[I] = 1
        elif e == 2:
            coeff = -1
        elif e == 3:
            coeff = -1
            d[I] = 1
    out = []
    for a, e in d.items():
        if e == 0:
            continue
        if is_idempotent(a) and e > 1:
            e = 1
        out.append((a, e))
    out.sort(key=lambda ae: _atom_key(ae[0]))
    return coeff, tuple(out)


class Poly:
    __slots__ = ("t",)

    def __init__(self, terms=None):
        self.t = {}
        if terms:
            for m, c in terms.items():
                if c != 0:
                    self.t[m] = c

    @staticmethod
    def const(c) -> "Poly":
        c = Fraction(c)
        return Poly({(): c}) if c != 0 else Poly()

    @staticmethod
    def atom(a) -> "Poly":
        return Poly({((a, 1),): Fraction(1)})

    def is_zero(self):
        return not self.t

    def is_const(self):
        return all(m == () for m in self.t)

    def const_value(self):
        return self.t.get((), Fraction(0))

    def __add__(self, o: "Poly"):
        r = dict(self.t)
        for m, c in o.t.items():
            v = r.get(m, 0) + c
            if v == 0:
                r.pop(m, None)
            else:
                r[m] = v
        p = Poly()
        p.t = r
        return p

    def __neg__(self):
        p = Poly()
        p.t = {m: -c for m, c in self.t.items()}
        return p

    def __sub__(self, o):
        return self + (-o)

    def __mul__(self, o: "Poly"):
        r = {}
        if len(self.t) * len(o.t) > 400000:
            raise OverflowError("polynomial product too large")
        for m1, c1 in self.t.items():
            for m2, c2 in o.t.items():
                s, m = mono_mul(m1, m2)
                v = r.get(m, 0) + s * c1 * c2
                if v == 0:
                    r.pop(m, None)
                else:
                    r[m] = v
        p = Poly()
        p.t = r
        return p

    def scale(self, c):
        p = Poly()
        if c != 0:
            p.t = {m: v * c for m, v in self.t.items()}
        return p

    def atoms(self):
        s = set()
        for m in self.t:
            for a, _ in m:
                s.add(a)
        return s

    def key(self):
        return tuple(sorted(((tuple((_atom_key(a), e) for a, e in m), c) for m, c in self.t.items())))

    def __eq__(self, o):
        return isinstance(o, Poly) and self.t == o.t

    def __hash__(self):
        return hash(self.key())

    def monomial_content(self):
        """Largest monomial dividing every term (as dict atom->exp)."""
        it = iter(self.t)
        try:
            first = next(it)
        except StopIteration:
            return {}
        d = dict(first)
        for m in it:
            md = dict(m)
            for a in list(d):
                e = min(d[a], md.get(a, 0))
                if e == 0:
                    del d[a]
                else:
                    d[a] = e
            if not d:
                break
        d.pop(I, None)
        for a in list(d):
            if is_idempotent(a):
                del d[a]
        return d

    def div_monomial(self, d: dict):
        if not d:
            return self
        p = Poly()
        for m, c in self.t.items():
            md = dict(m)
            for a, e in d.items():
                md[a] -= e
                if md[a] == 0:
                    del md[a]
            p.t[tuple(sorted(md.items(), key=lambda ae: _atom_key(ae[0])))] = c
        return p

    def degree_in(self, pred) -> set:
        """Set of total degrees (over atoms satisfying pred) of the monomials."""
        out = set()
        for m in self.t:
            out.add(sum(e for a, e in m if pred(a)))
        return out

    def subs(self, mapping: dict) -> "Rat":
        """Substitute atoms by Rat values."""
        total = Rat.const(0)
        for m, c in self.t.items():
            term = Rat.const(c)
            for a, e in m:
                base = mapping.get(a)
                if base is None:
                    base = Rat.atom(a)
                term = term * (base ** e)
            total = total + term
        return total

    def fmt(self):
        if not self.t:
            return "0"
        parts = []
        for m, c in sorted(self.t.items(), key=lambda mc: repr(mc[0])):
            ms = "*".join((fmt_atom(a) if e == 1 else f"{fmt_atom(a)}^{e}") for a, e in m)
            if not ms:
                parts.append(str(c))
            elif c == 1:
                parts.append(ms)
            elif c == -1:
                parts.append("-" + ms)
            else:
                parts.append(f"{c}*{ms}")
        return " + ".join(parts).replace("+ -", "- ")


def _mono_key(m):
    """Graded-lex key of a monomial (a valid term order when no atom has a reduction rule)."""
    return (sum(e for _, e in m), tuple(sorted(((_atom_key(a), e) for a, e in m))))


def _mono_div(m, d):
    md = dict(m)
    for a, e in d:
        if md.get(a, 0) < e:
            return None
        md[a] -= e
        if md[a] == 0:
            del md[a]
    return tuple(sorted(md.items(), key=lambda ae: _atom_key(ae[0])))


def try_divide(n: "Poly", d: "Poly"):
    """Exact division n / d of multivariate polynomials, or None when d does not divide n.
    Skipped (None) when atoms with reduction rules (i, indicators) occur."""
    if any(a == I or is_idempotent(a) for a in d.atoms()):
        return None
    if any(a == I or is_idempotent(a) for a in n.atoms()):
        # R[i, indicators] is a free R-module over the reduced monomials in i / the indicators, and d lies
        # in R: d divides n iff it divides the coefficient of every such monomial.
        groups: dict = {}
        for m, c in n.t.items():
            red = tuple(ae for ae in m if ae[0] == I or is_idempotent(ae[0]))
            rest = tuple(ae for ae in m if not (ae[0] == I or is_idempotent(ae[0])))
            groups.setdefault(red, {})[rest] = c
        out = {}
        for red, terms in groups.items():
            part = Poly()
            part.t = terms
            q = try_divide(part, d)
            if q is None:
                return None
            for m, c in q.t.items():
                s_, mm = mono_mul(m, red)
                out[mm] = out.get(mm, 0) + s_ * c
        res = Poly()
        res.t = {m: c for m, c in out.items() if c != 0}
        return res
    if len(n.t) * len(d.t) > 60000:
        return None
    lt_d = max(d.t, key=_mono_key)
    c_d = d.t[lt_d]
    rem = dict(n.t)
    quo = {}
    guard = 0
    while rem:
        guard += 1
        if guard > 5000:
            return None
        lt_r = max(rem, key=_mono_key)
        qm = _mono_div(lt_r, lt_d)
        if qm is None:
            return None
        qc = rem[lt_r] / c_d
        quo[qm] = quo.get(qm, 0) + qc
        for m, c in d.t.items():
            s_, mm = mono_mul(m, qm)
            v = rem.get(mm, 0) - s_ * c * qc
            if v == 0:
                rem.pop(mm, None)
            else:
                rem[mm] = v
    out = Poly()
    out.t = {m: c for m, c in quo.items() if c != 0}
    return out


def fmt_atom(a):
    if isinstance(a, str):
        return a
    if isinstance(a, tuple):
        if a and a[0] == "call":
            return f"{a[1]}({', '.join(fmt_atom(x) for x in a[2:])})"
        if a and a[0] == "ind":
            return "1[" + ", ".join(fmt_atom(x) for x in a[1:]) + "]"
        if a and a[0] == "at":
            return f"{fmt_atom(a[1])}@{a[2]}"
        return "(" + ",".join(fmt_atom(x) for x in a) + ")"
    if isinstance(a, Rat):
        return a.fmt()
    return repr(a)


class Rat:
    """Quotient of two polynomials. Immutable."""

    __slots__ = ("n", "d")

    def __init__(self, n: Poly, d: Poly | None = None):
        if d is None:
            d = Poly.const(1)
        if d.is_zero():
            raise ZeroDivisionError("symbolic division by zero polynomial")
        if n.is_zero():
            d = Poly.const(1)
        elif d.is_const():
            c = d.const_value()
            if c != 1:
                n = n.scale(1 / c)
                d = Poly.const(1)
        else:
            # cancel common monomial content and normalise the sign / scale of den
            cn = n.monomial_content()
            cd = d.monomial_content()
            common = {a: min(e, cd[a]) for a, e in cn.items() if a in cd}
            if common:
                n = n.div_monomial(common)
                d = d.div_monomial(common)
            if n == d:
                n = Poly.const(1)
                d = Poly.const(1)
            elif len(d.t) > 1 and len(n.t) >= len(d.t) and (q := try_divide(n, d)) is not None:
                n = q
                d = Poly.const(1)
            elif len(n.t) > 1 and len(d.t) > len(n.t) and (q := try_divide(d, n)) is not None and not q.is_zero():
                d = q
                n = Poly.const(1)
                lead = d.t[min(d.t, key=repr)]
                if lead != 1:
                    n = n.scale(1 / lead)
                    d = d.scale(1 / lead)
            else:
                lead = d.t[min(d.t, key=repr)]
                if lead != 1:
                    n = n.scale(1 / lead)
                    d = d.scale(1 / lead)
                if d.is_const():
                    c = d.const_value()
                    n = n.scale(1 / c)
                    d = Poly.const(1)
        self.n = n
        self.d = d

    # constructors
    @staticmethod
    def const(c) -> "Rat":
        if isinstance(c, complex):
            return Rat.const(to_fraction(c.real)) + Rat.atom(I) * Rat.const(to_fraction(c.imag))
        return Rat(Poly.const(to_fraction(c)))

    @staticmethod
    def atom(a) -> "Rat":
        return Rat(Poly.atom(a))

    @staticmethod
    def lift(x) -> "Rat":
        if isinstance(x, Rat):
            return x
        if isinstance(x, bool):
            return Rat.const(int(x))
        if isinstance(x, (int, float, Fraction, complex)):
            return Rat.const(x)
        raise TypeError(f"cannot lift {type(x).__name__} to Rat")

    # arithmetic
    def __add__(self, o):
        o = Rat.lift(o)
        if self.d == o.d:
            return Rat(self.n + o.n, self.d)
        return Rat(self.n * o.d + o.n * self.d, self.d * o.d)

    __radd__ = __add__

    def __neg__(self):
        return Rat(-self.n, self.d)

    def __sub__(self, o):
        return self + (-Rat.lift(o))

    def __rsub__(self, o):
        return Rat.lift(o) + (-self)

    def __mul__(self, o):
        o = Rat.lift(o)
        return Rat(self.n * o.n, self.d * o.d)

    __rmul__ = __mul__

    def __truediv__(self, o):
        o = Rat.lift(o)
        if o.n.is_zero():
            raise ZeroDivisionError("symbolic division by zero")
        return Rat(self.n * o.d, self.d * o.n)

    def __rtruediv__(self, o):
        return Rat.lift(o) / self

    def __pow__(self, e):
        if isinstance(e, Rat):
            if not e.is_const():
                raise TypeError("symbolic exponent")
            e = e.const_value()
        e = Fraction(e)
        if e.denominator != 1:
            raise TypeError("non-integer exponent")
        e = int(e)
        if e == 0:
            return Rat.const(1)
        base = self if e > 0 else Rat.const(1) / self
        e = abs(e)
        r = Rat.const(1)
        for _ in range(e):
            r = r * base
        return r

    # predicates
    def is_zero(self):
        return self.n.is_zero()

    def is_const(self):
        return self.n.is_const() and self.d.is_const()

    def const_value(self) -> Fraction:
        return self.n.const_value() / self.d.const_value()

    def equals(self, o) -> bool:
        o = Rat.lift(o)
        return (self.n * o.d - o.n * self.d).is_zero()

    def atoms(self):
        return self.n.atoms() | self.d.atoms()

    def key(self):
        return (self.n.key(), self.d.key())

    def __eq__(self, o):
        return isinstance(o, Rat) and self.key() == o.key()

    def __hash__(self):
        return hash(self.key())

    def subs(self, mapping: dict) -> "Rat":
        return self.n.subs(mapping) / self.d.subs(mapping)

    def fmt(self):
        if self.d.is_const() and self.d.const_value() == 1:
            return self.n.fmt()
        return f"({self.n.fmt()}) / ({self.d.fmt()})"

    def __repr__(self):
        return f"Rat<{self.fmt()}>"

    def leading_sign(self) -> int:
        if self.n.is_zero():
            return 0
        lead = self.n.t[min(self.n.t, key=repr)]
        return 1 if lead > 0 else -1


def to_fraction(x) -> Fraction:
    if isinstance(x, Fraction):
        return x
    if isinstance(x, bool):
        return Fraction(int(x))
    if isinstance(x, int):
        return Fraction(x)
    if isinstance(x, float):
        if x != x or x in (float("inf"), float("-inf")):
            raise ValueError("non-finite float in symbolic arithmetic")
        return Fraction(repr(x))
    raise TypeError(type(x).__name__)


# ---------------------------------------------------------------------------
# opaque function application with parity rewrites
# ---------------------------------------------------------------------------

ODD = {"tanh", "sin", "sinh", "arctan", "tan", "sign", "real_odd"}
EVEN = {"cos", "cosh", "abs", "square_abs"}


def apply_fn(name: str, *args) -> Rat:
    """Opaque application f(args) as an atom, with odd/even normalisation."""
    args = tuple(Rat.lift(a) for a in args)
    if len(args) == 1:
        (u,) = args
        if u.is_zero():
            if name in ODD or name in ("sqrt", "abs", "expm1", "square_abs", "log1p"):
                return Rat.const(0)
            if name in ("cos", "cosh", "exp"):
                return Rat.const(1)
        if u.is_const() and u.const_value() == 1 and name in ("sqrt", "abs"):
            return Rat.const(1)
        if name in ODD and u.leading_sign() < 0:
            return -Rat.atom(("call", name, -u))
        if name in EVEN and u.leading_sign() < 0:
            return Rat.atom(("call", name, -u))
    return Rat.atom(("call", name) + args)


def sqrt(u) -> Rat:
    u = Rat.lift(u)
    if u.is_const():
        c = u.const_value()
        if c >= 0:
            import math

            rn, rd = math.isqrt(c.numerator), math.isqrt(c.denominator)
            if rn * rn == c.numerator and rd * rd == c.denominator:
                return Rat.const(Fraction(rn, rd))
    return _SqrtAtom.make(u)


class _SqrtAtom:
    """sqrt(u) atoms are plain ('call','sqrt',u); squares are rewritten by
    normalise_sqrt() which checks use when comparing."""

    @staticmethod
    def make(u: Rat) -> Rat:
        return Rat.atom(("call", "sqrt", u))


def normalise_sqrt(r: Rat) -> Rat:
    """Rewrite sqrt(u)^2 -> u (and even powers) everywhere in r."""
    mapping_needed = False
    for a in r.atoms():
        if isinstance(a, tuple) and a[:2] == ("call", "sqrt"):
            mapping_needed = True
    if not mapping_needed:
        return r

    def fix(p: Poly) -> Rat:
        total = Rat.const(0)
        for m, c in p.t.items():
            term = Rat.const(c)
            for a, e in m:
                if isinstance(a, tuple) and a[:2] == ("call", "sqrt"):
                    q, rem = divmod(e, 2)
                    if q:
                        term = term * (normalise_sqrt(a[2]) ** q)
                    if rem:
                        term = term * Rat.atom(a)
                else:
                    term = term * (Rat.atom(a) ** e)
            total = total + term
        return total

    return fix(r.n) / fix(r.d)


def poly_derivative(p: Poly, atom) -> Poly:
    out = Poly()
    for m, c in p.t.items():
        md = dict(m)
        e = md.get(atom, 0)
        if e == 0:
            continue
        if e == 1:
            del md[atom]
        else:
            md[atom] = e - 1
        k = tuple(sorted(md.items(), key=lambda ae: _atom_key(ae[0])))
        out.t[k] = out.t.get(k, 0) + c * e
    out.t = {k: v for k, v in out.t.items() if v != 0}
    return out


def derivative(r: Rat, atom) -> Rat:
    """d r / d atom, treating every other atom (including opaque calls) as constant."""
    dn, dd = poly_derivative(r.n, atom), poly_derivative(r.d, atom)
    return Rat(dn * r.d - r.n * dd, r.d * r.d)


def _proportion(u: Rat, base: Rat):
    """the constant q with u == q*base, or None"""
    P, Q = u.n * base.d, base.n * u.d
    if Q.is_zero() or P.is_zero():
        return None
    m0 = min(Q.t, key=repr)
    if m0 not in P.t:
        return None
    q = Fraction(P.t[m0]) / Fraction(Q.t[m0])
    qp = Poly()
    qp.t = {m: c * q for m, c in Q.t.items()}
    return q if (P - qp).is_zero() else None


def normalise_exp(r: Rat) -> Rat:
    """Rewrite the exp atoms of r over common bases: exp atoms whose arguments are rational multiples of one another
    become integer powers (negative powers divide) of one exp(g*b), so that exp(x)*exp(y) and exp(x+y), exp(-x) and
    1/exp(x) have one normal form.  Arguments that are not proportional stay independent atoms."""
    exps = [a for a in r.atoms() if isinstance(a, tuple) and len(a) == 3 and a[:2] == ("call", "exp")]
    if len(exps) < 1:
        return r
    groups: list[list] = []  # [base argument, [(atom, ratio Fraction)]]
    for a in sorted(exps, key=repr):
        u = a[2]
        for g in groups:
            q = _proportion(u, g[0])
            if q is not None:
                g[1].append((a, q))
                break
        else:
            groups.append([u, [(a, Fraction(1))]])
    mapping = {}
    for base, members in groups:
        if len(members) == 1 and members[0][1] == 1 and base.leading_sign() >= 0:
            continue
        # unit = gcd of the ratios, sign chosen so that the base argument has a positive leading coefficient
        from math import gcd

        den = 1
        for _, q in members:
            den = den * q.denominator // gcd(den, q.denominator)
        num = 0
        for _, q in members:
            num = gcd(num, abs(int(q * den)))
        unit = Fraction(num, den)
        b = base * unit
        if b.leading_sign() < 0:
            b, unit = -b, -unit
        X = Rat.atom(("call", "exp", b))
        for a, q in members:
            e = q / unit
            assert e.denominator == 1
            e = int(e)
            mapping[a] = (X ** e) if e >= 0 else Rat.const(1) / (X ** (-e))
    if not mapping:
        return r

    def fix(p: Poly) -> Rat:
        total = Rat.const(0)
        for m, c in p.t.items():
            term = Rat.const(c)
            for a, e in m:
                term = term * ((mapping[a] if a in mapping else Rat.atom(a)) ** e)
            total = total + term
        return total

    return fix(r.n) / fix(r.d)
