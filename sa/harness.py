"""Helpers shared by rule modules: stubs, recorders, symbolic fixtures."""

from __future__ import annotations

from .absint import Interp, canon_ext
from .index import AnalysisError
from .poly import Rat
from .values import AbsVal, Bound, Builtin, Closure, ExtRef, Obj, Partial, Unknown


def stub_repo_calls(interp: Interp, table: dict):
    """table: qualname (or suffix after 'fdtdx.') -> fn(interp, args, kwargs)."""

    def hook(it, callee, args, kwargs):
        clo = callee.func if isinstance(callee, Bound) else callee
        if isinstance(clo, Closure) and clo.qualname:
            q = clo.qualname
            for key, fn in table.items():
                if q == key or q.endswith("." + key):
                    a = ([callee.self_obj] + list(args)) if isinstance(callee, Bound) else list(args)
                    return fn(it, a, kwargs)
        return NotImplemented

    interp.call_hooks.append(hook)


def stub_ext(interp: Interp, table: dict):
    for name, fn in table.items():
        interp.ext_handlers[canon_ext(name)] = fn


class Recorder:
    """Records calls to chosen external / repo functions (effect extraction)."""

    def __init__(self):
        self.calls: list[tuple] = []

    def ext(self, interp: Interp, name: str, result_fn=None):
        def h(it, args, kwargs, _n=name):
            self.calls.append((_n, list(args), dict(kwargs)))
            return result_fn(it, args, kwargs) if result_fn else None

        interp.ext_handlers[canon_ext(name)] = h

    def named(self, name):
        return [c for c in self.calls if c[0] == name]


def open_obj(cls, label, **attrs) -> Obj:
    return Obj(cls, attrs, label, open_attrs=True)


def callee_name(v) -> str:
    if isinstance(v, Partial):
        return callee_name(v.func)
    if isinstance(v, Bound):
        return v.func.qualname
    if isinstance(v, Closure):
        return v.qualname
    if isinstance(v, ExtRef):
        return v.name
    if isinstance(v, Builtin):
        return v.name
    return repr(v)


def mk_material(interp: Interp, **kw) -> Obj:
    """Instantiate fdtdx.materials.Material through its own __init__ (normalisation included)."""
    ci = interp.index.cls("fdtdx.materials.Material")
    return interp.instantiate(ci, [], kw)


class Written:
    """Result of `state[key].at[idx].set/add(value)` on a recording detector state."""

    def __init__(self, key, idx, mode, value):
        self.key, self.idx, self.mode, self.value = key, idx, mode, value

    def __repr__(self):
        return f"<Written {self.key}[{self.idx!r}].{self.mode}>"


class _RecAt(AbsVal):
    def __init__(self, key, idx=None):
        self.key, self.idx = key, idx

    def av_getitem(self, idx):
        return _RecAt(self.key, idx)

    def av_getattr(self, name):
        if name in ("set", "add", "multiply", "min", "max"):
            return Builtin(name, lambda it, a, k, _n=name: Written(self.key, self.idx, _n, a[0]))
        raise AnalysisError(f"state.at[...].{name}")


class _RecArr(AbsVal):
    is_array = True

    def __init__(self, key):
        self.key = key

    def av_getattr(self, name):
        if name == "at":
            return _RecAt(self.key)
        if name == "dtype":
            return Unknown(f"{self.key}.dtype")
        raise AnalysisError(f"previous detector state .{name} is read (only .at[idx].set/add writes are modelled)")

    def av_getitem(self, idx):
        return Rat.atom(("state", self.key, repr(idx)))


class RecState(AbsVal):
    """Detector state dict that records writes: state[k].at[i].set(v) evaluates to Written(k, i, 'set', v)."""

    def av_getitem(self, key):
        return _RecArr(key)

    def av_getattr(self, name):
        if name == "copy":
            return Builtin(name, lambda it, a, k: self)
        raise AnalysisError(f"state.{name}")


def backward_slice(fn_node, names, inputs, body=None):
    """Statements of `body` (default: the top-level statements of fn_node), in order, that define `names`,
    transitively, stopping at `inputs` (whose own definitions are not followed).  Returns (statements, free names that
    are neither defined nor inputs)."""
    import ast

    needed, chosen = set(names) - set(inputs), []
    for st in reversed(fn_node.body if body is None else body):
        tg = set()
        if isinstance(st, ast.Assign):
            for t in st.targets:
                tg |= {n.id for n in ast.walk(t) if isinstance(n, ast.Name)}
        elif isinstance(st, ast.AnnAssign) and isinstance(st.target, ast.Name) and st.value is not None:
            tg = {st.target.id}
        if tg & needed:
            chosen.append(st)
            needed -= tg
            needed |= {n.id for n in ast.walk(st.value) if isinstance(n, ast.Name) and isinstance(n.ctx, ast.Load)} - set(inputs)
    chosen.reverse()
    comp_vars = set()
    for st in chosen:
        for n in ast.walk(st):
            if isinstance(n, ast.comprehension):
                comp_vars |= {m.id for m in ast.walk(n.target) if isinstance(m, ast.Name)}
    return chosen, needed - comp_vars
